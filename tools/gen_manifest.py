#!/usr/bin/env python3
"""Regenerate MANIFEST.json from contracts/meta.py (single source of truth) and validate it."""
import json, os, sys
HERE = os.path.dirname(os.path.dirname(os.path.abspath(__file__)))
sys.path.insert(0, HERE)
from contracts.meta import META, NOT_APPLICABLE, FIX_COMMITS  # noqa

props = [json.loads(l)["id"] for l in open(os.path.join(HERE, "properties.jsonl"))]
checks = []
for pid in props:
    if pid not in META:
        continue
    m = META[pid]
    checks.append({
        "property_id": pid,
        "quick_cmd": f"./check {pid} --tier quick",
        "thorough_cmd": f"./check {pid} --tier thorough",
        "evidence_file": f"evidence/{pid}.json",
        "replay_cmd_template": f"./check {pid} --replay {{path}}",
        "engine": "pyvc",
        "level_claimed": {"category": m["level"], "text": m["level_text"], "design_ref": m.get("design_ref", f"DESIGN.md section 3, {pid}")},
        "level_note": m["level_note"],
        "technique": m["technique"],
    })
na = [{"property_id": p, "reason": NOT_APPLICABLE[p]} for p in props if p not in META]
missing = [p for p in props if p not in META and p not in NOT_APPLICABLE]
assert not missing, missing
man = {
    "version": 1,
    "setup_cmd": "python3-vt -c 'import z3, sympy' && /venv/bin/python -c 'import pyimpspec' && test -x /usr/bin/cvc5",
    "hooks": {"guard": "PYIMPSPEC_VERIF", "enable": "none needed: no instrumentation was added to /repo; contracts live in /verif/contracts and read /repo/src as text",
              "baseline_off_cmd": "cd /repo && /venv/bin/python -m pytest -ra -q -p no:cacheprovider --timeout=900 --continue-on-collection-errors",
              "source_commits": FIX_COMMITS, "add_only": True},
    "engines": [{"name": "pyvc", "path": "pyvc/", "serves_properties": [c["property_id"] for c in checks],
                 "kind_free_text": "home-built verification-condition generator: symbolic execution of the real function ASTs of /repo/src (re-read every run) against sidecar contracts, discharged by z3 (API) and cvc5 (CLI); bounded run-time-contract layer under /venv/bin/python as labelled stand-in"}],
    "checks": checks,
    "not_applicable": na,
    "notes": "Exit codes: 0 held, 1 violation (VIOLATION line), 2 undecided, 3 checker crash. See DESIGN.md.",
}
with open(os.path.join(HERE, "MANIFEST.json"), "w") as fh:
    json.dump(man, fh, indent=1)
try:
    import jsonschema
    jsonschema.validate(man, json.load(open("/root/.vp/MANIFEST.schema.json")))
    print("MANIFEST.json valid;", len(checks), "checks,", len(na), "not applicable")
except ImportError:
    print("written (jsonschema not available)")
