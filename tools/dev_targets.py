import sys, time, traceback, importlib
sys.path.insert(0,'/verif')
from pyvc.core import Session
from pyvc.symex import Unsupported as U1
from pyvc.hoare import Unsupported as U2
Unsupported = (U1, U2)
mod = importlib.import_module('contracts.'+sys.argv[1]); prop = sys.argv[1].upper() if sys.argv[1] != 'steps' else 'C18'
only = sys.argv[2] if len(sys.argv)>2 else ''
for name, m, qual, run in mod.targets():
    if only and only not in name: continue
    s = Session(prop, name); t=time.time()
    try:
        run(s)
    except Unsupported as e:
        print('UNSUPPORTED', name, e); 
    except Exception:
        traceback.print_exc()
    bad=[o for o in s.obligations if ((o.status=='discharged') if o.expect_refuted else (o.status!='discharged'))]
    print(f"{name}: {len(s.obligations)} obligations, {len(bad)} bad, {time.time()-t:.1f}s")
    for a in s.assumptions: print("  note:", a[:200])
    for o in bad: print('BAD', o.status, o.name, o.detail[:100], o.formula[:160])
