#!/usr/bin/env python3
"""Seeded changes: collect, confirm (demo fails with / passes without, test suite unchanged) and run the checks against them.

  tools/seeded.py collect /tmp/wt/out-*          copy <ID>-<k>/ directories into /verif/seeded/
  tools/seeded.py confirm [ids...]              in a scratch worktree under /tmp (removed afterwards)
  tools/seeded.py detect  [ids...]              ./check <property> with VERIF_REPO=<scratch tree>; results -> seeded/RESULTS.json
No change is ever applied to /repo itself."""
import glob, json, os, re, shutil, subprocess, sys, tempfile, time, xml.etree.ElementTree as ET
from concurrent.futures import ThreadPoolExecutor

HERE = os.path.dirname(os.path.dirname(os.path.abspath(__file__)))
SEEDED = os.path.join(HERE, "seeded")
PY = "/venv/bin/python"


def sh(cmd, **kw):
    return subprocess.run(cmd, shell=isinstance(cmd, str), capture_output=True, text=True, **kw)


def collect(dirs):
    os.makedirs(SEEDED, exist_ok=True)
    for d in dirs:
        for sub in sorted(glob.glob(os.path.join(d, "C[0-9][0-9]-[0-9]*"))):
            name = os.path.basename(sub)
            if not all(os.path.exists(os.path.join(sub, f)) for f in ("patch.diff", "demo.py", "meta.json")):
                print("incomplete:", sub)
                continue
            dst = os.path.join(SEEDED, name)
            os.makedirs(dst, exist_ok=True)
            for f in ("patch.diff", "demo.py", "meta.json"):
                shutil.copy(os.path.join(sub, f), os.path.join(dst, f))
            print("collected", name)


def scratch(name):
    root = tempfile.mkdtemp(prefix=f"seeded-{name}-", dir="/tmp")
    r = sh(["git", "-C", "/repo", "worktree", "add", "--detach", "-f", os.path.join(root, "wt"), "HEAD"])
    assert r.returncode == 0, r.stderr
    return root, os.path.join(root, "wt")


def drop(root):
    sh(["git", "-C", "/repo", "worktree", "remove", "--force", os.path.join(root, "wt")])
    shutil.rmtree(root, ignore_errors=True)


def run_demo(wt, demo):
    env = dict(os.environ, PYTHONPATH=os.path.join(wt, "src"), MPLBACKEND="Agg", XDG_CONFIG_HOME=os.path.join(wt, ".cfg"))
    try:
        r = subprocess.run([PY, demo], cwd=wt, env=env, capture_output=True, text=True, timeout=1800)
        return r.returncode, (r.stdout + r.stderr)[-1500:]
    except subprocess.TimeoutExpired:
        return -9, "timeout"


def run_tests(wt):
    xml = os.path.join(wt, "junit.xml")
    env = dict(os.environ, PYTHONPATH=os.path.join(wt, "src"), MPLBACKEND="Agg")
    subprocess.run([PY, "-m", "pytest", "-q", "-p", "no:cacheprovider", "--timeout=900", "--continue-on-collection-errors", f"--junitxml={xml}"],
                   cwd=wt, env=env, capture_output=True, text=True, timeout=3600)
    passed = set()
    for tc in ET.parse(xml).iter("testcase"):
        if not any(ch.tag in ("failure", "error", "skipped") for ch in tc):
            passed.add(f"{tc.get('classname')}::{tc.get('name')}")
    return passed


def confirm(name):
    d = os.path.join(SEEDED, name)
    meta = json.load(open(os.path.join(d, "meta.json")))
    base = set(json.load(open("/root/.vp/BASELINE.json"))["stable_pass"])
    root, wt = scratch(name)
    try:
        rc0, out0 = run_demo(wt, os.path.join(d, "demo.py"))
        ap = sh(["git", "-C", wt, "apply", os.path.join(d, "patch.diff")])
        if ap.returncode != 0:
            res = {"applies": False, "error": ap.stderr[-500:]}
        else:
            imp = subprocess.run([PY, "-c", "import pyimpspec"], env=dict(os.environ, PYTHONPATH=os.path.join(wt, "src")), capture_output=True, text=True)
            rc1, out1 = run_demo(wt, os.path.join(d, "demo.py"))
            passed = run_tests(wt)
            missing = sorted(base - passed)
            res = {"applies": True, "imports": imp.returncode == 0, "demo_exit_unchanged": rc0, "demo_exit_with_change": rc1, "demo_output_with_change": out1[-600:],
                   "pinned_tests_passing": len(base & passed), "pinned_tests_lost": missing[:10],
                   "confirmed": imp.returncode == 0 and rc0 == 0 and rc1 != 0 and not missing}
    finally:
        drop(root)
    meta["confirmation_by_orchestrator"] = res
    json.dump(meta, open(os.path.join(d, "meta.json"), "w"), indent=1)
    print(name, "confirmed" if res.get("confirmed") else f"NOT confirmed: {res}")
    return name, res


def detect(name, props=None, tier="quick"):
    d = os.path.join(SEEDED, name)
    meta = json.load(open(os.path.join(d, "meta.json")))
    prop = name.split("-")[0]
    props = props or [prop]
    root, wt = scratch(name)
    out = {}
    try:
        ap = sh(["git", "-C", wt, "apply", os.path.join(d, "patch.diff")])
        assert ap.returncode == 0, ap.stderr
        for p in props:
            outdir = os.path.join(root, "out")
            env = dict(os.environ, VERIF_REPO=wt, VERIF_OUT=outdir, VERIF_TIER=tier)
            t0 = time.time()
            r = subprocess.run([os.path.join(HERE, "check"), p, "--tier", tier], env=env, capture_output=True, text=True, timeout=7200)
            lines = [l for l in r.stdout.splitlines() if l.startswith(("VIOLATION", "UNDECIDED", "CHECKER-CRASH", "KNOWN-FINDING"))]
            caught_by = []
            for l in lines:
                m = re.match(r"VIOLATION property=\S+ replay=(\S+)", l)
                if m:
                    try:
                        rp = json.load(open(os.path.join(outdir, m.group(1))))
                        caught_by.append({"obligation": rp.get("obligation"), "replayed": bool(rp.get("repro")), "no_failing_input": l.endswith("no-failing-input-found")})
                    except Exception:
                        caught_by.append({"line": l})
            out[p] = {"exit": r.returncode, "wall_s": round(time.time() - t0, 1), "violations": len(caught_by), "caught_by": caught_by[:8],
                      "other_lines": [l[:200] for l in lines if not l.startswith(("VIOLATION", "KNOWN-FINDING"))][:6], "summary": r.stdout.strip().splitlines()[-1][:300] if r.stdout.strip() else r.stderr[-300:]}
    finally:
        drop(root)
    return name, out


def main():
    cmd = sys.argv[1]
    if cmd == "collect":
        collect(sys.argv[2:])
        return
    names = sys.argv[2:] or sorted(os.path.basename(p) for p in glob.glob(os.path.join(SEEDED, "C*-*")))
    names = [n for n in names if not n.startswith("--")]
    tier = "thorough" if "--thorough" in sys.argv else "quick"
    resfile = os.path.join(SEEDED, "RESULTS.json")
    results = json.load(open(resfile)) if os.path.exists(resfile) else {}
    if cmd == "confirm":
        with ThreadPoolExecutor(4) as ex:
            list(ex.map(confirm, names))
    elif cmd == "detect":
        with ThreadPoolExecutor(3) as ex:
            for name, out in ex.map(lambda n: detect(n, tier=tier), names):
                results.setdefault(name, {})[tier] = out
                caught = any(v["exit"] == 1 for v in out.values())
                print(name, tier, "CAUGHT" if caught else "missed", {p: (v["exit"], v["violations"]) for p, v in out.items()})
                json.dump(results, open(resfile, "w"), indent=1, sort_keys=True)


if __name__ == "__main__":
    main()
