#!/usr/bin/env python3
"""Seeded changes: collect, confirm (demo fails with / passes without, test suite unchanged) and run the checks against them.

  tools/seeded.py collect /tmp/wt/out-*          copy <ID>-<k>/ directories into /verif/seeded/
  tools/seeded.py confirm [ids...]              in a scratch worktree under /tmp (removed afterwards)
  tools/seeded.py detect  [ids...]              ./check <property> with VERIF_REPO=<scratch tree>; results -> seeded/RESULTS.json
No change is ever applied to /repo itself."""
import glob, json, os, re, shutil, subprocess, sys, tempfile, time, xml.etree.ElementTree as ET
from concurrent.futures import ThreadPoolExecutor

HERE = os.path.dirname(os.path.dirname(os.path.abspath(__file__)))
SEEDED = os.path.join(HERE, "benign" if "--benign" in sys.argv else "seeded")      # --benign: behaviour-preserving changes (expected verdict: exit 0)
PY = "/venv/bin/python"


def sh(cmd, **kw):
    return subprocess.run(cmd, shell=isinstance(cmd, str), capture_output=True, text=True, **kw)


def collect(dirs):
    os.makedirs(SEEDED, exist_ok=True)
    for d in dirs:
        for sub in sorted(glob.glob(os.path.join(d, "C[0-9][0-9]-[0-9b]*"))):
            name = os.path.basename(sub)
            if not all(os.path.exists(os.path.join(sub, f)) for f in ("patch.diff", "demo.py", "meta.json")):
                print("incomplete:", sub)
                continue
            dst = os.path.join(SEEDED, name)
            os.makedirs(dst, exist_ok=True)
            for f in ("patch.diff", "demo.py", "meta.json"):
                shutil.copy(os.path.join(sub, f), os.path.join(dst, f))
            print("collected", name)


def scratch(name):
    root = tempfile.mkdtemp(prefix=f"seeded-{name}-", dir="/tmp")
    r = sh(["git", "-C", "/repo", "worktree", "add", "--detach", "-f", os.path.join(root, "wt"), "HEAD"])
    assert r.returncode == 0, r.stderr
    return root, os.path.join(root, "wt")


def drop(root):
    sh(["git", "-C", "/repo", "worktree", "remove", "--force", os.path.join(root, "wt")])
    shutil.rmtree(root, ignore_errors=True)


def run_demo(wt, demo):
    env = dict(os.environ, PYTHONPATH=os.path.join(wt, "src"), MPLBACKEND="Agg", XDG_CONFIG_HOME=os.path.join(wt, ".cfg"))
    try:
        r = subprocess.run([PY, demo], cwd=wt, env=env, capture_output=True, text=True, timeout=1800)
        return r.returncode, (r.stdout + r.stderr)[-1500:]
    except subprocess.TimeoutExpired:
        return -9, "timeout"


def run_tests(wt):
    xml = os.path.join(wt, "junit.xml")
    env = dict(os.environ, PYTHONPATH=os.path.join(wt, "src"), MPLBACKEND="Agg")
    subprocess.run([PY, "-m", "pytest", "-q", "-p", "no:cacheprovider", "--timeout=900", "--continue-on-collection-errors", f"--junitxml={xml}"],
                   cwd=wt, env=env, capture_output=True, text=True, timeout=3600)
    passed = set()
    for tc in ET.parse(xml).iter("testcase"):
        if not any(ch.tag in ("failure", "error", "skipped") for ch in tc):
            passed.add(f"{tc.get('classname')}::{tc.get('name')}")
    return passed


def confirm(name):
    d = os.path.join(SEEDED, name)
    meta = json.load(open(os.path.join(d, "meta.json")))
    base = set(json.load(open("/root/.vp/BASELINE.json"))["stable_pass"])
    root, wt = scratch(name)
    try:
        rc0, out0 = run_demo(wt, os.path.join(d, "demo.py"))
        ap = sh(["git", "-C", wt, "apply", os.path.join(d, "patch.diff")])
        if ap.returncode != 0:
            res = {"applies": False, "error": ap.stderr[-500:]}
        else:
            imp = subprocess.run([PY, "-c", "import pyimpspec"], env=dict(os.environ, PYTHONPATH=os.path.join(wt, "src")), capture_output=True, text=True)
            rc1, out1 = run_demo(wt, os.path.join(d, "demo.py"))
            passed = run_tests(wt)
            missing = sorted(base - passed)
            benign = "--benign" in sys.argv
            res = {"applies": True, "imports": imp.returncode == 0, "demo_exit_unchanged": rc0, "demo_exit_with_change": rc1, "demo_output_with_change": out1[-600:],
                   "pinned_tests_passing": len(base & passed), "pinned_tests_lost": missing[:10],
                   "confirmed": imp.returncode == 0 and rc0 == 0 and ((rc1 == 0) if benign else (rc1 != 0)) and not missing}
    finally:
        drop(root)
    meta["confirmation_by_orchestrator"] = res
    json.dump(meta, open(os.path.join(d, "meta.json"), "w"), indent=1)
    print(name, "confirmed" if res.get("confirmed") else f"NOT confirmed: {res}")
    return name, res


def detect(name, props=None, tier="quick"):
    d = os.path.join(SEEDED, name)
    meta = json.load(open(os.path.join(d, "meta.json")))
    prop = name.split("-")[0]
    props = props or [prop]
    root, wt = scratch(name)
    out = {}
    try:
        ap = sh(["git", "-C", wt, "apply", os.path.join(d, "patch.diff")])
        assert ap.returncode == 0, ap.stderr
        for p in props:
            outdir = os.path.join(root, "out")
            env = dict(os.environ, VERIF_REPO=wt, VERIF_OUT=outdir, VERIF_TIER=tier)
            t0 = time.time()
            r = subprocess.run([os.path.join(HERE, "check"), p, "--tier", tier], env=env, capture_output=True, text=True, timeout=7200)
            lines = [l for l in r.stdout.splitlines() if l.startswith(("VIOLATION", "UNDECIDED", "CHECKER-CRASH", "KNOWN-FINDING"))]
            caught_by = []
            for l in lines:
                m = re.match(r"VIOLATION property=\S+ replay=(\S+)", l)
                if m:
                    try:
                        rp = json.load(open(os.path.join(outdir, m.group(1))))
                        caught_by.append({"obligation": rp.get("obligation"), "replayed": bool(rp.get("repro")), "no_failing_input": l.endswith("no-failing-input-found")})
                    except Exception:
                        caught_by.append({"line": l})
            out[p] = {"exit": r.returncode, "wall_s": round(time.time() - t0, 1), "violations": len(caught_by), "caught_by": caught_by[:8],
                      "other_lines": [l[:200] for l in lines if not l.startswith(("VIOLATION", "KNOWN-FINDING"))][:6], "summary": r.stdout.strip().splitlines()[-1][:300] if r.stdout.strip() else r.stderr[-300:]}
    finally:
        drop(root)
    return name, out


def report():
    """seeded/RESULTS.md from RESULTS.json and the meta files"""
    res = json.load(open(os.path.join(SEEDED, "RESULTS.json")))
    rows = []
    n_caught = n_proof = 0
    names = sorted(os.path.basename(p) for p in glob.glob(os.path.join(SEEDED, "C*-*")))
    for name in names:
        meta = json.load(open(os.path.join(SEEDED, name, "meta.json")))
        files = sorted(set(re.findall(r"^\+\+\+ b/src/pyimpspec/(\S+)", open(os.path.join(SEEDED, name, "patch.diff")).read(), flags=re.M)))
        conf = meta.get("confirmation_by_orchestrator", {})
        r = res.get(name, {})
        cells = []
        caught = False
        by_proof = False
        for tier in ("quick", "thorough"):
            for prop, v in sorted(r.get(tier, {}).items()):
                obs = [c.get("obligation") or c.get("line", "") for c in v.get("caught_by", [])]
                proof = [o for o in obs if not o.startswith("bounded:")]
                bnd = [o for o in obs if o.startswith("bounded:")]
                und = [l for l in v.get("other_lines", []) if l.startswith("UNDECIDED")]
                if v["exit"] == 1:
                    caught = True
                    by_proof = by_proof or bool(proof)
                first = (proof or bnd or [""])[0]
                first = re.sub(r"^C\d\d/", "", first)
                cells.append(f"{tier} `./check {prop}`: exit {v['exit']}, {v['violations']} VIOLATION line(s)"
                             + (f"; proof layer: `{first[:170]}`" if proof else (f"; bounded stand-in only: `{first[:120]}`" if bnd else ""))
                             + (f"; {len(und)}+ obligations undecided (the changed code left the verifier's subset)" if und and not proof else ""))
        n_caught += caught
        n_proof += by_proof
        what = meta.get("what_changed", "").replace("|", "/").replace("\n", " ")
        rows.append(f"| {name} | {', '.join(files)} | {what[:260]}{'…' if len(what) > 260 else ''} | {'yes' if conf.get('confirmed') else 'NO'} | {'**caught**' if caught else '**MISSED**'} | {'<br>'.join(cells) or 'not run'} |")
    out = ["# Seeded changes and what the checks say about them", "",
           "Produced by `tools/seeded.py report` from `seeded/RESULTS.json` (written by `tools/seeded.py detect`, which applies each patch to a scratch",
           "worktree outside /repo and /verif, runs `./check <property>` with `VERIF_REPO` pointing at it, and removes the worktree).",
           "Every change was written by a sub-agent that saw only the property text and its own scratch worktree; `confirmed` = I applied it in a scratch",
           "worktree myself: the demo exits 0 without and non-zero with the change, the package imports, and none of the pinned passing tests is lost.", "",
           f"**{n_caught} of {len(names)} caught** (exit 1 with a VIOLATION line); for {n_proof} of them a proof-layer obligation that is discharged on the unchanged tree is refuted,",
           "for the others the violation comes from the labelled bounded stand-in (often next to obligations that became *undecided* because the changed code",
           "uses constructs outside the verifier's subset).", "",
           "| id | file(s) | change (author's description, truncated) | confirmed | verdict | which check catches it |", "|---|---|---|---|---|---|"] + rows
    open(os.path.join(SEEDED, "RESULTS.md"), "w").write("\n".join(out) + "\n")
    print(f"{n_caught}/{len(names)} caught, {n_proof} by the proof layer")


def main():
    cmd = sys.argv[1]
    if cmd == "report":
        report()
        return
    if cmd == "collect":
        collect([a for a in sys.argv[2:] if not a.startswith("--")])
        return
    names = [n for n in sys.argv[2:] if not n.startswith("--")] or sorted(os.path.basename(p) for p in glob.glob(os.path.join(SEEDED, "C*-*")))
    tier = "thorough" if "--thorough" in sys.argv else "quick"
    resfile = os.path.join(SEEDED, "RESULTS.json")
    results = json.load(open(resfile)) if os.path.exists(resfile) else {}
    if cmd == "confirm":
        with ThreadPoolExecutor(4) as ex:
            list(ex.map(confirm, names))
    elif cmd == "detect":
        with ThreadPoolExecutor(3) as ex:
            for name, out in ex.map(lambda n: detect(n, tier=tier), names):
                results.setdefault(name, {})[tier] = out
                caught = any(v["exit"] == 1 for v in out.values())
                if "--benign" in sys.argv:
                    worst = max(v["exit"] for v in out.values())
                    print(name, tier, {0: "quiet", 1: "FALSE-ALARM", 2: "undecided", 3: "CRASH"}.get(worst, worst), {p: (v["exit"], v["violations"]) for p, v in out.items()})
                else:
                    print(name, tier, "CAUGHT" if caught else "missed", {p: (v["exit"], v["violations"]) for p, v in out.items()})
                json.dump(results, open(resfile, "w"), indent=1, sort_keys=True)


if __name__ == "__main__":
    main()
