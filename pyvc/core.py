"""pyvc core: obligations, solver dispatch (z3 API first, cvc5 CLI for what z3 leaves open), source access.

Exit-code discipline (DESIGN 2.4): 0 held / 1 violation / 2 undecided / 3 checker crash.
Nothing in here ever maps `unknown`, a timeout or a traceback to a violation.
"""
from __future__ import annotations

import ast
import hashlib
import os
import subprocess
import tempfile
import time
from dataclasses import dataclass, field
from typing import Any, Callable, Dict, List, Optional

import z3

REPO = os.environ.get("VERIF_REPO", "/repo")
SRC = os.path.join(REPO, "src", "pyimpspec")
VERIF = os.path.dirname(os.path.dirname(os.path.abspath(__file__)))

Z3_TIMEOUT_MS = int(os.environ.get("PYVC_Z3_TIMEOUT_MS", "10000"))
CVC5_TIMEOUT_MS = int(os.environ.get("PYVC_CVC5_TIMEOUT_MS", "10000"))

DISCHARGED, REFUTED, UNDECIDED, UNSUPPORTED = "discharged", "refuted", "undecided", "unsupported"


@dataclass
class Obligation:
    """One verification condition.  `hyps |= goal` is what is to be shown (validity)."""

    name: str                       # <prop>/<module>:<qualname>/<kind>[@L<line>]#<n>
    kind: str                       # pre, post, inv-init, inv-step, frame, exc-free, call-pre, decreases, lemma, cover, canary
    status: str = UNDECIDED
    backend: str = ""
    time_s: float = 0.0
    line: int = 0
    formula: str = ""               # human readable (truncated) rendering
    model: Optional[Dict[str, str]] = None
    detail: str = ""                # why undecided / unsupported, solver output
    expect_refuted: bool = False    # canaries and covers: the *negated* expectation
    replay: Optional[Dict[str, Any]] = None  # filled by the sidecar's model->input mapping
    function: str = ""
    soft: bool = False              # a design rule the other contracts lean on (purity, frames): refuted => the proofs that assume it are void
                                    # (undecided) unless the bounded layer holds a native witness; never a violation on its own

    def to_json(self) -> Dict[str, Any]:
        d = dict(self.__dict__)
        return d


def _model_to_dict(m: z3.ModelRef, limit: int = 24) -> Dict[str, str]:
    out: Dict[str, str] = {}
    for d in m.decls()[:limit]:
        try:
            out[d.name()] = str(m[d])[:160]
        except Exception:  # pragma: no cover
            out[d.name()] = "?"
    return out


def _cvc5_check(smt2: str, timeout_ms: int) -> str:
    """returns 'unsat' / 'sat' / 'unknown' using the cvc5 binary (quantifiers + strings enabled)."""
    exe = "/usr/bin/cvc5"
    if not os.path.exists(exe):
        return "unknown"
    with tempfile.NamedTemporaryFile("w", suffix=".smt2", delete=False, dir=os.environ.get("PYVC_TMP") or None) as fh:
        fh.write("(set-logic ALL)\n" + smt2 + "\n(check-sat)\n")
        path = fh.name
    try:
        r = subprocess.run(
            [exe, "--strings-exp", f"--tlimit={timeout_ms}", path],
            capture_output=True, text=True, timeout=timeout_ms / 1000 + 5,
        )
        out = r.stdout.strip().splitlines()
        return out[0] if out and out[0] in ("sat", "unsat", "unknown") else "unknown"
    except Exception:
        return "unknown"
    finally:
        os.unlink(path)


class Session:
    """Collects the obligations of one target run."""

    def __init__(self, prop: str, target: str):
        self.prop = prop
        self.target = target
        self.obligations: List[Obligation] = []
        self.counter: Dict[str, int] = {}
        self.abstracted: List[str] = []
        self.assumptions: List[str] = []
        self.solver_time = 0.0

    def _name(self, kind: str, line: int) -> str:
        base = f"{self.prop}/{self.target}/{kind}" + (f"@L{line}" if line else "")
        n = self.counter.get(base, 0) + 1
        self.counter[base] = n
        return f"{base}#{n}"

    def check(self, kind: str, hyps: List[z3.ExprRef], goal: Any, line: int = 0, label: str = "",
              expect_refuted: bool = False, want_model: bool = True, timeout_ms: int = 0, ematching_first: bool = False) -> Obligation:
        """Discharge `hyps |= goal`. Returns the obligation (status set)."""
        if isinstance(goal, bool):
            goal = z3.BoolVal(goal)
        name = self._name(kind + (f"[{label}]" if label else ""), line)
        ob = Obligation(name=name, kind=kind, line=line, function=self.target, expect_refuted=expect_refuted)
        ob.formula = (str(z3.simplify(goal)) if z3.is_expr(goal) else str(goal))[:400]
        t0 = time.time()
        if ematching_first:
            # hypotheses with quantifiers (E5): E-matching alone usually finds the refutation of the negated goal at once, while the
            # default configuration spends its time looking for a model it cannot build
            f = z3.SimpleSolver()
            f.set("mbqi", False)
            f.set("auto_config", False)
            f.set("timeout", 3000 if expect_refuted else 30000)      # milliseconds normally; the budget only matters when all cores are busy
            f.add(*hyps)
            f.add(z3.Not(goal))
            fr = f.check()
            if fr == z3.unsat or expect_refuted:
                # (a vacuity canary under quantified hypotheses is never `sat`: not refuted by E-matching is what can be had)
                ob.status, ob.backend = (DISCHARGED if fr == z3.unsat else UNDECIDED), "z3"
                ob.time_s = time.time() - t0
                self.solver_time += ob.time_s
                self.obligations.append(ob)
                return ob
        s = z3.Solver()
        s.set("timeout", timeout_ms or (2000 if expect_refuted else Z3_TIMEOUT_MS))
        s.add(*hyps)
        s.add(z3.Not(goal))
        try:
            r = s.check()
        except z3.Z3Exception as ex:  # pragma: no cover
            r = z3.unknown
            ob.detail = f"z3 exception {ex}"
        ob.backend = "z3"
        if r == z3.unsat:
            ob.status = DISCHARGED
        elif r == z3.sat:
            ob.status = REFUTED
            if want_model:
                ob.model = _model_to_dict(s.model())
                ob._z3model = s.model()  # type: ignore[attr-defined]
        else:
            # second opinion (not for vacuity canaries: `unknown` is good enough there)
            res = "unknown" if expect_refuted else _cvc5_check(s.to_smt2().replace("(check-sat)", ""), CVC5_TIMEOUT_MS)
            if res == "unsat":
                ob.status, ob.backend = DISCHARGED, "cvc5"
            elif res == "sat":
                ob.status, ob.backend = REFUTED, "cvc5"
                ob.detail = "cvc5 sat (no model extracted)"
            else:
                ob.status = UNDECIDED
                ob.detail = (ob.detail + f" z3={s.reason_unknown()} cvc5={res}").strip()
        ob.time_s = time.time() - t0
        self.solver_time += ob.time_s
        self.obligations.append(ob)
        return ob

    def check_qeq(self, kind: str, prover, a, b, line: int = 0, label: str = "", expect_refuted: bool = False) -> Obligation:
        """equality of two complex rational functions (pyvc.cq.Q): first the exact ring normaliser on the cross-multiplied
        numerators (decides pure polynomial identities, hypotheses not needed), then z3 with the prover's hypotheses."""
        from .ring import is_zero
        t0 = time.time()
        g1 = a.re * b.den - b.re * a.den
        g2 = a.im * b.den - b.im * a.den
        z1, z2 = is_zero(g1), is_zero(g2)
        if z1 is True and z2 is True and not expect_refuted:
            name = self._name(kind + (f"[{label}]" if label else ""), line)
            ob = Obligation(name=name, kind=kind, line=line, function=self.target, status=DISCHARGED, backend="ring-normaliser",
                            formula=f"polynomial identity ({label}): cross-multiplied numerators normalise to 0", time_s=time.time() - t0)
            self.solver_time += ob.time_s
            self.obligations.append(ob)
            return ob
        if (z1 is False or z2 is False) and expect_refuted:
            name = self._name(kind + (f"[{label}]" if label else ""), line)
            ob = Obligation(name=name, kind=kind, line=line, function=self.target, status=REFUTED, backend="ring-normaliser", expect_refuted=True,
                            formula=f"not a polynomial identity ({label})", time_s=time.time() - t0)
            self.obligations.append(ob)
            return ob
        return self.check(kind, prover.hyps, prover.eq_goal(a, b), line=line, label=label, expect_refuted=expect_refuted)

    def unsupported(self, what: str, line: int = 0) -> Obligation:
        ob = Obligation(name=self._name("unsupported", line), kind="unsupported", status=UNSUPPORTED,
                        line=line, detail=what, function=self.target)
        self.obligations.append(ob)
        return ob

    def feasible(self, hyps: List[z3.ExprRef]) -> bool:
        s = z3.Solver()
        s.set("timeout", 2000)
        s.add(*hyps)
        return s.check() != z3.unsat


# ---------------------------------------------------------------------------------------------
# source access: always the current working tree, never a copy

_AST_CACHE: Dict[str, ast.Module] = {}
_SRC_CACHE: Dict[str, str] = {}


def module_path(module: str) -> str:
    """'circuit/base' or 'pyimpspec.circuit.base' -> absolute file"""
    m = module.replace("pyimpspec.", "").replace(".", "/")
    p = os.path.join(SRC, m + ".py")
    if not os.path.exists(p):
        p2 = os.path.join(SRC, m, "__init__.py")
        if os.path.exists(p2):
            return p2
    return p


def module_source(module: str) -> str:
    p = module_path(module)
    if p not in _SRC_CACHE:
        with open(p) as fh:
            _SRC_CACHE[p] = fh.read()
    return _SRC_CACHE[p]


def module_ast(module: str) -> ast.Module:
    p = module_path(module)
    if p not in _AST_CACHE:
        _AST_CACHE[p] = ast.parse(module_source(module), filename=p)
    return _AST_CACHE[p]


def find_def(module: str, qualname: str) -> ast.AST:
    """locate Class.method / function / Class by qualified name in the module's current AST."""
    node: ast.AST = module_ast(module)
    for part in qualname.split("."):
        found = None
        for child in getattr(node, "body", []):
            if isinstance(child, (ast.FunctionDef, ast.ClassDef, ast.AsyncFunctionDef)) and child.name == part:
                found = child
                break
        if found is None:
            raise LookupError(f"{module}:{qualname} not found in the working tree")
        node = found
    return node


def source_info(module: str, qualname: str) -> Dict[str, Any]:
    node = find_def(module, qualname)
    seg = ast.get_source_segment(module_source(module), node) or ""
    return {
        "function": f"{module}:{qualname}",
        "file": os.path.relpath(module_path(module), REPO),
        "lines": [node.lineno, getattr(node, "end_lineno", node.lineno)],
        "sha256": hashlib.sha256(seg.encode()).hexdigest()[:16],
    }


def strip_docstring(body: List[ast.stmt]) -> List[ast.stmt]:
    if body and isinstance(body[0], ast.Expr) and isinstance(body[0].value, ast.Constant) and isinstance(body[0].value.value, str):
        return body[1:]
    return body
