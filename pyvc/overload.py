"""Execution of *real* function bodies on symbolic values by operator overloading (concrete control flow).

The function definitions are taken from the current working tree's AST, stripped of annotations/docstrings/decorators
(nothing else), compiled and run by CPython itself in a namespace where numbers are SQ (complex rational functions over
z3 reals), numpy arrays are *pointwise* values (one generic sample point) and matrices are SymMatrix (row halves x
concrete columns).  Branching on a symbolic value is refused (Unsupported) except `x == 0` style guards, which are
decided as "generic point: non-zero" and recorded as a side assumption.
"""
from __future__ import annotations

import ast
import copy
from fractions import Fraction
from typing import Any, Dict, List, Optional

import z3

from . import core
from .cq import PI, Prover, Q


class Unsupported(Exception):
    pass


class Ctx:
    """per-lemma context: prover (hypotheses), side assumptions, recorded solver calls"""

    def __init__(self, hyps=()):
        self.P = Prover(list(hyps))
        self.side: List[str] = []
        self.records: List[Any] = []
        self.n = 0

    def fresh(self, name):
        self.n += 1
        return z3.Real(f"{name}{self.n}")


CTX: Optional[Ctx] = None


def _numeric(b) -> bool:
    return isinstance(b, (Q, int, float, complex, Fraction)) or z3.is_expr(b)


class SQ(Q):
    """Q with the full Python numeric protocol"""

    @staticmethod
    def of(x) -> "SQ":
        if isinstance(x, SQ):
            return x
        q = Q.lift(x)
        return SQ(q.re, q.im, q.den)

    def _w(self, q: Q) -> "SQ":
        if isinstance(q, SQ):
            return q
        r = SQ(q.re, q.im, q.den)
        if getattr(q, "_recip", None) is not None:
            r._recip = q._recip
        return r

    def __add__(a, b):
        if not _numeric(b):
            return NotImplemented
        return a._w(Q.__add__(a, Q.lift(b)))
    __radd__ = __add__

    def __neg__(a):
        return a._w(Q.__neg__(a))

    def __sub__(a, b):
        return a._w(Q.__sub__(a, Q.lift(b)))

    def __rsub__(a, b):
        return a._w(Q.lift(b) - a)

    def __mul__(a, b):
        if not _numeric(b):
            return NotImplemented
        return a._w(Q.__mul__(a, Q.lift(b)))
    __rmul__ = __mul__

    def __truediv__(a, b):
        return a._w(Q.__truediv__(a, Q.lift(b)))

    def __rtruediv__(a, b):
        if isinstance(b, (int, float)) and not isinstance(b, bool) and b == 1:
            return a._w(a.inv())
        return a._w(Q.lift(b) * a.inv())

    def __pow__(a, k):
        if isinstance(k, int) and not isinstance(k, bool):
            if k == -1:
                return a._w(a.inv())
            if k == 1:
                return a
            return a._w(a.ipow(k))
        if isinstance(k, float) and k == int(k):
            return a._w(a.ipow(int(k)))
        kq = Q.lift(k)
        return a._w(CTX.P.app("pow", [a, kq]))

    def __rpow__(a, base):
        return a._w(CTX.P.app("pow", [Q.lift(base), a]))

    @property
    def real(a):
        return a._w(Q.real(a))

    @property
    def imag(a):
        return a._w(Q.imag(a))

    def conjugate(a):
        return a._w(a.conj())

    def __abs__(a):
        key = (a.re.get_id(), a.im.get_id(), a.den.get_id())
        cache = CTX.__dict__.setdefault("abs_cache", {})
        if key in cache:
            return cache[key]
        r = a._abs_new()
        cache[key] = r
        return r

    def _abs_new(a):
        s = CTX.fresh("abs")
        CTX.P.hyps += [s > 0, s * s * a.den * a.den == a.re * a.re + a.im * a.im]
        return SQ(s, z3.RealVal(0))

    def astype(a, *_a, **_k):
        return a

    def __getitem__(a, key):
        if isinstance(key, tuple) and len(key) == 2 and isinstance(key[0], slice) and key[0] == slice(None) and key[1] is None:
            return _ColumnBroadcast(a)            # v[:, None]
        raise Unsupported(f"index {key!r} into a pointwise value")

    def __eq__(a, b):
        if isinstance(b, (int, float)) and b == 0:
            CTX.side.append("generic point: a value compared with 0.0 is non-zero")
            return False
        raise Unsupported("comparison of a symbolic value")

    def __ne__(a, b):
        return not a.__eq__(b)

    __hash__ = None

    def __bool__(a):
        raise Unsupported("branch on a symbolic value")

    def __lt__(a, b):
        raise Unsupported("ordering of a symbolic value")
    __le__ = __gt__ = __ge__ = __lt__

    size = 1000
    shape = (1000,)

    def __len__(a):
        return 1000


def sym(name: str) -> SQ:
    return SQ(z3.Real(name), z3.RealVal(0))


def csym(name: str) -> SQ:
    return SQ(z3.Real(name + "_re"), z3.Real(name + "_im"))


HALVES = ("lo", "hi")


class SymCol:
    """one matrix column / vector: value on the first and on the second half of the rows (each a pointwise SQ)"""

    def __init__(self, lo, hi):
        self.v = {"lo": SQ.of(lo), "hi": SQ.of(hi)}

    def __truediv__(self, x):
        return SymCol(self.v["lo"] / x, self.v["hi"] / x)

    def __mul__(self, x):
        return SymCol(self.v["lo"] * x, self.v["hi"] * x)


class SymMatrix:
    """zeros((m, n)) / zeros(m): m symbolic (sentinel int), n concrete.  Row slices are decoded to halves."""

    def __init__(self, m: int, n: Optional[int]):
        self.m, self.n = m, n
        self.cols: Dict[int, SymCol] = {j: SymCol(0, 0) for j in range(n if n is not None else 1)}

    @property
    def shape(self):
        return (self.m,) if self.n is None else (self.m, self.n)

    @property
    def size(self):
        return self.m * (self.n or 1)

    def __len__(self):
        return self.m

    def _halves(self, sl):
        if isinstance(sl, slice):
            a, b = sl.start or 0, (self.m if sl.stop is None else sl.stop)
            if sl.step not in (None, 1):
                raise Unsupported("strided slice")
            if (a, b) == (0, self.m):
                return ("lo", "hi")
            if self.m % 2 == 0 and (a, b) == (0, self.m // 2):
                return ("lo",)
            if self.m % 2 == 0 and (a, b) == (self.m // 2, self.m):
                return ("hi",)
        raise Unsupported(f"row selector {sl!r} of a matrix with {self.m} rows")

    def _col(self, j):
        n = self.n or 1
        if not isinstance(j, int) or not (-n <= j < n):
            raise IndexError(f"column {j} out of range for {n} columns")
        return j % n

    def _split(self, key):
        if self.n is None:
            return key, 0
        if isinstance(key, tuple) and len(key) == 2:
            return key
        raise Unsupported(f"matrix index {key!r}")

    def __setitem__(self, key, value):
        rows, j = self._split(key)
        if isinstance(j, slice):           # variables[-2:] = coefs  (vector of concrete length)
            raise Unsupported("column slice assignment")
        j = self._col(j)
        for h in self._halves(rows):
            if isinstance(value, SymCol):
                self.cols[j].v[h] = value.v[h]
            else:
                self.cols[j].v[h] = SQ.of(value)

    def __getitem__(self, key):
        rows, j = self._split(key)
        j = self._col(j)
        hs = self._halves(rows)
        c = self.cols[j]
        return SymCol(c.v["lo"] if "lo" in hs else 0, c.v["hi"] if "hi" in hs else 0)

    @property
    def T(self):
        return _Transposed(self)

    def _scale(self, other, invert: bool):
        """A /= v[:, None] / A *= v[:, None]: every column scaled, row by row, by a pointwise vector (or a scalar)"""
        if isinstance(other, _ColumnBroadcast):
            other = other.v
        if isinstance(other, (SymMatrix, SymCol, Vec)):
            raise Unsupported("matrix scaled by another matrix / column object")
        k = SQ.of(other)
        for c in self.cols.values():
            for h in list(c.v):
                c.v[h] = (SQ.of(c.v[h]) / k) if invert else (SQ.of(c.v[h]) * k)
        return self

    def __itruediv__(self, other):
        return self._scale(other, True)

    def __imul__(self, other):
        return self._scale(other, False)

    def dot(self, other):
        raise Unsupported("matrix product outside the modelled solver patterns")


class _ColumnBroadcast:
    """v[:, None] of a pointwise vector: one value per row, broadcast over the columns"""

    def __init__(self, v):
        self.v = v


class _Transposed:
    def __init__(self, A):
        self.A = A

    def dot(self, other):
        if isinstance(other, SymMatrix):
            return _Normal([(self.A, other)])
        # A.T.dot(b): b pointwise vector -> record the pair
        return _NormalVec([(self.A, other)])


class _Normal:
    def __init__(self, pairs):
        self.pairs = pairs

    def __add__(self, o):
        return _Normal(self.pairs + o.pairs)


class _NormalVec:
    def __init__(self, pairs):
        self.pairs = pairs

    def __add__(self, o):
        return _NormalVec(self.pairs + o.pairs)


def zeros(shape, dtype=None):
    if isinstance(shape, tuple):
        return SymMatrix(int(shape[0]), int(shape[1]))
    if int(shape) < 100:
        return Vec([0.0] * int(shape))      # a short concrete vector (solver variables), not a per-frequency array
    return SymMatrix(int(shape), None)


class Vec(list):
    """concrete-length vector of SQ (variables); supports negative indices, slices and slice assignment"""

    def __getitem__(self, k):
        r = list.__getitem__(self, k)
        return Vec(r) if isinstance(k, slice) else r

    def dot(self, other):
        raise Unsupported("Vec.dot")

    @property
    def size(self):
        return len(self)


def strip(fn: ast.FunctionDef) -> ast.FunctionDef:
    """mechanical extraction: drop annotations, decorators, docstring and function-local import statements.  Nothing else."""
    fn = copy.deepcopy(fn)
    fn.decorator_list = []
    fn.returns = None
    for a in fn.args.posonlyargs + fn.args.args + fn.args.kwonlyargs + ([fn.args.vararg] if fn.args.vararg else []) + ([fn.args.kwarg] if fn.args.kwarg else []):
        a.annotation = None
    fn.body = core.strip_docstring(fn.body) or [ast.Pass()]

    class T(ast.NodeTransformer):
        def visit_AnnAssign(self, n):
            self.generic_visit(n)
            if n.value is None:
                return ast.Pass()
            return ast.copy_location(ast.Assign(targets=[n.target], value=n.value), n)

        def visit_Import(self, n):
            return ast.Pass()       # function-local imports: the imported names resolve to the namespace stand-ins

        def visit_ImportFrom(self, n):
            return ast.Pass()

        def visit_FunctionDef(self, n):
            self.generic_visit(n)
            n.returns = None
            for a in n.args.args:
                a.annotation = None
            return n
    fn = T().visit(fn)
    ast.fix_missing_locations(fn)
    return fn


def load(module: str, names: List[str], ns: Dict[str, Any], _depth: int = 0) -> Dict[str, Any]:
    """compile the named top-level functions (or Class.method) of `module` from the working tree into namespace ns.
    Module-level helper functions of the SAME module that a loaded function calls and that the namespace does not provide are
    loaded as well (so that extracting a few lines into a helper does not take the code out of reach); module-level constants
    that are plain literals likewise."""
    import builtins as _b
    for name in names:
        fn = core.find_def(module, name)
        if not isinstance(fn, ast.FunctionDef):
            raise Unsupported(f"{module}:{name} is not a function")
        mod = ast.Module(body=[strip(fn)], type_ignores=[])
        code = compile(mod, filename=f"<{module}:{name}>", mode="exec")
        exec(code, ns)
        if "." in name:
            ns[name.replace(".", "__")] = ns[fn.name]
        if _depth >= 3:
            continue
        try:
            tree = core.module_ast(module)
        except (FileNotFoundError, OSError):
            continue
        top_fns = {n.name: n for n in tree.body if isinstance(n, ast.FunctionDef)}
        top_consts = {}
        for n in tree.body:
            if isinstance(n, (ast.Assign, ast.AnnAssign)) and getattr(n, "value", None) is not None:
                for t in (n.targets if isinstance(n, ast.Assign) else [n.target]):
                    if isinstance(t, ast.Name):
                        top_consts[t.id] = n.value
        local = {a.arg for a in fn.args.posonlyargs + fn.args.args + fn.args.kwonlyargs} | {n.id for n in ast.walk(fn) if isinstance(n, ast.Name) and isinstance(n.ctx, ast.Store)}
        for n in ast.walk(fn):
            if isinstance(n, ast.Name) and isinstance(n.ctx, ast.Load) and n.id not in ns and n.id not in local and not hasattr(_b, n.id):
                if n.id in top_fns and n.id != fn.name:
                    load(module, [n.id], ns, _depth + 1)
                elif n.id in top_consts:
                    try:
                        ns[n.id] = ast.literal_eval(top_consts[n.id])
                    except (ValueError, SyntaxError):
                        pass
    return ns


def auto_methods(module: str, classnames, ns: Dict[str, Any]):
    """base class for a stand-in of an instance of a real class: what the stand-in defines itself wins; any other attribute that is
    a method of the real class (first of `classnames` that has it, in the same module) is compiled from the working tree on first
    use and bound to the stand-in -- so a helper method that is added to the real class later is found"""
    import types
    names = [classnames] if isinstance(classnames, str) else list(classnames)

    class Auto:
        def __getattr__(self, name):
            if name.startswith("__"):
                raise AttributeError(name)
            for cn in names:
                try:
                    fn = core.find_def(module, f"{cn}.{name}")
                except LookupError:
                    continue
                if isinstance(fn, ast.FunctionDef):
                    sub = dict(ns)
                    load(module, [f"{cn}.{name}"], sub)
                    f = sub[name]
                    decos = [d.id for d in fn.decorator_list if isinstance(d, ast.Name)]
                    if "staticmethod" in decos:
                        return f
                    return types.MethodType(f, type(self) if "classmethod" in decos else self)
            raise AttributeError(name)
    return Auto


def base_namespace() -> Dict[str, Any]:
    return {
        "pi": SQ.of(PI), "inf": float("inf"), "zeros": zeros, "float": lambda x: x, "float64": lambda x: x,
        "array_sum": lambda x: x,          # pointwise: the summand stands for the sum (Sigma rule: termwise equality => equal sums)
        "sqrt": lambda x: SQ.of(CTX.P.app("pow", [Q.lift(x), Q.lift(Fraction(1, 2))])),
        "tanh": lambda x: SQ.of(CTX.P.app("tanh", [Q.lift(x)])), "cosh": lambda x: SQ.of(CTX.P.app("cosh", [Q.lift(x)])),
        "sinh": lambda x: SQ.of(CTX.P.app("sinh", [Q.lift(x)])),
        "coth": lambda x: SQ.of(CTX.P.app("tanh", [Q.lift(x)]).inv()),
        "_is_complex_array": lambda x: True, "_is_floating_array": lambda x: True, "_is_floating": lambda x: True,
        "_is_integer": lambda x: isinstance(x, int), "_is_boolean": lambda x: isinstance(x, bool),
        "KramersKronigError": type("KramersKronigError", (Exception,), {}),
    }
