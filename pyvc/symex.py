"""pyvc symbolic executor: path-wise execution of the *real* function ASTs between cut points.

Supported subset and encoding: DESIGN 2.2.  Anything outside the subset raises Unsupported, which the
driver turns into an `unsupported` obligation (=> undecided, exit 2), never into "proved".
"""
from __future__ import annotations

import ast
from typing import Any, Callable, Dict, List, Optional, Tuple

import z3

from .core import Session, find_def, module_ast, strip_docstring
from .values import (NONE, Char, ClassV, DictV, Exc, FuncV, Key, ListV, NEG_INF, NoneV, Obj, Opt, POS_INF, PyDict,
                     PyList, Ref, StrV, TupleV, fresh)


class Unsupported(Exception):
    pass


class Raised:
    """marker value: evaluation raised"""

    def __init__(self, exc: Exc):
        self.exc = exc


class State:
    def __init__(self):
        self.pc: List[z3.ExprRef] = []
        self.heap: Dict[int, Any] = {}
        self.frames: List[Dict[str, Any]] = [{}]
        self.globals: Dict[str, Any] = {}
        self.ghost: Dict[str, Any] = {}
        self.next_addr = 1
        self.trace: List[str] = []

    def clone(self) -> "State":
        t = State()
        t.pc = list(self.pc)
        t.heap = {a: (v.clone() if isinstance(v, Obj) else v) for a, v in self.heap.items()}
        t.frames = [dict(f) for f in self.frames]
        t.globals = dict(self.globals)
        t.ghost = dict(self.ghost)
        t.next_addr = self.next_addr
        t.trace = list(self.trace)
        return t

    def alloc(self, v) -> Ref:
        a = self.next_addr
        self.next_addr += 1
        self.heap[a] = v
        return Ref(a)

    @property
    def loc(self) -> Dict[str, Any]:
        return self.frames[-1]

    def deref(self, v):
        return self.heap[v.addr] if isinstance(v, Ref) else v

    def field(self, obj: Any, name: str):
        """value of obj.<name>, dereferenced"""
        o = self.deref(obj)
        return self.deref(o.fields[name])

    def set_field_value(self, obj: Any, name: str, value):
        """replace the *content* of the heap cell obj.<name> points to (or the field itself if it holds a scalar)"""
        o = self.deref(obj)
        cur = o.fields.get(name)
        if isinstance(cur, Ref):
            self.heap[cur.addr] = value
        else:
            o.fields[name] = value


class LoopSpec:
    """sidecar loop contract.  invariant(ex, st, entry, ghost) -> z3 Bool ; variant(ex, st, ghost) -> z3 Int
    modifies: list of location paths ('x' local, 'self.f' field content, '@<addr>' heap cell) that are havocked.
    """

    def __init__(self, invariant=None, variant=None, modifies=(), header: str = "", unroll: int = 0, prepare=None):
        self.invariant, self.variant, self.modifies, self.header, self.unroll = invariant, variant, list(modifies), header, unroll
        self.prepare = prepare      # optional normalisation of locals before the cut (e.g. None|Char -> Optional)


def _guarded_spec(spec: "LoopSpec", fn: str, header: str) -> "LoopSpec":
    """a sidecar loop contract applied to a loop that moved into a helper: if it names a local the helper does not have, the loop
    is out of reach (undecided) -- never a crash"""
    def guard(f):
        if f is None:
            return None

        def g(*a, **k):
            try:
                return f(*a, **k)
            except (KeyError, AttributeError, IndexError, TypeError) as ex:
                raise Unsupported(f"the sidecar invariant of `{header}` does not fit the helper {fn} it moved into ({type(ex).__name__}: {ex})")
        return g
    return LoopSpec(invariant=guard(spec.invariant), variant=guard(spec.variant), modifies=list(spec.modifies), header=spec.header, unroll=spec.unroll, prepare=guard(spec.prepare))


class Contract:
    """call-by-contract record (one object: proved for the body, assumed at call sites).

    apply(ex, st, recv, args, kwargs, line) -> list[(value|Raised, state)]  is the call-site use.
    """

    def __init__(self, name: str, apply: Callable):
        self.name, self.apply = name, apply


class Executor:
    def __init__(self, session: Session, module: str, class_name: str = "", exc_mode: str = "oblige"):
        self.s = session
        self.module = module
        self.class_name = class_name
        self.exc_mode = exc_mode
        self.loops: Dict[Tuple[str, int], LoopSpec] = {}
        self.contracts: Dict[str, Contract] = {}
        self.inline: Dict[str, Tuple[str, str]] = {}      # method name -> (module, qualname) for self.<m>() calls
        self.functions: Dict[str, Any] = {}               # name -> python callable model(ex, st, args, kwargs, node)
        self.consts: Dict[str, Any] = {}
        self.classes: Dict[str, ClassV] = {}
        self.isinstance_model: Optional[Callable] = None
        self.loop_counter: Dict[str, int] = {}
        self.fn_stack: List[str] = []
        self.max_paths = 4000
        self.paths = 0
        self.pending: List[Tuple[State, Any]] = []

    # ------------------------------------------------------------------ helpers
    def oblige(self, kind: str, st: State, goal, line: int = 0, label: str = ""):
        ob = self.s.check(kind, st.pc, goal, line=line, label=label)
        return ob

    def assume(self, st: State, cond):
        st.pc.append(cond)

    def feasible(self, st: State) -> bool:
        return self.s.feasible(st.pc)

    def truthy(self, v, st: State):
        if isinstance(v, bool):
            return z3.BoolVal(v)
        if z3.is_bool(v):
            return v
        if isinstance(v, NoneV):
            return z3.BoolVal(False)
        if isinstance(v, Ref):
            v = st.deref(v)
        if isinstance(v, ListV):
            return v.length() > 0
        if isinstance(v, PyList):
            return z3.BoolVal(len(v.items) > 0)
        if isinstance(v, TupleV):
            return z3.BoolVal(len(v.items) > 0)
        if isinstance(v, PyDict):
            return z3.BoolVal(len(v.items) > 0)
        if isinstance(v, DictV):
            k = fresh("k", v.ksort)
            return z3.Exists([k], v.has(k))
        if isinstance(v, Opt):
            return z3.Not(v.is_none)
        if isinstance(v, str):
            return z3.BoolVal(v != "")
        if isinstance(v, StrV):
            if not hasattr(v, "_truth"):
                v._truth = fresh("nonempty", z3.BoolSort())
            return v._truth
        if isinstance(v, int):
            return z3.BoolVal(v != 0)
        if z3.is_int(v):
            return v != 0
        if z3.is_real(v):
            return v != 0
        if isinstance(v, (Obj, ClassV, FuncV)):
            return z3.BoolVal(True)
        raise Unsupported(f"truthiness of {type(v).__name__}")

    def lift(self, v):
        """python scalar -> z3"""
        if isinstance(v, bool):
            return z3.BoolVal(v)
        if isinstance(v, int):
            return z3.IntVal(v)
        if isinstance(v, float):
            if v == float("inf"):
                return POS_INF
            if v == float("-inf"):
                return NEG_INF
            return z3.RealVal(repr(v))
        return v

    def num2(self, a, b):
        a, b = self.lift(a), self.lift(b)
        if z3.is_expr(a) and z3.is_expr(b):
            if z3.is_int(a) and z3.is_real(b):
                a = z3.ToReal(a)
            elif z3.is_real(a) and z3.is_int(b):
                b = z3.ToReal(b)
            elif z3.is_bool(a) and z3.is_int(b):
                a = z3.If(a, 1, 0)
            elif z3.is_int(a) and z3.is_bool(b):
                b = z3.If(b, 1, 0)
        return a, b

    # ------------------------------------------------------------------ expressions
    def ev(self, e: ast.expr, st: State) -> List[Tuple[Any, State]]:
        m = getattr(self, "ev_" + type(e).__name__, None)
        if m is None:
            raise Unsupported(f"expression {type(e).__name__} at L{getattr(e, 'lineno', 0)}")
        return m(e, st)

    def ev_list(self, es: List[ast.expr], st: State) -> List[Tuple[Any, State]]:
        """evaluate left to right; result value is a python list of values or Raised"""
        outs: List[Tuple[Any, State]] = [([], st)]
        for e in es:
            nxt = []
            for vals, s in outs:
                if isinstance(vals, Raised):
                    nxt.append((vals, s))
                    continue
                for v, s2 in self.ev(e, s):
                    nxt.append((v if isinstance(v, Raised) else vals + [v], s2))
            outs = nxt
        return outs

    def ev_Constant(self, e, st):
        v = e.value
        if v is None:
            return [(NONE, st)]
        if isinstance(v, (bool, int, float)):
            return [(self.lift(v), st)]
        if isinstance(v, str):
            return [(v, st)]
        raise Unsupported(f"constant {v!r}")

    def lookup(self, name: str, st: State):
        for fr in (st.frames[-1],):
            if name in fr:
                return fr[name]
        fr = st.frames[-1]
        clo = fr.get("__closure__")
        while clo is not None:
            if name in clo:
                return clo[name]
            clo = clo.get("__closure__")
        if name in st.globals:
            return st.globals[name]
        if name in self.consts:
            return self.consts[name]
        if name in self.classes:
            return self.classes[name]
        for n in module_ast(self.module).body:
            if isinstance(n, ast.FunctionDef) and n.name == name:
                return FuncV(n, self.module, qualname=name)
            if isinstance(n, (ast.Assign, ast.AnnAssign)):
                tgt = n.targets[0] if isinstance(n, ast.Assign) else n.target
                if isinstance(tgt, ast.Name) and tgt.id == name and n.value is not None and isinstance(n.value, ast.Constant):
                    return self.lift(n.value.value) if not isinstance(n.value.value, str) else n.value.value
                if isinstance(tgt, ast.Name) and tgt.id == name and n.value is not None and isinstance(n.value, (ast.Dict, ast.List, ast.Tuple, ast.Call, ast.BinOp, ast.Name)):
                    # a module-level container / object: evaluated ONCE, at module initialisation (objects made here are shared
                    # by every later call -- `module_init` lets contracts tell them from objects created during the call)
                    cache = st.ghost.setdefault("module_values", {})
                    if name not in cache:
                        self.module_init = True
                        try:
                            res = self.ev(n.value, st)
                        finally:
                            self.module_init = False
                        if len(res) != 1 or isinstance(res[0][0], Raised):
                            raise Unsupported(f"module-level value {name} forks or raises")
                        cache[name] = res[0][0]
                    return cache[name]
        raise Unsupported(f"unknown name {name}")

    def ev_Name(self, e, st):
        return [(self.lookup(e.id, st), st)]

    def ev_Attribute(self, e, st):
        outs = []
        for base, s in self.ev(e.value, st):
            if isinstance(base, Raised):
                outs.append((base, s))
                continue
            outs.append((self.getattr(base, e.attr, s, e), s))
        return outs

    def getattr(self, base, attr: str, st: State, node=None):
        o = st.deref(base)
        if isinstance(o, Obj):
            if attr in o.fields:
                return o.fields[attr]
            if o.klass is not None:
                k = st.deref(o.klass)
                if attr in k.fields:
                    return k.fields[attr]
            return ("boundmethod", base, attr)
        if isinstance(o, (DictV, ListV, PyList, PyDict, StrV, str, TupleV)) or isinstance(base, Ref):
            return ("boundmethod", base, attr)
        if isinstance(o, Opt):
            return ("boundmethod", base, attr)
        if isinstance(o, ClassV):
            return ("classattr", o, attr)
        raise Unsupported(f"attribute .{attr} on {type(o).__name__} L{getattr(node, 'lineno', 0)}")

    def ev_UnaryOp(self, e, st):
        outs = []
        for v, s in self.ev(e.operand, st):
            if isinstance(v, Raised):
                outs.append((v, s))
            elif isinstance(e.op, ast.Not):
                outs.append((z3.Not(self.truthy(v, s)), s))
            elif isinstance(e.op, ast.USub):
                outs.append((-self.lift(v), s))
            elif isinstance(e.op, ast.UAdd):
                outs.append((self.lift(v), s))
            else:
                raise Unsupported("unary op")
        return outs

    def ev_BoolOp(self, e, st):
        """short-circuit and/or with Python's value semantics (the deciding operand is the result); forks on truthiness"""
        first, rest = e.values[0], e.values[1:]
        outs = []
        for v, s in self.ev(first, st):
            if isinstance(v, Raised) or not rest:
                outs.append((v, s))
                continue
            b = self.truthy(v, s)
            nxt = ast.BoolOp(op=e.op, values=rest) if len(rest) > 1 else rest[0]
            ast.copy_location(nxt, e)
            short, cont = (z3.Not(b), b) if isinstance(e.op, ast.And) else (b, z3.Not(b))
            s1 = s.clone()
            s1.pc.append(short)
            if self.feasible(s1):
                outs.append((v, s1))
            s2 = s.clone()
            s2.pc.append(cont)
            if self.feasible(s2):
                outs += self.ev(nxt, s2)
        return outs

    def ev_IfExp(self, e, st):
        outs = []
        for c, s in self.ev(e.test, st):
            if isinstance(c, Raised):
                outs.append((c, s))
                continue
            b = self.truthy(c, s)
            for cond, br in ((b, e.body), (z3.Not(b), e.orelse)):
                s2 = s.clone()
                s2.pc.append(cond)
                if self.feasible(s2):
                    outs += self.ev(br, s2)
        return outs

    def ev_Compare(self, e, st):
        outs = []
        for vals, s in self.ev_list([e.left] + list(e.comparators), st):
            if isinstance(vals, Raised):
                outs.append((vals, s))
                continue
            conj = []
            for i, op in enumerate(e.ops):
                conj.append(self.compare(op, vals[i], vals[i + 1], s, e))
            outs.append((conj[0] if len(conj) == 1 else z3.And(*conj), s))
        return outs

    def compare(self, op, l, r, st: State, node):
        line = getattr(node, "lineno", 0)
        if isinstance(op, (ast.Is, ast.IsNot)):
            res = self.identical(l, r, st)
            return z3.Not(res) if isinstance(op, ast.IsNot) else res
        if isinstance(op, (ast.In, ast.NotIn)):
            res = self.contains(r, l, st, line)
            return z3.Not(res) if isinstance(op, ast.NotIn) else res
        if isinstance(op, (ast.Eq, ast.NotEq)):
            res = self.equal(l, r, st)
            return z3.Not(res) if isinstance(op, ast.NotEq) else res
        l, r = self.num2(l, r)
        if not (z3.is_expr(l) and z3.is_expr(r)):
            raise Unsupported(f"ordering comparison on {type(l).__name__},{type(r).__name__} L{line}")
        return {ast.Lt: lambda: l < r, ast.LtE: lambda: l <= r, ast.Gt: lambda: l > r, ast.GtE: lambda: l >= r}[type(op)]()

    def identical(self, l, r, st):
        if isinstance(r, NoneV) or isinstance(l, NoneV):
            x = l if isinstance(r, NoneV) else r
            if isinstance(x, NoneV):
                return z3.BoolVal(True)
            if isinstance(x, Opt):
                return x.is_none
            return z3.BoolVal(False)
        if isinstance(l, Ref) and isinstance(r, Ref):
            return z3.BoolVal(l.addr == r.addr)
        if isinstance(l, ClassV) and isinstance(r, ClassV):
            return z3.BoolVal(l.name == r.name)
        if z3.is_expr(l) and z3.is_expr(r) and l.sort() == r.sort():
            return l == r
        if isinstance(l, ("".__class__,)) and isinstance(r, str):
            return z3.BoolVal(l == r)
        raise Unsupported(f"`is` on {type(l).__name__},{type(r).__name__}")

    def equal(self, l, r, st):
        if isinstance(l, Opt) or isinstance(r, Opt):
            o, x = (l, r) if isinstance(l, Opt) else (r, l)
            if isinstance(x, NoneV):
                return o.is_none
            if isinstance(x, Opt):
                return z3.Or(z3.And(o.is_none, x.is_none), z3.And(z3.Not(o.is_none), z3.Not(x.is_none), self.equal(o.val, x.val, st)))
            return z3.And(z3.Not(o.is_none), self.equal(o.val, x, st))
        if isinstance(l, NoneV) or isinstance(r, NoneV):
            return z3.BoolVal(isinstance(l, NoneV) and isinstance(r, NoneV))
        if isinstance(l, Char) or isinstance(r, Char):
            lc = l.code if isinstance(l, Char) else (z3.IntVal(ord(l)) if isinstance(l, str) and len(l) == 1 else None)
            rc = r.code if isinstance(r, Char) else (z3.IntVal(ord(r)) if isinstance(r, str) and len(r) == 1 else None)
            if lc is None or rc is None:
                return z3.BoolVal(False)
            return lc == rc
        if isinstance(l, str) and isinstance(r, str):
            return z3.BoolVal(l == r)
        if isinstance(l, StrV) and l.term is not None and isinstance(r, str):
            return l.term == z3.StringVal(r)
        if isinstance(r, StrV) and r.term is not None and isinstance(l, str):
            return r.term == z3.StringVal(l)
        if isinstance(l, StrV) and isinstance(r, StrV) and l.term is not None and r.term is not None:
            return l.term == r.term
        if (isinstance(l, StrV) and isinstance(r, (StrV, str))) or (isinstance(r, StrV) and isinstance(l, (StrV, str))):
            return fresh("str.eq", z3.BoolSort())                 # opaque contents: equality is total, its value unknown
        l2, r2 = self.num2(l, r)
        if z3.is_expr(l2) and z3.is_expr(r2):
            if l2.sort() != r2.sort():
                return z3.BoolVal(False)
            return l2 == r2
        if isinstance(l, Ref) and isinstance(r, Ref):
            lv, rv = st.deref(l), st.deref(r)
            if isinstance(lv, Obj) and isinstance(rv, Obj):
                return z3.BoolVal(l.addr == r.addr)
            if isinstance(lv, DictV) and isinstance(rv, DictV):
                return lv.same_as(rv)
        if isinstance(l, ClassV) and isinstance(r, ClassV):
            return z3.BoolVal(l.name == r.name)
        raise Unsupported(f"== on {type(l).__name__},{type(r).__name__}")

    def contains(self, container, item, st: State, line: int):
        c = st.deref(container)
        if isinstance(c, DictV):
            return c.has(self.lift(item))
        if isinstance(c, PyDict):
            if isinstance(item, Opt):
                return z3.And(z3.Not(item.is_none), self.contains(container, item.val, st, line))
            if isinstance(item, Char):
                return z3.Or(*[item.code == ord(k) for k in c.items if isinstance(k, str) and len(k) == 1]) if c.items else z3.BoolVal(False)
            if z3.is_expr(item):
                ks = [k for k in c.items if isinstance(k, int)]
                return z3.Or(*[item == k for k in ks]) if ks else z3.BoolVal(False)
            return z3.BoolVal(item in c.items)
        if isinstance(c, str):
            if isinstance(item, Opt):
                # `None in "abc"` raises TypeError
                self.oblige("exc-free", st, z3.Not(item.is_none), line, "TypeError:None-in-str")
                st.pc.append(z3.Not(item.is_none))
                item = item.val
            if isinstance(item, NoneV):
                self.oblige("exc-free", st, z3.BoolVal(False), line, "TypeError:None-in-str")
                return z3.BoolVal(False)
            if isinstance(item, Char):
                return z3.Or(*[item.code == ord(ch) for ch in c]) if c else z3.BoolVal(False)
            if isinstance(item, str):
                return z3.BoolVal(item in c)
        if isinstance(c, (PyList, TupleV)):
            if not c.items:
                return z3.BoolVal(False)
            return z3.Or(*[self.equal(item, x, st) for x in c.items])
        if isinstance(c, ListV):
            i = fresh("i", z3.IntSort())
            it = item.code if isinstance(item, Char) else self.lift(item)
            return z3.Exists([i], z3.And(c.lo <= i, i < c.hi, z3.Select(c.arr, i) == it))
        raise Unsupported(f"`in` on {type(c).__name__} L{line}")

    def ev_BinOp(self, e, st):
        outs = []
        for vals, s in self.ev_list([e.left, e.right], st):
            if isinstance(vals, Raised):
                outs.append((vals, s))
                continue
            outs.append((self.binop(e.op, vals[0], vals[1], s, e), s))
        return outs

    def binop(self, op, l, r, st, node):
        line = getattr(node, "lineno", 0)
        if isinstance(op, ast.Add) and (isinstance(l, (str, StrV, Char)) or isinstance(r, (str, StrV, Char))):
            if isinstance(l, str) and isinstance(r, str):
                return l + r
            return StrV(note="concat")
        if isinstance(op, ast.Mod) and isinstance(l, (str, StrV)):
            return StrV(note="format")
        lv, rv = st.deref(l), st.deref(r)
        if isinstance(op, ast.Add) and isinstance(lv, PyList) and isinstance(rv, PyList):
            return st.alloc(PyList(lv.items + rv.items))
        l, r = self.num2(l, r)
        if not (z3.is_expr(l) and z3.is_expr(r)):
            raise Unsupported(f"binop {type(op).__name__} on {type(l).__name__},{type(r).__name__} L{line}")
        if isinstance(op, ast.Add):
            return l + r
        if isinstance(op, ast.Sub):
            return l - r
        if isinstance(op, ast.Mult):
            return l * r
        if isinstance(op, ast.Div):
            self.oblige("exc-free", st, r != 0, line, "ZeroDivisionError")
            st.pc.append(r != 0)
            l = z3.ToReal(l) if z3.is_int(l) else l
            r = z3.ToReal(r) if z3.is_int(r) else r
            return l / r
        if isinstance(op, ast.FloorDiv) and z3.is_int(l) and z3.is_int(r):
            self.oblige("exc-free", st, r != 0, line, "ZeroDivisionError")
            st.pc.append(r != 0)
            return l / r if self._pos(r, st) else self._floordiv(l, r)
        if isinstance(op, ast.Mod) and z3.is_int(l) and z3.is_int(r):
            self.oblige("exc-free", st, r != 0, line, "ZeroDivisionError")
            st.pc.append(r != 0)
            if self._pos(r, st):
                return l % r
            raise Unsupported("% with possibly negative divisor")
        raise Unsupported(f"binop {type(op).__name__} L{line}")

    def _pos(self, r, st):
        s = z3.Solver()
        s.add(*st.pc)
        s.add(z3.Not(r > 0))
        return s.check() == z3.unsat

    def _floordiv(self, l, r):
        raise Unsupported("// with possibly negative divisor")

    strict_fstrings = False

    def ev_JoinedStr(self, e, st):
        """f-string: contents opaque.  With strict_fstrings the embedded expressions are evaluated (their exceptions and
        obligations count) and a numeric format spec (`:.3E`, `:.2g`, `:d`, ...) applied to a non-number raises."""
        if not self.strict_fstrings:
            return [(StrV(note="fstring"), st)]
        outs = [(None, st)]
        for part in e.values:
            if not isinstance(part, ast.FormattedValue):
                continue
            nxt = []
            for _, s in outs:
                if isinstance(_, Raised):
                    nxt.append((_, s))
                    continue
                for v, s2 in self.ev(part.value, s):
                    if isinstance(v, Raised):
                        nxt.append((v, s2))
                        continue
                    spec = "".join(c.value for c in part.format_spec.values if isinstance(c, ast.Constant)) if part.format_spec is not None else ""
                    if spec and spec[-1] in "eEfFgGdn%xXob" and part.conversion == -1:
                        dv = s2.deref(v)
                        if not (z3.is_expr(dv) and (z3.is_int(dv) or z3.is_real(dv))) and not isinstance(dv, (int, float)):
                            nxt.append((Raised(Exc("TypeError|ValueError", getattr(part, "lineno", 0))), s2))
                            continue
                    nxt.append((None, s2))
            outs = nxt
        return [((v if isinstance(v, Raised) else StrV(note="fstring")), s) for v, s in outs]

    def ev_Tuple(self, e, st):
        return [((v if isinstance(v, Raised) else TupleV(v)), s) for v, s in self.ev_list(e.elts, st)]

    def ev_List(self, e, st):
        outs = []
        for v, s in self.ev_list(e.elts, st):
            outs.append((v, s) if isinstance(v, Raised) else (s.alloc(PyList(v)), s))
        return outs

    def ev_Dict(self, e, st):
        outs = []
        if any(k is None for k in e.keys):
            raise Unsupported("dict unpacking literal")
        for vals, s in self.ev_list(list(e.keys) + list(e.values), st):
            if isinstance(vals, Raised):
                outs.append((vals, s))
                continue
            n = len(e.keys)
            ks, vs = vals[:n], vals[n:]
            ks = [k.as_long() if z3.is_int_value(k) else k for k in ks]
            if not all(isinstance(k, (str, int)) for k in ks):
                raise Unsupported("dict literal with symbolic keys")
            outs.append((s.alloc(PyDict(dict(zip(ks, vs)))), s))
        return outs

    def ev_Subscript(self, e, st):
        outs = []
        if isinstance(e.slice, ast.Slice):
            return self.ev_slice(e, st)
        for vals, s in self.ev_list([e.value, e.slice], st):
            if isinstance(vals, Raised):
                outs.append((vals, s))
                continue
            outs.append(self.subscript(vals[0], vals[1], s, e))
        return outs

    def ev_slice(self, e, st):
        outs = []
        parts = [e.value] + [p for p in (e.slice.lower, e.slice.upper) if p is not None]
        if e.slice.step is not None:
            raise Unsupported("slice step")
        for vals, s in self.ev_list(parts, st):
            if isinstance(vals, Raised):
                outs.append((vals, s))
                continue
            base = s.deref(vals[0])
            it = iter(vals[1:])
            lo = self.lift(next(it)) if e.slice.lower is not None else None
            hi = self.lift(next(it)) if e.slice.upper is not None else None
            if isinstance(base, (StrV, str)):
                outs.append((StrV(note="slice"), s))
            elif isinstance(base, ListV):
                def clamp(i, dflt):
                    if i is None:
                        return dflt
                    n = base.length()
                    i = z3.If(i < 0, z3.If(i + n < 0, 0, i + n), z3.If(i > n, n, i))
                    return base.lo + i
                nlo, nhi = clamp(lo, base.lo), clamp(hi, base.hi)
                nhi = z3.If(nhi < nlo, nlo, nhi)
                outs.append((s.alloc(ListV(base.arr, nlo, nhi, base.wrap)), s))
            else:
                raise Unsupported(f"slice of {type(base).__name__}")
        return outs

    def subscript(self, base, idx, st: State, node):
        line = getattr(node, "lineno", 0)
        c = st.deref(base)
        if isinstance(c, DictV):
            k = self.lift(idx)
            if self.exc_mode == "oblige":
                self.oblige("exc-free", st, c.has(k), line, "KeyError")
                st.pc.append(c.has(k))
            return (self._wrapv(c, c.get(k)), st)
        if isinstance(c, PyDict):
            if isinstance(idx, (str, int)):
                if idx not in c.items:
                    self.oblige("exc-free", st, z3.BoolVal(False), line, "KeyError")
                    return (Raised(Exc("KeyError", line)), st)
                return (c.items[idx], st)
            raise Unsupported("symbolic key into concrete dict")
        if isinstance(c, ListV):
            i = self.lift(idx)
            pos = z3.If(i < 0, c.hi + i, c.lo + i)
            self.oblige("exc-free", st, z3.And(pos >= c.lo, pos < c.hi), line, "IndexError")
            st.pc.append(z3.And(pos >= c.lo, pos < c.hi))
            return (c.at(z3.simplify(pos)), st)
        if isinstance(c, (PyList, TupleV)):
            i = self.lift(idx)
            if z3.is_int_value(i):
                j = i.as_long()
                n = len(c.items)
                if not (-n <= j < n):
                    self.oblige("exc-free", st, z3.BoolVal(False), line, "IndexError")
                    return (Raised(Exc("IndexError", line)), st)
                return (c.items[j], st)
            raise Unsupported("symbolic index into concrete list")
        raise Unsupported(f"subscript on {type(c).__name__} L{line}")

    def _wrapv(self, d: DictV, v):
        return d.vwrap(v) if d.vwrap else v

    # comprehension support (maps / filters over symbolic dicts and ranges)
    def ev_DictComp(self, e, st):
        if len(e.generators) != 1:
            raise Unsupported("nested comprehension")
        g = e.generators[0]
        outs = []
        for src, s in self.ev(g.iter, st):
            if isinstance(src, Raised):
                outs.append((src, s))
                continue
            outs.append((self._dictcomp(e, g, src, s), s))
        return outs

    def _filter_cond(self, c, sub):
        """truth value of a comprehension filter.  `if v` on a value that stands for an object (an uninterpreted id) is the object's
        Python truth value -- unknown here (an empty connection is falsy), so an uninterpreted predicate: nothing may depend on it"""
        v = self._pure(c, sub)
        if isinstance(v, bool):
            return z3.BoolVal(v)
        if z3.is_expr(v) and z3.is_bool(v):
            return v
        if z3.is_expr(v) and not (z3.is_int(v) or z3.is_real(v)) or (z3.is_expr(v) and isinstance(c, ast.Name)):
            return z3.Function(f"python_truth_{v.sort()}", v.sort(), z3.BoolSort())(v)
        return self.truthy(v, sub)

    def _dictcomp(self, e, g, src, st: State):
        # {k: f(k,v) for k, v in d.items() if c(k,v)}  and  {i: f(i) for i in range(a,b)}
        if isinstance(src, tuple) and src[0] == "items":
            d: DictV = st.deref(src[1])
            if not isinstance(d, DictV):
                raise Unsupported("dict comprehension over concrete dict")
            if not (isinstance(g.target, ast.Tuple) and len(g.target.elts) == 2):
                raise Unsupported("dictcomp target")
            kname, vname = g.target.elts[0].id, g.target.elts[1].id
            k = fresh("ck", d.ksort)
            sub = st.clone()
            sub.frames.append({"__closure__": st.loc, kname: k, vname: self._wrapv(d, d.get(k))})
            cond = z3.BoolVal(True)
            for c in g.ifs:
                cond = z3.And(cond, self._filter_cond(c, sub))
            val = self.lift(self._pure(e.value, sub))
            if not (isinstance(e.key, ast.Name) and e.key.id == kname):
                # re-keyed entries: supported when the new key is an invertible affine function of an Int key (c - k, k + c, int(k))
                if d.ksort != z3.IntSort():
                    raise Unsupported("dictcomp with re-keyed entries")
                newkey = self.lift(self._pure(e.key, sub))
                j = fresh("cj", z3.IntSort())
                diff = z3.simplify(newkey + k)
                summ = z3.simplify(newkey - k)
                if not _mentions(summ, k):          # newkey = k + c  -> k = j - c
                    inv = j - summ
                elif not _mentions(diff, k):        # newkey = c - k  -> k = c - j
                    inv = diff - j
                else:
                    raise Unsupported("dictcomp with non-affine re-keying")
                dom = z3.Lambda([j], z3.substitute(z3.And(d.has(k), cond), (k, inv)))
                varr = z3.Lambda([j], z3.substitute(val, (k, inv)))
                return st.alloc(DictV(dom, varr, d.ksort, val.sort()))
            dom = z3.Lambda([k], z3.And(d.has(k), cond))
            varr = z3.Lambda([k], val)
            return st.alloc(DictV(dom, varr, d.ksort, val.sort()))
        if isinstance(src, Ref) and isinstance(st.deref(src), DictV) and isinstance(g.target, ast.Name):
            # {k: f(k) for k in d}
            d = st.deref(src)
            kname = g.target.id
            k = fresh("ck", d.ksort)
            sub = st.clone()
            sub.frames.append({"__closure__": st.loc, kname: k})
            cond = z3.BoolVal(True)
            for c in g.ifs:
                cond = z3.And(cond, self._filter_cond(c, sub))
            if not (isinstance(e.key, ast.Name) and e.key.id == kname):
                raise Unsupported("dictcomp with re-keyed entries")
            val = self.lift(self._pure(e.value, sub))
            return st.alloc(DictV(z3.Lambda([k], z3.And(d.has(k), cond)), z3.Lambda([k], val), d.ksort, val.sort()))
        kp = self._as_keypred(src, st)
        if kp is not None and isinstance(g.target, ast.Name):
            # {k: f(k) for k in <list of keys taken from a dict, possibly filtered>}
            ksort, lam = kp
            kname = g.target.id
            k = fresh("ck", ksort)
            sub = st.clone()
            sub.frames.append({"__closure__": st.loc, kname: k})
            sub.pc.append(z3.Select(lam, k))
            cond = z3.BoolVal(True)
            for c in g.ifs:
                cond = z3.And(cond, self.truthy(self._pure(c, sub), sub))
            if not (isinstance(e.key, ast.Name) and e.key.id == kname):
                raise Unsupported("dictcomp with re-keyed entries")
            val = self.lift(self._pure(e.value, sub))
            return st.alloc(DictV(z3.Lambda([k], z3.And(z3.Select(lam, k), cond)), z3.Lambda([k], val), ksort, val.sort()))
        if isinstance(src, tuple) and src[0] == "range":
            lo, hi = src[1], src[2]
            iname = g.target.id
            i = fresh("ci", z3.IntSort())
            sub = st.clone()
            sub.frames.append({"__closure__": st.loc, iname: i})
            cond = z3.And(lo <= i, i < hi)
            for c in g.ifs:
                cond = z3.And(cond, self._filter_cond(c, sub))
            if not (isinstance(e.key, ast.Name) and e.key.id == iname):
                raise Unsupported("dictcomp with re-keyed entries")
            val = self.lift(self._pure(e.value, sub))
            return st.alloc(DictV(z3.Lambda([i], cond), z3.Lambda([i], val), z3.IntSort(), val.sort()))
        raise Unsupported("dict comprehension source")

    def _as_keypred(self, src, st: State):
        """(key sort, characteristic predicate as a z3 array) of a list of keys taken from a dict: list(d.keys()), d.keys(),
        sorted(...) of one, or a comprehension that filters one.  Order is not modelled."""
        if isinstance(src, tuple) and src and src[0] == "keypred":
            return src[1], src[2]
        if isinstance(src, tuple) and src and src[0] in ("keys_snapshot", "keys"):
            d = src[1] if src[0] == "keys_snapshot" else st.deref(src[1])
            if isinstance(d, DictV):
                k = fresh("kp", d.ksort)
                return d.ksort, z3.Lambda([k], d.has(k))
        return None

    def ev_ListComp(self, e, st):
        """[k for k in <keys of a dict> if c(k)]: the filtered key list (membership only)"""
        if len(e.generators) != 1:
            raise Unsupported("nested list comprehension")
        g = e.generators[0]
        outs = []
        for src, s in self.ev(g.iter, st):
            if isinstance(src, Raised):
                outs.append((src, s))
                continue
            kp = self._as_keypred(src, s)
            if kp is None or not (isinstance(g.target, ast.Name) and isinstance(e.elt, ast.Name) and e.elt.id == g.target.id):
                raise Unsupported(f"list comprehension `{ast.unparse(e)[:60]}`")
            ksort, lam = kp
            k = fresh("lk", ksort)
            sub = s.clone()
            sub.frames.append({"__closure__": s.loc, g.target.id: k})
            sub.pc.append(z3.Select(lam, k))
            cond = z3.BoolVal(True)
            for c in g.ifs:
                cond = z3.And(cond, self.truthy(self._pure(c, sub), sub))
            outs.append((("keypred", ksort, z3.Lambda([k], z3.And(z3.Select(lam, k), cond))), s))
        return outs

    def _pure(self, e, st: State):
        """evaluate an expression that must not fork or raise"""
        if isinstance(e, ast.IfExp):
            # a conditional expression inside a comprehension: If(test, body, orelse) instead of forking
            c = self.truthy(self._pure(e.test, st), st)
            a, b = self._pure(e.body, st), self._pure(e.orelse, st)
            none_as = getattr(self, "none_as", None)
            a = none_as if isinstance(a, NoneV) and none_as is not None else self.lift(a)
            b = none_as if isinstance(b, NoneV) and none_as is not None else self.lift(b)
            if z3.is_expr(a) and z3.is_expr(b) and a.sort() == b.sort():
                return z3.If(c, a, b)
            raise Unsupported("conditional expression with mixed branch types inside a comprehension")
        n0 = len(self.s.obligations)
        res = self.ev(e, st)
        if len(res) != 1 or isinstance(res[0][0], Raised):
            raise Unsupported("forking/raising expression inside a comprehension")
        return res[0][0]

    def ev_Lambda(self, e, st):
        return [(FuncV(e, self.module, closure=st.loc), st)]

    def ev_Starred(self, e, st):
        raise Unsupported("starred expression")

    # ------------------------------------------------------------------ calls
    def ev_Call(self, e: ast.Call, st: State):
        # dict.fromkeys(<iterable>, <immutable constant>) is the comprehension {k: <constant> for k in <iterable>}
        if (isinstance(e.func, ast.Attribute) and e.func.attr == "fromkeys" and isinstance(e.func.value, ast.Name) and e.func.value.id == "dict"
                and len(e.args) == 2 and not e.keywords and isinstance(e.args[1], ast.Constant) and not isinstance(e.args[1].value, (bytes,))):
            k = ast.Name(id="__fromkeys_k", ctx=ast.Load())
            comp = ast.DictComp(key=k, value=e.args[1], generators=[ast.comprehension(target=ast.Name(id="__fromkeys_k", ctx=ast.Store()), iter=e.args[0], ifs=[], is_async=0)])
            ast.copy_location(comp, e)
            ast.fix_missing_locations(comp)
            return self.ev_DictComp(comp, st)
        # evaluate callee (without forcing a value for bound methods), args, kwargs
        outs = []
        pos_nodes = [a for a in e.args if not isinstance(a, ast.Starred)]
        star_nodes = [a.value for a in e.args if isinstance(a, ast.Starred)]
        kw_nodes = [k.value for k in e.keywords]
        for fvals, s in self.ev(e.func, st):
            if isinstance(fvals, Raised):
                outs.append((fvals, s))
                continue
            for vals, s2 in self.ev_list(pos_nodes + star_nodes + kw_nodes, s):
                if isinstance(vals, Raised):
                    outs.append((vals, s2))
                    continue
                args = vals[:len(pos_nodes)]
                stars = vals[len(pos_nodes):len(pos_nodes) + len(star_nodes)]
                kvals = vals[len(pos_nodes) + len(star_nodes):]
                kwargs: Dict[str, Any] = {}
                starkw = None
                for k, v in zip(e.keywords, kvals):
                    if k.arg is None:
                        # f(**a, **b): the maps are kept as a tuple for contracts that know how to merge them
                        starkw = v if starkw is None else (("multi", *starkw[1:], v) if isinstance(starkw, tuple) and starkw and starkw[0] == "multi" else ("multi", starkw, v))
                    else:
                        kwargs[k.arg] = v
                for sv in stars:
                    svv = s2.deref(sv)
                    if isinstance(svv, (PyList, TupleV)):
                        args = args + list(svv.items)
                    else:
                        raise Unsupported("*args of symbolic length at call site")
                outs += self.call(fvals, args, kwargs, starkw, s2, e)
        return outs

    def call(self, f, args, kwargs, starkw, st: State, node) -> List[Tuple[Any, State]]:
        line = getattr(node, "lineno", 0)
        if isinstance(f, tuple) and f[0] == "boundmethod":
            return self.call_method(f[1], f[2], args, kwargs, starkw, st, node)
        if isinstance(f, tuple) and f[0] == "builtin":
            return f[1](self, st, args, kwargs if starkw is None else {**kwargs, "**": starkw}, node)
        if isinstance(f, tuple) and f[0] == "classattr":
            # Class.method(...)  (classmethod / staticmethod call through the class)
            return self.call_method(f[1], f[2], args, kwargs, starkw, st, node)
        if isinstance(f, FuncV):
            return self.call_funcv(f, args, kwargs, starkw, st, node)
        if isinstance(f, Ref) and isinstance(st.deref(f), Obj) and st.deref(f).cls.startswith("class:"):
            f = ClassV(st.deref(f).cls[6:])
        if isinstance(f, ClassV):
            key = f"new:{f.name}"
            if key in self.contracts:
                return self.contracts[key].apply(self, st, f, args, kwargs if starkw is None else {**kwargs, "**": starkw}, line)
            if f.name in BUILTIN_EXC:
                return [(("excobj", f.name), st)]
            raise Unsupported(f"constructor {f.name} without contract L{line}")
        if callable(f):
            return f(self, st, args, kwargs, node)
        raise Unsupported(f"call of {type(f).__name__} L{line}")

    def call_method(self, recv, name: str, args, kwargs, starkw, st: State, node):
        line = getattr(node, "lineno", 0)
        o = st.deref(recv)
        if isinstance(o, (Obj, ClassV)):
            cls = o.cls if isinstance(o, Obj) else o.name
            key = f"{cls}.{name}"
            for k in (key, name):
                if k in self.contracts:
                    kw = kwargs if starkw is None else {**kwargs, "**": starkw}
                    return self.contracts[k].apply(self, st, recv, args, kw, line)
            if name in self.inline:
                mod, qn = self.inline[name]
                fn = find_def(mod, qn)
                decos = [d.id for d in fn.decorator_list if isinstance(d, ast.Name)]
                bs = recv
                if "classmethod" in decos and isinstance(o, Obj) and o.klass is not None:
                    bs = o.klass
                elif "staticmethod" in decos:
                    bs = None
                fv = FuncV(fn, mod, qualname=qn, bound_self=bs)
                return self.call_funcv(fv, args, kwargs, starkw, st, node)
            # a method of the same class that the sidecar does not know (a helper that was extracted later): inline its real body,
            # bounded in depth, so that moving a few lines into a helper does not take the function out of reach
            if getattr(self, "_auto_depth", 0) < 3 and self.class_name:
                try:
                    fn = find_def(self.module, f"{self.class_name}.{name}")
                except LookupError:
                    fn = None
                if isinstance(fn, ast.FunctionDef):      # (a loop inside needs a sidecar invariant: see loop_spec)
                    decos = [d.id for d in fn.decorator_list if isinstance(d, ast.Name)]
                    bs = None if "staticmethod" in decos else (o.klass if ("classmethod" in decos and isinstance(o, Obj) and o.klass is not None) else recv)
                    self._auto_depth = getattr(self, "_auto_depth", 0) + 1
                    try:
                        return self.call_funcv(FuncV(fn, self.module, qualname=f"{self.class_name}.{name}", bound_self=bs), args, kwargs, starkw, st, node)
                    finally:
                        self._auto_depth -= 1
            raise Unsupported(f"method {key} neither contract nor inline L{line}")
        return self.call_value_method(recv, o, name, args, kwargs, st, node)

    def call_value_method(self, recv, o, name, args, kwargs, st: State, node):
        line = getattr(node, "lineno", 0)

        def setv(v):
            if isinstance(recv, Ref):
                st.heap[recv.addr] = v
            else:
                raise Unsupported("mutation of a non-heap value")
        if isinstance(o, DictV):
            if name == "copy":
                return [(st.alloc(DictV(o.dom, o.val, o.ksort, o.vsort, o.vwrap)), st)]
            if name == "get":
                k = self.lift(args[0])
                dflt = self.lift(args[1]) if len(args) > 1 else None
                if dflt is None:
                    return [(Opt(z3.Not(o.has(k)), self._wrapv(o, o.get(k))), st)]
                if isinstance(dflt, NoneV):
                    return [(Opt(z3.Not(o.has(k)), self._wrapv(o, o.get(k))), st)]
                return [(z3.If(o.has(k), o.get(k), dflt), st)]
            if name in ("items", "keys", "values"):
                return [((name, recv), st)]
            if name == "update":
                other = st.deref(args[0])
                if isinstance(other, DictV):
                    k = fresh("uk", o.ksort)
                    setv(DictV(z3.Lambda([k], z3.Or(o.has(k), other.has(k))),
                               z3.Lambda([k], z3.If(other.has(k), other.get(k), o.get(k))), o.ksort, o.vsort, o.vwrap))
                    return [(NONE, st)]
            if name == "pop":
                k = self.lift(args[0])
                if len(args) > 1 and isinstance(args[1], NoneV):
                    v = Opt(z3.Not(o.has(k)), self._wrapv(o, o.get(k)))
                elif len(args) > 1:
                    v = z3.If(o.has(k), o.get(k), self.lift(args[1]))
                else:
                    self.oblige("exc-free", st, o.has(k), line, "KeyError")
                    st.pc.append(o.has(k))
                    v = o.get(k)
                setv(o.delete(k))
                return [(v, st)]
            if name == "clear":
                setv(DictV.empty(o.ksort, o.vsort))
                return [(NONE, st)]
        if isinstance(o, PyDict):
            if name == "copy":
                return [(st.alloc(PyDict(o.items)), st)]
            if name in ("items", "keys", "values"):
                return [((name, recv), st)]
            if name == "get":
                if isinstance(args[0], (str, int)):
                    return [(o.items.get(args[0], args[1] if len(args) > 1 else NONE), st)]
            if name == "setdefault" and args and isinstance(args[0], (str, int)):
                d = dict(o.items)
                if args[0] not in d:
                    d[args[0]] = args[1] if len(args) > 1 else NONE
                    setv(PyDict(d))
                return [(d[args[0]], st)]
            if name == "pop" and isinstance(args[0], (str, int)):
                d = dict(o.items)
                if args[0] in d:
                    v = d.pop(args[0])
                elif len(args) > 1:
                    v = args[1]
                else:
                    self.oblige("exc-free", st, z3.BoolVal(False), line, "KeyError:pop")
                    return [(Raised(Exc("KeyError", line)), st)]
                setv(PyDict(d))
                return [(v, st)]
        if isinstance(o, ListV):
            if name == "pop":
                if args and not (z3.is_int_value(self.lift(args[0])) and self.lift(args[0]).as_long() in (0, -1)):
                    raise Unsupported("list.pop(i) for i not in {0,-1}")
                self.oblige("exc-free", st, o.length() > 0, line, "IndexError:pop")
                st.pc.append(o.length() > 0)
                if args and self.lift(args[0]).as_long() == 0:
                    v = o.at(o.lo)
                    setv(ListV(o.arr, o.lo + 1, o.hi, o.wrap))
                else:
                    v = o.at(o.hi - 1)
                    setv(ListV(o.arr, o.lo, o.hi - 1, o.wrap))
                return [(v, st)]
            if name == "append":
                x = args[0].code if isinstance(args[0], Char) else (z3.IntVal(args[0].addr) if isinstance(args[0], Ref) else self.lift(args[0]))
                setv(ListV(z3.Store(o.arr, o.hi, x), o.lo, o.hi + 1, o.wrap))
                return [(NONE, st)]
            if name == "insert" and z3.is_int_value(self.lift(args[0])) and self.lift(args[0]).as_long() == 0:
                x = args[1].code if isinstance(args[1], Char) else self.lift(args[1])
                setv(ListV(z3.Store(o.arr, o.lo - 1, x), o.lo - 1, o.hi, o.wrap))
                return [(NONE, st)]
            if name == "copy":
                return [(st.alloc(ListV(o.arr, o.lo, o.hi, o.wrap)), st)]
        if isinstance(o, PyList):
            if name == "append":
                setv(PyList(o.items + [args[0]]))
                return [(NONE, st)]
            if name == "pop":
                if not o.items:
                    self.oblige("exc-free", st, z3.BoolVal(False), line, "IndexError:pop")
                    return [(Raised(Exc("IndexError", line)), st)]
                i = self.lift(args[0]).as_long() if args else -1
                items = list(o.items)
                v = items.pop(i)
                setv(PyList(items))
                return [(v, st)]
            if name == "insert":
                i = self.lift(args[0]).as_long()
                items = list(o.items)
                items.insert(i, args[1])
                setv(PyList(items))
                return [(NONE, st)]
            if name == "extend":
                other = st.deref(args[0])
                if isinstance(other, PyList):
                    setv(PyList(o.items + other.items))
                    return [(NONE, st)]
            if name == "reverse":
                setv(PyList(list(reversed(o.items))))
                return [(NONE, st)]
            if name == "copy":
                return [(st.alloc(PyList(o.items)), st)]
        if isinstance(o, (str, StrV)):
            if name in ("strip", "lower", "upper", "rjust", "ljust", "rstrip", "lstrip", "replace", "format", "join"):
                if isinstance(o, str) and name in ("strip", "lower", "upper") and not args:
                    return [(getattr(o, name)(), st)]
                return [(StrV(note=name), st)]
            # total string primitives on opaque strings: never raise for str arguments; results are unconstrained but well-typed
            if name in ("startswith", "endswith", "isdigit", "isalpha", "isalnum", "isspace", "isnumeric", "isdecimal", "isidentifier", "islower", "isupper"):
                return [(fresh(f"str.{name}", z3.BoolSort()), st)]
            if name in ("find", "rfind", "count"):
                r = fresh(f"str.{name}", z3.IntSort())
                st.pc.append(r >= (-1 if name != "count" else 0))
                return [(r, st)]
            if name in ("split", "rsplit", "splitlines"):
                # a list of strings: at least one part when a separator is given, at most maxsplit + 1 parts
                L = ListV(fresh("str.parts", z3.ArraySort(z3.IntSort(), z3.IntSort())), z3.IntVal(0), fresh("str.nparts", z3.IntSort()), wrap=lambda v: StrV(note="part"))
                has_sep = name != "splitlines" and (len(args) >= 1 or "sep" in kwargs) and not (len(args) >= 1 and args[0] is NONE)
                st.pc.append(L.hi >= (1 if has_sep else 0))
                mx = args[1] if len(args) >= 2 else kwargs.get("maxsplit")
                if mx is not None and (z3.is_expr(mx) or isinstance(mx, int)):
                    mxv = self.lift(mx)
                    st.pc.append(z3.Implies(mxv >= 0, L.hi <= mxv + 1))
                return [(st.alloc(L), st)]
            if name in ("partition", "rpartition") and len(args) == 1:
                return [(TupleV([StrV(note="head"), StrV(note="sep"), StrV(note="tail")]), st)]
        raise Unsupported(f"method {name} on {type(o).__name__} L{line}")

    def call_funcv(self, f: FuncV, args, kwargs, starkw, st: State, node):
        """inline a function / method / lambda: new frame, run body, collect outcomes"""
        fn = f.node
        a = fn.args
        params = [p.arg for p in a.posonlyargs + a.args]
        loc: Dict[str, Any] = {}
        if f.closure is not None:
            loc["__closure__"] = f.closure
        argv = list(args)
        if f.bound_self is not None and params and params[0] in ("self", "cls"):
            argv = [f.bound_self] + argv
        defaults = a.defaults
        nd = len(defaults)
        if len(argv) > len(params) and a.vararg is None:
            raise Unsupported(f"too many positional args for {getattr(fn, 'name', 'lambda')}")
        kw = dict(kwargs)
        if starkw is not None and isinstance(st.deref(starkw), PyDict):
            kw = {**st.deref(starkw).items, **kw}
            starkw = None
        for i, p in enumerate(params):
            if i < len(argv):
                loc[p] = argv[i]
            elif p in kw:
                loc[p] = kw.pop(p)
            else:
                j = i - (len(params) - nd)
                if j < 0:
                    raise Unsupported(f"missing argument {p}")
                dv = self.ev(defaults[j], st)
                loc[p] = dv[0][0]
        if a.vararg is not None:
            loc[a.vararg.arg] = st.alloc(TupleV(argv[len(params):]))
        for p, d in zip(a.kwonlyargs, a.kw_defaults):
            if p.arg in kw:
                loc[p.arg] = kw.pop(p.arg)
            elif d is not None:
                loc[p.arg] = self.ev(d, st)[0][0]
            else:
                raise Unsupported(f"missing kw-only {p.arg}")
        if a.kwarg is not None:
            if starkw is not None and not kw:
                loc[a.kwarg.arg] = starkw if isinstance(starkw, Ref) else st.alloc(starkw)
            elif starkw is None:
                loc[a.kwarg.arg] = st.alloc(PyDict(kw))
            else:
                raise Unsupported("mixing explicit keywords and ** into **kwargs")
        elif kw or starkw is not None:
            raise Unsupported(f"unexpected keyword arguments {list(kw)}")
        st = st.clone()
        st.frames.append(loc)
        name = f.qualname or getattr(fn, "name", "<lambda>")
        if self.fn_stack.count(name) > 2:
            raise Unsupported(f"recursion into {name} without contract")
        self.fn_stack.append(name)
        try:
            if isinstance(fn, ast.Lambda):
                res = []
                for v, s in self.ev(fn.body, st):
                    s.frames.pop()
                    res.append((v, s))
                return res
            outs = []
            for s2, o in self.run(strip_docstring(fn.body), st):
                s2.frames.pop()
                if o is None:
                    outs.append((NONE, s2))
                elif o[0] == "return":
                    outs.append((o[1], s2))
                elif o[0] == "raise":
                    outs.append((Raised(o[1]), s2))
                else:
                    raise Unsupported(f"outcome {o[0]} escaping function")
            return outs
        finally:
            self.fn_stack.pop()

    # ------------------------------------------------------------------ statements
    def run(self, stmts: List[ast.stmt], st: State) -> List[Tuple[State, Any]]:
        if not stmts:
            return [(st, None)]
        s, rest = stmts[0], stmts[1:]
        outs = []
        for s2, o in self.step(s, st):
            if o is None:
                outs += self.run(rest, s2)
            else:
                outs.append((s2, o))
        return outs

    def step(self, s: ast.stmt, st: State) -> List[Tuple[State, Any]]:
        self.paths += 1
        if self.paths > self.max_paths * 50:
            raise Unsupported("path explosion")
        m = getattr(self, "st_" + type(s).__name__, None)
        if m is None:
            raise Unsupported(f"statement {type(s).__name__} at L{s.lineno}")
        return m(s, st)

    def st_Pass(self, s, st):
        return [(st, None)]

    def st_Global(self, s, st):
        st.loc.setdefault("__globals__", set()).update(s.names)
        return [(st, None)]

    def st_Nonlocal(self, s, st):
        st.loc.setdefault("__nonlocals__", set()).update(s.names)
        return [(st, None)]

    def st_Expr(self, s, st):
        if isinstance(s.value, ast.Constant):
            return [(st, None)]
        return [(s2, ("raise", v.exc) if isinstance(v, Raised) else None) for v, s2 in self.ev(s.value, st)]

    def st_AnnAssign(self, s, st):
        if s.value is None:
            return [(st, None)]
        return self._assign([s.target], s.value, st, s)

    def st_Assign(self, s, st):
        return self._assign(s.targets, s.value, st, s)

    def _assign(self, targets, value, st, node):
        outs = []
        for v, s2 in self.ev(value, st):
            if isinstance(v, Raised):
                outs.append((s2, ("raise", v.exc)))
                continue
            ok = True
            for t in targets:
                r = self.store(t, v, s2, node)
                if r is not None:
                    outs.append((s2, ("raise", r.exc)))
                    ok = False
                    break
            if ok:
                outs.append((s2, None))
        return outs

    def store(self, t, v, st: State, node) -> Optional[Raised]:
        line = getattr(node, "lineno", 0)
        if isinstance(t, ast.Name):
            fr = st.loc
            if t.id in fr.get("__globals__", ()):
                st.globals[t.id] = v
            elif t.id in fr.get("__nonlocals__", ()):
                clo = fr.get("__closure__")
                while clo is not None and t.id not in clo:
                    clo = clo.get("__closure__")
                if clo is None:
                    raise Unsupported("nonlocal target not found")
                clo[t.id] = v
            else:
                fr[t.id] = v
            return None
        if isinstance(t, ast.Attribute):
            res = self.ev(t.value, st)
            if len(res) != 1:
                raise Unsupported("forking attribute target")
            base = res[0][0]
            o = st.deref(base)
            if not isinstance(o, Obj):
                raise Unsupported("attribute store on non-object")
            o.fields[t.attr] = v
            return None
        if isinstance(t, ast.Subscript):
            res = self.ev_list([t.value, t.slice], st)
            if len(res) != 1 or isinstance(res[0][0], Raised):
                raise Unsupported("forking subscript target")
            base, idx = res[0][0]
            c = st.deref(base)
            if not isinstance(base, Ref):
                raise Unsupported("subscript store into non-heap value")
            if isinstance(c, DictV):
                vv = z3.IntVal(v.addr) if isinstance(v, Ref) and c.vsort == z3.IntSort() else self.lift(v)
                st.heap[base.addr] = c.store(self.lift(idx), vv)
                return None
            if isinstance(c, PyDict) and isinstance(idx, (str, int)):
                d = dict(c.items)
                d[idx] = v
                st.heap[base.addr] = PyDict(d)
                return None
            if isinstance(c, PyDict) and not c.items and z3.is_expr(idx) and z3.is_expr(self.lift(v)):
                vv = self.lift(v)
                st.heap[base.addr] = DictV.empty(idx.sort(), vv.sort()).store(idx, vv)
                return None
            if isinstance(c, ListV):
                i = self.lift(idx)
                pos = z3.If(i < 0, c.hi + i, c.lo + i)
                self.oblige("exc-free", st, z3.And(pos >= c.lo, pos < c.hi), line, "IndexError:store")
                st.pc.append(z3.And(pos >= c.lo, pos < c.hi))
                st.heap[base.addr] = ListV(z3.Store(c.arr, pos, self.lift(v)), c.lo, c.hi, c.wrap)
                return None
            raise Unsupported(f"subscript store into {type(c).__name__}")
        if isinstance(t, (ast.Tuple, ast.List)):
            vv = st.deref(v)
            if isinstance(vv, (TupleV, PyList)) and len(vv.items) == len(t.elts):
                for tt, x in zip(t.elts, vv.items):
                    self.store(tt, x, st, node)
                return None
            raise Unsupported("tuple unpacking of non-tuple")
        raise Unsupported(f"assignment target {type(t).__name__}")

    def st_AugAssign(self, s, st):
        b = ast.BinOp(left=_as_load(s.target), op=s.op, right=s.value)
        ast.copy_location(b, s)
        ast.fix_missing_locations(b)
        return self._assign([s.target], b, st, s)

    def st_Delete(self, s, st):
        for t in s.targets:
            if not isinstance(t, ast.Subscript):
                raise Unsupported("del of non-subscript")
            res = self.ev_list([t.value, t.slice], st)
            if len(res) != 1 or isinstance(res[0][0], Raised):
                raise Unsupported("forking del")
            base, idx = res[0][0]
            c = st.deref(base)
            if isinstance(c, DictV):
                k = self.lift(idx)
                if self.exc_mode == "oblige":
                    self.oblige("exc-free", st, c.has(k), s.lineno, "KeyError:del")
                    st.pc.append(c.has(k))
                st.heap[base.addr] = c.delete(k)
            elif isinstance(c, PyDict) and isinstance(idx, (str, int)):
                if idx not in c.items:
                    self.oblige("exc-free", st, z3.BoolVal(False), s.lineno, "KeyError:del")
                    return [(st, ("raise", Exc("KeyError", s.lineno)))]
                d = dict(c.items)
                del d[idx]
                st.heap[base.addr] = PyDict(d)
            else:
                raise Unsupported("del on this container")
        return [(st, None)]

    def st_If(self, s, st):
        outs = []
        for c, s2 in self.ev(s.test, st):
            if isinstance(c, Raised):
                outs.append((s2, ("raise", c.exc)))
                continue
            b = self.truthy(c, s2)
            for cond, body in ((b, s.body), (z3.Not(b), s.orelse)):
                s3 = s2.clone()
                s3.pc.append(cond)
                if not self.feasible(s3):
                    continue
                outs += self.run(body, s3)
        return outs

    def st_Return(self, s, st):
        if s.value is None:
            return [(st, ("return", NONE))]
        return [(s2, ("raise", v.exc) if isinstance(v, Raised) else ("return", v)) for v, s2 in self.ev(s.value, st)]

    def st_Raise(self, s, st):
        if s.exc is None:
            return [(st, ("raise", Exc("<reraise>", s.lineno)))]
        name = None
        if isinstance(s.exc, ast.Call) and isinstance(s.exc.func, ast.Name):
            name = s.exc.func.id
        elif isinstance(s.exc, ast.Name):
            name = s.exc.id
        if name is None:
            raise Unsupported("raise of computed exception")
        return [(st, ("raise", Exc(name, s.lineno)))]

    def st_Break(self, s, st):
        return [(st, ("break",))]

    def st_Continue(self, s, st):
        return [(st, ("continue",))]

    def st_Assert(self, s, st):
        outs = []
        for c, s2 in self.ev(s.test, st):
            if isinstance(c, Raised):
                outs.append((s2, ("raise", c.exc)))
                continue
            self.oblige("exc-free", s2, self.truthy(c, s2), s.lineno, "AssertionError")
            s2.pc.append(self.truthy(c, s2))
            outs.append((s2, None))
        return outs

    def st_FunctionDef(self, s, st):
        st.loc[s.name] = FuncV(s, self.module, closure=st.loc, qualname=s.name)
        return [(st, None)]

    def st_Try(self, s, st):
        if s.finalbody or s.orelse:
            raise Unsupported("try/finally/else")
        outs = []
        for s2, o in self.run(s.body, st):
            if o is not None and o[0] == "raise":
                handled = False
                for h in s.handlers:
                    names = []
                    if h.type is None:
                        names = ["*"]
                    elif isinstance(h.type, ast.Name):
                        names = [h.type.id]
                    elif isinstance(h.type, ast.Tuple):
                        names = [x.id for x in h.type.elts if isinstance(x, ast.Name)]
                    if "*" in names or o[1].name in names or "Exception" in names and o[1].name != "<reraise>":
                        if h.name:
                            s2.loc[h.name] = ("excobj", o[1].name)
                        outs += self.run(h.body, s2)
                        handled = True
                        break
                if not handled:
                    outs.append((s2, o))
            else:
                outs.append((s2, o))
        return outs

    # ------------------------------------------------------------------ loops
    def _loop_key(self, node) -> Tuple[str, int]:
        fn = self.fn_stack[-1] if self.fn_stack else "<top>"
        return (fn, node.lineno)

    def loop_spec(self, node) -> LoopSpec:
        fn = self.fn_stack[-1] if self.fn_stack else "<top>"
        header = ast.unparse(node.test) if isinstance(node, ast.While) else f"{ast.unparse(node.target)} in {ast.unparse(node.iter)}"
        norm = lambda h: h.replace("(", "").replace(")", "").replace(" ", "")
        for (f, h), spec in self.loops.items():
            if f == fn and norm(h) == norm(header):
                return spec
        # a loop that was moved, with its header unchanged, into a helper method of the same class (auto-inlined below): the
        # sidecar invariant written for it where it used to be still speaks about the same state, if exactly one such spec exists
        if getattr(self, "_auto_depth", 0) > 0:
            same = [spec for (f, h), spec in self.loops.items() if norm(h) == norm(header) and f.split(".")[0] == fn.split(".")[0]]
            if same and all(sp is same[0] or (sp.invariant is same[0].invariant) for sp in same):
                return _guarded_spec(same[0], fn, header)
        raise Unsupported(f"loop without invariant in {fn}: `{header}` L{node.lineno}")

    def coerce_empty_dicts(self, st: State, paths: List[str]):
        """an empty `{}` literal that a loop is about to fill becomes a symbolic-keyed dict of the declared sorts"""
        sorts = getattr(self, "empty_dict_sorts", None)
        if not sorts:
            return
        for p in paths:
            try:
                cur = self._read_path(st, p)
            except Exception:
                continue
            if isinstance(cur, Ref) and isinstance(st.heap[cur.addr], PyDict) and not st.heap[cur.addr].items:
                st.heap[cur.addr] = DictV.empty(*sorts)

    def havoc(self, st: State, paths: List[str], tag: str):
        for p in paths:
            window_only = p.endswith(":window")     # list whose elements are not written, only its ends move
            p = p.split(":")[0]
            try:
                cur = self._read_path(st, p)
            except Unsupported:
                if "." not in p:
                    continue        # a local that is first assigned inside the loop
                raise
            new = self._havoc_value(st.deref(cur), f"{tag}.{p}")
            if window_only and isinstance(new, ListV):
                new = ListV(st.deref(cur).arr, new.lo, new.hi, new.wrap)
            if isinstance(cur, Ref):
                st.heap[cur.addr] = new
            else:
                self._write_path(st, p, new)

    def _havoc_value(self, v, tag):
        if isinstance(v, DictV):
            return DictV(fresh(tag + ".dom", v.dom.sort()), fresh(tag + ".val", v.val.sort()), v.ksort, v.vsort, v.vwrap)
        if isinstance(v, ListV):
            return ListV(fresh(tag + ".arr", v.arr.sort()), fresh(tag + ".lo", z3.IntSort()), fresh(tag + ".hi", z3.IntSort()), v.wrap)
        if z3.is_expr(v):
            return fresh(tag, v.sort())
        if isinstance(v, Opt):
            return Opt(fresh(tag + ".none", z3.BoolSort()), self._havoc_value(v.val, tag + ".v"))
        if isinstance(v, Char):
            return Char(fresh(tag, z3.IntSort()))
        if isinstance(v, (StrV, str)):
            return StrV(note="havoc")
        if isinstance(v, NoneV):
            return v
        if isinstance(v, PyList) and getattr(self, "empty_list_sort", None) is not None:
            return ListV(fresh(tag + ".arr", z3.ArraySort(z3.IntSort(), self.empty_list_sort)), z3.IntVal(0), fresh(tag + ".hi", z3.IntSort()))
        raise Unsupported(f"havoc of {type(v).__name__}")

    def _read_path(self, st: State, p: str):
        parts = p.split(".")
        v = self.lookup(parts[0], st) if not parts[0].startswith("@") else Ref(int(parts[0][1:]))
        for a in parts[1:]:
            o = st.deref(v)
            v = o.fields[a]
        return v

    def _write_path(self, st: State, p: str, new):
        parts = p.split(".")
        if len(parts) == 1:
            if parts[0] in st.loc:
                st.loc[parts[0]] = new
            else:
                st.globals[parts[0]] = new
            return
        v = self.lookup(parts[0], st)
        for a in parts[1:-1]:
            v = st.deref(v).fields[a]
        st.deref(v).fields[parts[-1]] = new

    def snapshot(self, st: State) -> State:
        return st.clone()

    def _frame_check(self, pre: State, post: State, spec: LoopSpec, line: int):
        """every heap cell / local not declared in `modifies` must be unchanged by the body"""
        declared_cells = set()
        declared_locals = set()
        for p in [q.split(":")[0] for q in spec.modifies]:
            try:
                cur = self._read_path(pre, p)
            except Exception:
                cur = None
            if isinstance(cur, Ref):
                declared_cells.add(cur.addr)
            if "." not in p:
                declared_locals.add(p)
            else:
                declared_cells.add(("field", p))
        for a, v in pre.heap.items():
            if a in declared_cells:
                continue
            w = post.heap.get(a)
            if isinstance(v, Obj):
                for fname, fv in v.fields.items():
                    fw = w.fields.get(fname)
                    if not _same(fv, fw):
                        if any(p.split(":")[0].endswith("." + fname) for p in spec.modifies if "." in p):
                            continue
                        self.oblige("frame", post, _eqv(fv, fw), line, f"field {fname}")
            elif not _same(v, w):
                self.oblige("frame", post, _eqv(v, w), line, f"cell@{a}")
        for name, v in pre.loc.items():
            if name.startswith("__") or name in declared_locals:
                continue
            w = post.loc.get(name)
            if not _same(v, w):
                self.oblige("frame", post, _eqv(v, w), line, f"local {name}")
        for name, v in pre.globals.items():
            if name in declared_locals:
                continue
            w = post.globals.get(name)
            if not _same(v, w):
                self.oblige("frame", post, _eqv(v, w), line, f"global {name}")

    def st_While(self, s: ast.While, st: State):
        if s.orelse:
            raise Unsupported("while/else")
        try:
            spec = self.loop_spec(s)
        except Unsupported:
            return self._while_concrete(s, st)
        line = s.lineno
        self.coerce_empty_dicts(st, spec.modifies)
        if spec.prepare is not None:
            spec.prepare(self, st)
        entry = self.snapshot(st)
        ghost: Dict[str, Any] = {}
        if spec.invariant is not None:
            self.oblige("inv-init", st, spec.invariant(self, st, entry, ghost), line)
        st = st.clone()
        self.havoc(st, spec.modifies, f"w{line}")
        if spec.invariant is not None:
            st.pc.append(spec.invariant(self, st, entry, ghost))
        head = self.snapshot(st)
        outs = []
        for c, s2 in self.ev(s.test, st):
            if isinstance(c, Raised):
                outs.append((s2, ("raise", c.exc)))
                continue
            b = self.truthy(c, s2)
            sx = s2.clone()
            sx.pc.append(z3.Not(b))
            if self.feasible(sx):
                outs.append((sx, None))
            sb = s2.clone()
            sb.pc.append(b)
            if not self.feasible(sb):
                continue
            v0 = spec.variant(self, sb, ghost) if spec.variant else None
            for s3, o in self.run(s.body, sb):
                if o is None or o[0] == "continue":
                    if spec.invariant is not None:
                        self.oblige("inv-step", s3, spec.invariant(self, s3, entry, ghost), line)
                    if v0 is not None:
                        v1 = spec.variant(self, s3, ghost)
                        self.oblige("decreases", s3, z3.And(v0 >= 0, v1 < v0), line)
                    self._frame_check(head, s3, spec, line)
                elif o[0] == "break":
                    outs.append((s3, None))
                else:
                    outs.append((s3, o))
        return outs

    def _while_concrete(self, s: ast.While, st: State, depth: int = 0):
        """exact unrolling, only while the guard is a concrete truth value on the path (e.g. a list of concrete length)"""
        if depth > 32:
            raise Unsupported(f"concrete unrolling too deep L{s.lineno}")
        outs = []
        for c, s2 in self.ev(s.test, st):
            if isinstance(c, Raised):
                outs.append((s2, ("raise", c.exc)))
                continue
            b = z3.simplify(self.truthy(c, s2))
            if z3.is_false(b):
                outs.append((s2, None))
            elif z3.is_true(b):
                for s3, o in self.run(s.body, s2):
                    if o is None or o[0] == "continue":
                        outs += self._while_concrete(s, s3, depth + 1)
                    elif o[0] == "break":
                        outs.append((s3, None))
                    else:
                        outs.append((s3, o))
            else:
                raise Unsupported(f"loop without invariant: `{ast.unparse(s.test)}` L{s.lineno}")
        return outs

    def st_For(self, s: ast.For, st: State):
        spec = None
        line = s.lineno
        outs = []
        for it, st1 in self.ev(s.iter, st):
            if isinstance(it, Raised):
                outs.append((st1, ("raise", it.exc)))
                continue
            outs += self._for(s, spec, it, st1)
        return outs

    def _for(self, s: ast.For, spec: LoopSpec, it, st: State):
        line = s.lineno
        src = st.deref(it) if isinstance(it, Ref) else it
        # concrete iteration (unrolled exactly: the length is concrete on this path)
        if isinstance(src, tuple) and src[0] == "keys_snapshot":
            src = ("keys", src[1])
        if isinstance(src, (PyList, TupleV)) or (isinstance(src, tuple) and src[0] in ("items", "keys", "values") and isinstance(st.deref(src[1]), PyDict)):
            if isinstance(src, tuple):
                d = st.deref(src[1]).items
                seq = [TupleV([k, v]) for k, v in d.items()] if src[0] == "items" else (list(d.keys()) if src[0] == "keys" else list(d.values()))
            else:
                seq = list(src.items)
            states = [(st, None)]
            for x in seq:
                nxt = []
                for s1, o in states:
                    if o is not None:
                        nxt.append((s1, o))
                        continue
                    self.store(s.target, x, s1, s)
                    for s2, o2 in self.run(s.body, s1):
                        if o2 is None or o2[0] == "continue":
                            nxt.append((s2, None))
                        elif o2[0] == "break":
                            nxt.append((s2, ("broke",)))
                        else:
                            nxt.append((s2, o2))
                states = nxt
            res = []
            for s1, o in states:
                if o is None:
                    res += self.run(s.orelse, s1) if s.orelse else [(s1, None)]
                elif o[0] == "broke":
                    res.append((s1, None))
                else:
                    res.append((s1, o))
            return res
        spec = self.loop_spec(s)
        self.coerce_empty_dicts(st, spec.modifies)
        entry = self.snapshot(st)
        ghost: Dict[str, Any] = {}
        # symbolic iteration: dict views (ghost done-set) / range / list window (ghost index)
        if isinstance(src, tuple) and src[0] in ("items", "keys", "values"):
            d: DictV = st.deref(src[1])
            if not isinstance(d, DictV):
                raise Unsupported("iteration over this dict")
            done0 = z3.K(d.ksort, z3.BoolVal(False))
            ghost["done"] = done0
            ghost["iter_dict"] = d
            self.oblige("inv-init", st, spec.invariant(self, st, entry, ghost), line)
            st = st.clone()
            self.havoc(st, spec.modifies, f"f{line}")
            done = fresh("done", z3.ArraySort(d.ksort, z3.BoolSort()))
            kk = fresh("k", d.ksort)
            st.pc.append(z3.ForAll([kk], z3.Implies(z3.Select(done, kk), d.has(kk))))
            ghost = {"done": done, "iter_dict": d}
            st.pc.append(spec.invariant(self, st, entry, ghost))
            # the dict being iterated must not be changed by the body
            d_now = st.deref(src[1])
            head = self.snapshot(st)
            outs = []
            # exit: done == dom
            sx = st.clone()
            sx.pc.append(z3.ForAll([kk], z3.Select(done, kk) == d.has(kk)))
            if self.feasible(sx):
                outs += self.run(s.orelse, sx) if s.orelse else [(sx, None)]
            key = fresh("key", d.ksort)
            sb = st.clone()
            sb.pc += [d.has(key), z3.Not(z3.Select(done, key))]
            if self.feasible(sb):
                val = self._wrapv(d, d.get(key))
                tgt = TupleV([key, val]) if src[0] == "items" else (key if src[0] == "keys" else val)
                self.store(s.target, tgt, sb, s)
                ghost_in = dict(ghost)
                ghost_in["key"] = key
                for s3, o in self.run(s.body, sb):
                    d_after = s3.deref(src[1])
                    if isinstance(src[1], Ref) and not _same(d_after, d_now):
                        self.oblige("frame", s3, d_after.same_as(d_now), line, "iterated dict unchanged")
                    if o is None or o[0] == "continue":
                        g2 = {"done": z3.Store(done, key, z3.BoolVal(True)), "iter_dict": d}
                        self.oblige("inv-step", s3, spec.invariant(self, s3, entry, g2), line)
                        self._frame_check(head, s3, _with_target(spec, s.target), line)
                    elif o[0] == "break":
                        outs.append((s3, None))
                    else:
                        s3.ghost["loop_key"] = key
                        s3.ghost["loop_done"] = done
                        outs.append((s3, o))
            return outs
        if (isinstance(src, tuple) and src[0] == "range") or isinstance(src, ListV) or (isinstance(src, tuple) and src[0] == "enumerate"):
            if isinstance(src, tuple) and src[0] == "range":
                lo, hi = src[1], src[2]
                elem = lambda i: i
            elif isinstance(src, ListV):
                lo, hi = src.lo, src.hi
                elem = lambda i: src.at(i)
            else:
                lst: ListV = st.deref(src[1])
                if not isinstance(lst, ListV):
                    raise Unsupported("enumerate over this")
                lo, hi = lst.lo, lst.hi
                elem = lambda i: TupleV([i - lst.lo, lst.at(i)])
            ghost = {"i": lo, "lo": lo, "hi": hi}
            self.oblige("inv-init", st, spec.invariant(self, st, entry, ghost), line)
            st = st.clone()
            self.havoc(st, spec.modifies, f"f{line}")
            i = fresh("i", z3.IntSort())
            ghost = {"i": i, "lo": lo, "hi": hi}
            st.pc.append(z3.And(lo <= i, z3.Or(i <= hi, hi < lo)))
            st.pc.append(spec.invariant(self, st, entry, ghost))
            head = self.snapshot(st)
            outs = []
            sx = st.clone()
            sx.pc.append(i >= hi)
            if self.feasible(sx):
                sx.ghost["loop_exhausted"] = True
                if isinstance(src, tuple) and src[0] == "range" and isinstance(s.target, ast.Name):
                    # Python leaves the loop variable at its last value (or untouched when the range was empty)
                    try:
                        old = entry.loc.get(s.target.id)
                    except Exception:
                        old = None
                    if old is not None and z3.is_expr(self.lift(old)):
                        sx.loc[s.target.id] = z3.If(hi > lo, hi - 1, self.lift(old))
                    else:
                        sx.loc[s.target.id] = hi - 1
                        sx.pc.append(hi > lo) if old is None else None
                outs += self.run(s.orelse, sx) if s.orelse else [(sx, None)]
            sb = st.clone()
            sb.pc.append(i < hi)
            if self.feasible(sb):
                self.store(s.target, elem(i), sb, s)
                for s3, o in self.run(s.body, sb):
                    if o is None or o[0] == "continue":
                        g2 = {"i": i + 1, "lo": lo, "hi": hi}
                        self.oblige("inv-step", s3, spec.invariant(self, s3, entry, g2), line)
                        self._frame_check(head, s3, _with_target(spec, s.target), line)
                    elif o[0] == "break":
                        s3.ghost["loop_i"] = i
                        outs.append((s3, None))
                    else:
                        s3.ghost["loop_i"] = i
                        outs.append((s3, o))
            return outs
        raise Unsupported(f"for over {type(src).__name__} L{line}")


def _mentions(expr, var) -> bool:
    seen, todo = set(), [expr]
    while todo:
        x = todo.pop()
        if x.get_id() in seen:
            continue
        seen.add(x.get_id())
        if x.eq(var):
            return True
        todo.extend(x.children())
    return False


def _with_target(spec: LoopSpec, target) -> LoopSpec:
    names = [n.id for n in ast.walk(target) if isinstance(n, ast.Name)]
    return LoopSpec(spec.invariant, spec.variant, list(spec.modifies) + names, spec.header)


def _same(a, b) -> bool:
    if a is b:
        return True
    if isinstance(a, Ref) and isinstance(b, Ref):
        return a.addr == b.addr
    if z3.is_expr(a) and z3.is_expr(b):
        return a.eq(b)
    if isinstance(a, DictV) and isinstance(b, DictV):
        return a.dom.eq(b.dom) and a.val.eq(b.val)
    if isinstance(a, ListV) and isinstance(b, ListV):
        return a.arr.eq(b.arr) and z3.is_expr(a.lo) and a.lo.eq(b.lo) and a.hi.eq(b.hi)
    if isinstance(a, (PyList, TupleV)) and type(a) is type(b):
        return len(a.items) == len(b.items) and all(_same(x, y) for x, y in zip(a.items, b.items))
    if isinstance(a, PyDict) and isinstance(b, PyDict):
        return a.items.keys() == b.items.keys() and all(_same(a.items[k], b.items[k]) for k in a.items)
    if isinstance(a, (str, int, float, bool, NoneV, tuple)) and type(a) is type(b):
        return a == b
    if isinstance(a, (StrV, FuncV, ClassV, Opt, Char)):
        return a is b
    return False


def _eqv(a, b):
    if z3.is_expr(a) and z3.is_expr(b) and a.sort() == b.sort():
        return a == b
    if isinstance(a, DictV) and isinstance(b, DictV):
        return a.same_as(b)
    if isinstance(a, ListV) and isinstance(b, ListV):
        i = fresh("i", z3.IntSort())
        return z3.And(a.lo == b.lo, a.hi == b.hi, z3.ForAll([i], z3.Implies(z3.And(a.lo <= i, i < a.hi), z3.Select(a.arr, i) == z3.Select(b.arr, i))))
    return z3.BoolVal(False)


def _as_load(t):
    t2 = ast.parse(ast.unparse(t), mode="eval").body
    return t2


BUILTIN_EXC = {"ValueError", "TypeError", "KeyError", "IndexError", "NotImplementedError", "Exception"}
