"""E4: step accounting of `with Progress(msg, total=E) as p:` blocks, for all inputs and all trip counts.

The real function's AST (re-read from the working tree on every run) is executed over an abstract state that keeps only
what step accounting depends on:

  * numeric locals (`num_steps`, `num_attempts`, ...) as z3 reals, lengths of lists built by the function (`[]`, append,
    extend, comprehensions, generator expressions) as z3 reals >= 0, `len(X)` of anything else as one symbol per (source
    text, version of the names in it);
  * branch conditions: comparisons of numeric expressions are interpreted, everything else is an uninterpreted boolean atom
    keyed by its source text and the versions of the names it mentions, so that two tests of the same thing are correlated
    (`if credible_intervals: num_steps += num_samples` ... `if credible_intervals: <loop over num_samples>`);
  * per Progress context: the number of steps taken so far (`increment(step=k)`), the total.

`if` merges the two branch states with z3 If; `for` is summarised by an inductive invariant `v == v0 + k*d` for every tracked
quantity the body changes by a path-independent amount d (checked), or, for the step counter only, by the upper bound
`v <= v0 + k*dmax`; tracked quantities changed in any other way are forgotten (fresh symbol).  The obligations, discharged
by z3 over the reals (nlsat for the products len(methods)*len(weights)):

    total >= 1 at `__enter__`             (progress = i / total)
    steps + 1 <= total at every exit      (`__exit__` increments once more; Progress.increment raises beyond total)

at the normal exit, at every `return` and at every `raise` inside the block.  Callees that receive the Progress object are
used through a step contract `delta(prog) <= f(arguments)` which is itself an obligation on the callee's body.

Assumed, not proved: iterators yield one item per element (map, enumerate, Pool.imap, Pool.imap_unordered, dict views);
functions that are not handed the Progress object do not reach it and do not resize the lists this function builds; numbers
are mathematical reals."""
from __future__ import annotations

import ast
import itertools
from fractions import Fraction
from typing import Any, Callable, Dict, List, Optional, Tuple

import z3

from .core import Session

R = z3.RealSort()
EXCL_TYPES = ("list", "str", "dict", "tuple")


class Ctx:
    """one Progress context (or the Progress object a callee received)"""

    def __init__(self, name: str, total, line: int, owner: int, bound=None):
        self.name, self.total, self.line, self.owner = name, total, line, owner
        self.bound = bound           # z3 Bool: the parameter really is the Progress object (callee side, `prog if c else None`)
        self.tainted: Optional[str] = None
        self.label = f"`{name}`"
        self.closed = False          # the with block is over: __exit__ has taken its step, later steps are checked one by one
        self.callable = False        # a callback parameter: every call of it counts as one step


class State:
    def __init__(self):
        self.vars: Dict[str, Any] = {}
        self.kind: Dict[str, str] = {}
        self.ver: Dict[str, int] = {}
        self.cnt: Dict[str, Any] = {}
        self.present: Dict[str, Any] = {}          # name -> condition under which an optional number is not None
        self.guard = z3.BoolVal(True)

    def copy(self) -> "State":
        s = State()
        s.vars, s.kind, s.ver, s.cnt, s.guard = dict(self.vars), dict(self.kind), dict(self.ver), dict(self.cnt), self.guard
        s.present = dict(self.present)
        return s


class Unsupported(Exception):
    pass


class StepExec:
    def __init__(self, sess: Session, module: str, fn: ast.FunctionDef, contracts: Dict[str, Callable], tag: str = ""):
        self.sess, self.module, self.fn, self.contracts, self.tag = sess, module, fn, contracts, tag
        self.hyps: List[Any] = []
        self.fresh = itertools.count()
        self.atoms: Dict[str, Any] = {}
        self.isinst: List[Tuple[str, str, Any]] = []
        self.ctxs: Dict[str, Ctx] = {}
        self.frame = 0
        self.n_obl = 0
        self.returns: List[State] = []
        self.notes: List[str] = []
        self.silent = 0
        self.atom_birth: Dict[str, int] = {}
        self.atom_nodes: Dict[str, Any] = {}
        self.src_of: Dict[str, List[str]] = {}
        self.requires: Dict[str, Any] = {}
        self.taints: List[str] = []
        self.closures: Dict[str, Dict[str, Any]] = {}
        self.records: Dict[str, Dict[str, "Val"]] = {}
        self.externals: Dict[str, Callable] = {}
        self.loop_invs: Dict[str, Callable] = {}
        self.ret_stack: List[List[State]] = []
        self.depth = 0
        self.opaque: set = set()
        self.opaque_why: Dict[str, str] = {}
        self.param_names: set = set()
        self.inner: Dict[Tuple[str, str], Any] = {}      # (container, loop variable) -> symbol for len(container[variable]) in the current iteration
        self.ret_abs: Dict[int, Any] = {}                # id(call node) -> size abstraction of what an analysed callee returns
        self.return_values: List[Any] = []
        self.probe = 0               # inside the first (delta-finding) pass over a loop body: nothing is recorded
        self.find_callee: Callable[[str], Optional[ast.FunctionDef]] = lambda name: None
        self.scoped: List[Any] = []

    # ------------------------------------------------------------------ symbols
    def sym(self, base: str, nonneg: bool = False):
        v = z3.Real(f"{base}")
        if nonneg:
            self.hyps.append(v >= 0)
        return v

    def new(self, base: str, nonneg: bool = False):
        return self.sym(f"{base}!{next(self.fresh)}", nonneg)

    def vkey(self, node: ast.AST, st: State) -> str:
        names = sorted({n.id for n in ast.walk(node) if isinstance(n, ast.Name)})
        return ast.unparse(node) + "|" + ",".join(f"{n}@{st.ver.get(n, 0)}" for n in names)

    def bump(self, st: State, name: str):
        st.ver[name] = 1 + next(self.fresh)
        st.vars.pop(name, None)
        st.kind.pop(name, None)
        st.present.pop(name, None)

    PURE_CALLS = {"isinstance", "len", "all", "any", "map", "callable", "hasattr", "abs", "min", "max", "isnan", "isinf", "isposinf", "isneginf", "isclose", "allclose",
                  "_is_integer", "_is_floating", "_is_boolean", "_is_complex", "_is_integer_array", "_is_floating_array", "_is_complex_array", "keys", "values", "items", "get", "str", "int", "float", "bool", "type"}

    def atom(self, node: ast.AST, st: State):
        k = self.vkey(node, st)
        impure = [c for c in ast.walk(node) if isinstance(c, ast.Call) and (c.func.id if isinstance(c.func, ast.Name) else getattr(c.func, "attr", "?")) not in self.PURE_CALLS]
        if impure:
            k += f"|eval{next(self.fresh)}"               # not known to be a function of its names: never correlated
        if k not in self.atoms:
            a = z3.Bool("atom:" + k)
            self.atoms[k] = a
            self.atom_birth[str(a)] = next(self.fresh)
            self.atom_nodes[str(a)] = (node, {n.id: st.ver.get(n.id, 0) for n in ast.walk(node) if isinstance(n, ast.Name)})
            if isinstance(node, ast.Call) and isinstance(node.func, ast.Name) and node.func.id == "isinstance" and len(node.args) == 2 and isinstance(node.args[1], ast.Name) and node.args[1].id in EXCL_TYPES:
                subj = self.vkey(node.args[0], st)
                for s2, t2, a2 in self.isinst:
                    if s2 == subj and t2 != node.args[1].id:
                        self.hyps.append(z3.Not(z3.And(a, a2)))          # no object is both a list and a str, ...
                self.isinst.append((subj, node.args[1].id, a))
        return self.atoms[k]

    def length(self, node: ast.AST, st: State):
        """number of items of an iterable expression"""
        if isinstance(node, ast.Name):
            if st.kind.get(node.id) in ("len", "gen"):
                return st.vars[node.id]
            return self.sym("len:" + self.vkey(node, st), True)
        if isinstance(node, (ast.List, ast.Tuple)) and not any(isinstance(e, ast.Starred) for e in node.elts):
            return z3.RealVal(len(node.elts))
        if isinstance(node, ast.IfExp):
            return z3.If(self.cond(node.test, st), self.length(node.body, st), self.length(node.orelse, st))
        if isinstance(node, ast.Subscript) and isinstance(node.value, ast.Name) and isinstance(node.slice, ast.Name) and (node.value.id, node.slice.id) in self.inner:
            return self.inner[(node.value.id, node.slice.id)]          # len(D[a]) inside `for a in D`: one value of the nested container
        if isinstance(node, (ast.ListComp, ast.GeneratorExp, ast.SetComp)):
            n = z3.RealVal(1)
            filtered = False
            for g in node.generators:
                n = n * self.length(g.iter, st)
                filtered = filtered or bool(g.ifs)
            if filtered or isinstance(node, ast.SetComp):
                m = self.new("len:filtered", True)
                self.hyps.append(m <= n)
                return m
            return n
        if isinstance(node, ast.Call):
            f = node.func
            fname = f.id if isinstance(f, ast.Name) else (f.attr if isinstance(f, ast.Attribute) else "")
            if fname == "range" and isinstance(f, ast.Name) and 1 <= len(node.args) <= 2:
                lo = z3.RealVal(0) if len(node.args) == 1 else self.num(node.args[0], st)
                hi = self.num(node.args[-1], st)
                if lo is not None and hi is not None:
                    return z3.If(hi - lo >= 0, hi - lo, 0)
            if fname in ("enumerate", "list", "tuple", "sorted", "reversed", "iter", "array") and isinstance(f, ast.Name) and node.args:
                return self.length(node.args[0], st)
            if fname == "linspace" and isinstance(f, ast.Name):
                n_node = next((k.value for k in node.keywords if k.arg == "num"), node.args[2] if len(node.args) > 2 else None)
                n = self.num(n_node, st) if n_node is not None else z3.RealVal(50)
                if n is not None:
                    return z3.If(n >= 0, n, 0)
            if fname in ("map", "_map") and isinstance(f, ast.Name) and len(node.args) == 2:
                return self.length(node.args[1], st)
            if fname in ("imap", "imap_unordered") and isinstance(f, ast.Attribute) and len(node.args) >= 2:
                return self.length(node.args[1], st)
            if fname in ("items", "keys", "values") and isinstance(f, ast.Attribute) and not node.args:
                return self.length(f.value, st)
            if fname == "zip" and isinstance(f, ast.Name) and node.args:
                m = self.new("len:zip", True)
                for a in node.args:
                    self.hyps.append(m <= self.length(a, st))
                return m
        if isinstance(node, ast.Subscript) and isinstance(node.slice, ast.Slice) and node.slice.step is None:
            lo, hi = node.slice.lower, node.slice.upper
            n = self.length(node.value, st)

            def const(x):
                if x is None:
                    return 0
                if isinstance(x, ast.Constant) and isinstance(x.value, int):
                    return x.value
                if isinstance(x, ast.UnaryOp) and isinstance(x.op, ast.USub) and isinstance(x.operand, ast.Constant) and isinstance(x.operand.value, int):
                    return -x.operand.value
                return None
            a, b = const(lo), const(hi)
            if a is not None and b is not None and a >= 0 and b <= 0:
                m = n - a + b                                  # x[a:] , x[:-b], x[a:-b]
                return z3.If(m >= 0, m, 0)
        return self.sym("len:" + self.vkey(node, st), True)

    # ------------------------------------------------------------------ expressions
    def num(self, e: ast.AST, st: State):
        if isinstance(e, ast.Constant):
            if isinstance(e.value, bool) or not isinstance(e.value, (int, float)):
                return None
            if isinstance(e.value, float) and (e.value != e.value or e.value in (float("inf"), float("-inf"))):
                return None
            fr = Fraction(str(e.value))
            return z3.RealVal(f"{fr.numerator}/{fr.denominator}")
        if isinstance(e, ast.Name):
            if e.id in st.vars:
                return st.vars[e.id] if st.kind[e.id] == "num" else None
            if e.id in self.records or e.id in self.closures:
                return None
            if e.id in self.ctxs:
                return None
            return self.sym(f"{e.id}@{st.ver.get(e.id, 0)}")
        if isinstance(e, ast.UnaryOp) and isinstance(e.op, (ast.USub, ast.UAdd)):
            v = self.num(e.operand, st)
            return None if v is None else (-v if isinstance(e.op, ast.USub) else v)
        if isinstance(e, ast.BinOp) and isinstance(e.op, (ast.Add, ast.Sub, ast.Mult)):
            a, b = self.num(e.left, st), self.num(e.right, st)
            if a is None or b is None:
                return None
            return a + b if isinstance(e.op, ast.Add) else (a - b if isinstance(e.op, ast.Sub) else a * b)
        if isinstance(e, ast.BinOp) and isinstance(e.op, ast.Div) and isinstance(e.right, ast.Constant) and isinstance(e.right.value, (int, float)) and not isinstance(e.right.value, bool) and e.right.value != 0:
            a, b = self.num(e.left, st), self.num(e.right, st)
            return None if a is None else a / b
        if isinstance(e, ast.IfExp):
            a, b = self.num(e.body, st), self.num(e.orelse, st)
            if a is None or b is None:
                return None
            return z3.If(self.cond(e.test, st), a, b)
        if isinstance(e, ast.Call) and isinstance(e.func, ast.Name) and not e.keywords:
            f = e.func.id
            if f == "len" and len(e.args) == 1:
                return self.length(e.args[0], st)
            if f == "abs" and len(e.args) == 1:
                v = self.num(e.args[0], st)
                return None if v is None else z3.If(v >= 0, v, -v)
            if f in ("ceil", "floor") and len(e.args) == 1:
                v = self.num(e.args[0], st)
                if v is None:
                    return None
                c = self.sym(f"{f}:{self.vkey(e.args[0], st)}")
                self.hyps.append(z3.And(c >= v, c < v + 1) if f == "ceil" else z3.And(c <= v, c > v - 1))      # integrality itself is not needed for upper bounds
                return c
            if f == "int" and len(e.args) == 1 and isinstance(e.args[0], ast.Call) and isinstance(e.args[0].func, ast.Name) and e.args[0].func.id in ("ceil", "floor", "len"):
                return self.num(e.args[0], st)
            if f in ("max", "min") and e.args:
                items = e.args[0].elts if len(e.args) == 1 and isinstance(e.args[0], (ast.Tuple, ast.List)) else e.args
                vs = [self.num(a, st) for a in items]
                if len(vs) >= 2 and all(v is not None for v in vs):
                    out = vs[0]
                    for v in vs[1:]:
                        out = z3.If(v >= out, v, out) if f == "max" else z3.If(v <= out, v, out)
                    return out
        return None

    def cond(self, e: ast.AST, st: State):
        if isinstance(e, ast.Constant) and isinstance(e.value, bool):
            return z3.BoolVal(e.value)
        if isinstance(e, ast.BoolOp):
            vs = [self.cond(v, st) for v in e.values]
            return z3.And(*vs) if isinstance(e.op, ast.And) else z3.Or(*vs)
        if isinstance(e, ast.UnaryOp) and isinstance(e.op, ast.Not):
            return z3.Not(self.cond(e.operand, st))
        if isinstance(e, ast.Name) and e.id in self.ctxs:
            c = self.ctxs[e.id]
            return c.bound if c.bound is not None else z3.BoolVal(True)
        if isinstance(e, ast.Compare):
            if len(e.ops) == 1 and isinstance(e.ops[0], (ast.Is, ast.IsNot)) and isinstance(e.left, ast.Name) and e.left.id in self.ctxs \
                    and isinstance(e.comparators[0], ast.Constant) and e.comparators[0].value is None:
                c = self.ctxs[e.left.id]
                b = c.bound if c.bound is not None else z3.BoolVal(True)
                return z3.Not(b) if isinstance(e.ops[0], ast.Is) else b
            if len(e.ops) == 1 and isinstance(e.ops[0], (ast.Is, ast.IsNot)) and isinstance(e.left, ast.Name) and e.left.id in st.present \
                    and isinstance(e.comparators[0], ast.Constant) and e.comparators[0].value is None:
                return z3.Not(st.present[e.left.id]) if isinstance(e.ops[0], ast.Is) else st.present[e.left.id]
            terms = [e.left] + list(e.comparators)
            vals = [self.num(t, st) for t in terms]
            ok = all(isinstance(o, (ast.Lt, ast.LtE, ast.Gt, ast.GtE, ast.Eq, ast.NotEq)) for o in e.ops)
            if ok and all(v is not None for v in vals):
                parts = []
                for o, a, b in zip(e.ops, vals, vals[1:]):
                    parts.append({ast.Lt: a < b, ast.LtE: a <= b, ast.Gt: a > b, ast.GtE: a >= b, ast.Eq: a == b, ast.NotEq: a != b}[type(o)])
                return z3.And(*parts) if len(parts) > 1 else parts[0]
        if isinstance(e, ast.Compare) and len(e.ops) == 1 and isinstance(e.ops[0], (ast.IsNot, ast.NotEq)):
            flipped = ast.Compare(left=e.left, ops=[ast.Is() if isinstance(e.ops[0], ast.IsNot) else ast.Eq()], comparators=e.comparators)
            return z3.Not(self.atom(flipped, st))            # `x is not None` / `x != c` are the negations of `x is None` / `x == c`
        if isinstance(e, ast.Name) and st.kind.get(e.id) == "len":
            return st.vars[e.id] > 0                      # truthiness of a list the function built
        if isinstance(e, ast.Name) and st.kind.get(e.id) == "bool":
            return st.vars[e.id]
        if isinstance(e, ast.Name) and st.kind.get(e.id) == "num":
            t = st.vars[e.id] != 0                        # truthiness of a number
            return z3.And(st.present[e.id], t) if e.id in st.present else t
        return self.atom(e, st)

    # ------------------------------------------------------------------ obligations
    def oblige(self, kind: str, st: State, goal, line: int, label: str):
        if self.silent:
            return
        self.n_obl += 1
        ob = self.sess.check(kind, self.hyps + self.scoped + [st.guard], goal, line, label=label + self.tag)
        if ob.status != "discharged":
            dep = self.opaque_in(goal) or self.opaque_in(st.guard)
            if dep:
                # not provable, and the formula involves a value the analysis does not follow: nothing is decided about it
                self.sess.obligations.remove(ob)
                self.n_obl -= 1
                self.taints.append(f"the obligation `{label[:80]}` depends on `{dep.split('@')[0]} = {self.opaque_why.get(dep, '?')}`, a value the analysis does not follow")

    def opaque_in(self, e) -> Optional[str]:
        if not self.opaque:
            return None
        seen, todo = set(), [e]
        while todo:
            x = todo.pop()
            if x.get_id() in seen:
                continue
            seen.add(x.get_id())
            if z3.is_const(x) and x.decl().kind() == z3.Z3_OP_UNINTERPRETED and str(x) in self.opaque:
                return str(x)
            todo.extend(x.children())
        return None

    def exits(self, st: State, line: int, how: str):
        for c in list(self.ctxs.values()):
            if c.owner == 0:
                self.exits_one(c, st, line, how)

    # ------------------------------------------------------------------ statements
    def assigned_names(self, body: List[ast.stmt]) -> List[str]:
        out = []
        for s in body:
            for n in ast.walk(s):
                if isinstance(n, ast.Name) and isinstance(n.ctx, (ast.Store, ast.Del)):
                    out.append(n.id)
                elif isinstance(n, ast.Call) and isinstance(n.func, ast.Attribute) and n.func.attr in ("append", "extend", "insert", "pop", "remove", "clear") and isinstance(n.func.value, ast.Name):
                    out.append(n.func.value.id)
                elif isinstance(n, ast.Subscript) and isinstance(n.ctx, ast.Store):
                    root = n.value
                    while isinstance(root, ast.Subscript):
                        root = root.value
                    if isinstance(root, ast.Name):
                        out.append(root.id)
                        out.append(root.id + "#tot")
        return sorted(set(out))

    def block(self, body: List[ast.stmt], st: State, loop: Optional[dict] = None) -> State:
        for s in body:
            st = self.stmt(s, st, loop)
        return st

    def merge(self, c, a: State, b: State) -> State:
        """state after `if c: a else: b`"""
        if z3.is_false(z3.simplify(a.guard)):
            return b
        if z3.is_false(z3.simplify(b.guard)):
            return a
        out = State()
        out.guard = z3.simplify(z3.Or(a.guard, b.guard))
        for k in set(a.ver) | set(b.ver):
            va, vb = a.ver.get(k, 0), b.ver.get(k, 0)
            out.ver[k] = va if va == vb else 1 + next(self.fresh)
        for k in set(a.vars) | set(b.vars):
            if k in a.vars and k in b.vars and a.kind[k] == b.kind[k]:
                out.kind[k] = a.kind[k]
                out.vars[k] = a.vars[k] if z3.eq(a.vars[k], b.vars[k]) else z3.If(c, a.vars[k], b.vars[k])
                if k in a.present or k in b.present:
                    out.present[k] = z3.If(c, a.present.get(k, z3.BoolVal(True)), b.present.get(k, z3.BoolVal(True)))
            else:
                out.ver[k] = 1 + next(self.fresh)          # tracked on one side only: forget
        for k in a.cnt:
            if k in b.cnt:
                out.cnt[k] = a.cnt[k] if z3.eq(a.cnt[k], b.cnt[k]) else z3.If(c, a.cnt[k], b.cnt[k])
        return out

    def advance(self, st: State, cname: str, amount, line: int, cond=None) -> State:
        """steps(cname) += amount (if cond); once the block is closed every advance is checked against the total at once"""
        c = self.ctxs[cname]
        b = z3.BoolVal(True) if cond is None else cond
        if c.bound is not None:
            b = z3.And(b, c.bound)
        st = st.copy()
        st.cnt[cname] = st.cnt[cname] + z3.If(b, amount, 0)
        if c.closed and c.tainted is None and c.total is not None:
            self.oblige("exc-free", st, st.cnt[cname] <= c.total, line, f"{c.label}: steps taken <= total after the block")
        return st

    def call_effect(self, call: ast.Call, st: State, line: int) -> State:
        f = call.func
        if isinstance(f, ast.Attribute) and isinstance(f.value, ast.Name):
            obj, meth = f.value.id, f.attr
            if obj in self.ctxs and not self.ctxs[obj].callable:
                c = self.ctxs[obj]
                if meth == "increment":
                    step = z3.RealVal(1)
                    args = list(call.args) + [k.value for k in call.keywords if k.arg == "step"]
                    if call.args or any(k.arg == "step" for k in call.keywords):
                        step = self.num(args[0], st)
                        if step is None:
                            c.tainted = f"increment(step={ast.unparse(args[0])}) at line {line}"
                            return st
                        self.oblige("call-pre", st, step >= 0, line, f"`{obj}`.increment: step >= 0")
                    return self.advance(st, obj, step, line)
                if meth in ("set_message", "get", "get_total", "get_message"):
                    return st
                c.tainted = f"{obj}.{meth}(...) at line {line}"
                return st
            if st.kind.get(obj) == "len":
                st = st.copy()
                if meth == "append":
                    st.vars[obj] = st.vars[obj] + 1
                elif meth == "extend" and len(call.args) == 1:
                    st.vars[obj] = st.vars[obj] + self.length(call.args[0], st)
                elif meth == "clear" and not call.args:
                    st.vars[obj] = z3.RealVal(0)
                elif meth in ("sort", "reverse", "index", "count", "copy"):
                    pass
                else:
                    self.bump(st, obj)
                return st
        callee = f.id if isinstance(f, ast.Name) else (f.attr if isinstance(f, ast.Attribute) else "?")
        if isinstance(f, ast.Name) and callee == "dict" and not call.args and all(k.arg for k in call.keywords):
            return st                                          # a record being built: see assign()
        if isinstance(f, ast.Name) and f.id in self.ctxs and self.ctxs[f.id].callable:
            return self.advance(st, f.id, z3.RealVal(1), line)                      # the callback parameter is called
        if isinstance(f, ast.Name) and f.id in self.closures:
            for cname, d in self.closures[f.id].items():
                if cname in self.ctxs:
                    st = self.advance(st, cname, d, line)
            return st
        if isinstance(f, ast.Name) and callee in self.requires:
            req = self.requires[callee]
            vals = Args(self, st, self.bind(call, req.params, st), req.defaults)
            try:
                goal = req.pre(vals)
            except (KeyError, TypeError):
                goal = None
            if goal is None:
                raise Unsupported(f"precondition of {callee}() cannot be evaluated at line {line}")
            self.oblige("call-pre", st, goal, line, f"{callee}() requires {req.text}")
        if isinstance(f, ast.Name) and callee in self.externals:
            return self.externals[callee](self, call, st, line)
        # a call that hands a Progress object (or a closure that steps one) on
        contract = self.contracts.get(callee) if isinstance(f, ast.Name) else None
        items = self.bind(call, contract.params if contract else [], st)
        for key, v in items.items():
            for cname, cond, path in self.carried(v, st):
                c = self.ctxs[cname]
                if contract is None:
                    done = self.infer_summary(call, callee, key, v, cname, cond, path, st, line) if isinstance(f, ast.Name) else None
                    if done is None:
                        c.tainted = c.tainted or f"passed to {callee}() at line {line}, which has no step contract"
                    else:
                        st = done
                    continue
                if path and (key, path[-1]) in contract.none_fields:
                    self.oblige("call-pre", st, z3.Not(cond) if cond is not None else z3.BoolVal(False), line,
                                f"{callee}() requires {key}[{path[-1]!r}] to be None (the Progress object must not travel inside {key})")
                    continue
                if path or key != contract.prog_param:
                    c.tainted = f"passed to {callee}() at line {line} as {key}{list(path) or ''}, not as its `{contract.prog_param}` parameter"
                    continue
                vals = Args(self, st, {n: x for n, x in items.items() if n != contract.prog_param}, contract.defaults)
                try:
                    delta = contract.delta(vals)
                except (KeyError, TypeError):
                    delta = None
                if delta is None:
                    c.tainted = f"step contract of {callee}() needs an argument the analysis cannot evaluate at line {line}"
                    continue
                per_call = z3.RealVal(1)
                if isinstance(v, ast.Name) and v.id in self.closures:
                    per_call = self.closures[v.id][cname]
                st = self.advance(st, cname, delta * per_call, line, cond)
                self.note(f"line {line}: {callee}() used through its step contract `{contract.text}`")
        return st

    def infer_summary(self, call: ast.Call, callee: str, key, v, cname: str, cond, path, st: State, line: int) -> Optional[State]:
        """no declared step contract: derive one from the callee's body (same module) -- the steps it takes on the object as an
        upper bound over its exits, in terms of its own parameters -- and use it like a declared one.  The callee's body is
        executed silently (its own Progress blocks, if any, are obligations of its own target)."""
        if path or self.depth >= 3:
            return None
        try:
            fn = self.find_callee(callee)
        except LookupError:
            return None
        if fn is None:
            return None
        a = fn.args
        params = [x.arg for x in a.posonlyargs + a.args]
        bound_args = self.bind(call, params, st)
        prog_param = next((p for p, x in bound_args.items() if x is v), None)
        if not isinstance(prog_param, str):
            return None
        sub = StepExec(self.sess, self.module, fn, self.contracts)
        sub.fresh, sub.requires, sub.externals, sub.loop_invs, sub.find_callee = self.fresh, self.requires, self.externals, {}, self.find_callee
        sub.depth = self.depth + 1
        sub.silent = 1
        is_closure = isinstance(v, ast.Name) and v.id in self.closures
        try:
            sub.run_function({prog_param: None}, callable_param=is_closure)      # a nested function handed on: each call of it counts
        except Unsupported:
            return None
        sc = sub.ctxs[prog_param]
        if sc.tainted:
            self.ctxs[cname].tainted = f"inside {callee}(): {sc.tainted}"
            return st
        delta = None
        rets = []
        for e, rv in zip(sub.returns, sub.return_values):
            if z3.is_false(z3.simplify(e.guard)):
                continue
            delta = e.cnt[prog_param] if delta is None else self.ub2(delta, e.cnt[prog_param])
            rets.append(sub.size_of(rv, e))
        if delta is None:
            delta = z3.RealVal(0)
        # what the callee returns, as sizes: one abstraction, or a list for a returned tuple; the maximum over the exits
        ret = None
        if rets and all(r is not None for r in rets) and len({(len(r) if isinstance(r, list) else -1) for r in rets}) == 1:
            def join(a, b):
                if a is None or b is None:
                    return None
                return {"len": self.ub2(a["len"], b["len"]), "tot": (self.ub2(a["tot"], b["tot"]) if a.get("tot") is not None and b.get("tot") is not None else None)}
            ret = rets[0]
            for r in rets[1:]:
                ret = [join(x, y) for x, y in zip(ret, r)] if isinstance(ret, list) else join(ret, r)
        # callee parameter symbols -> caller argument values; callee branch atoms over unmodified parameters -> the caller's condition
        mapping = []
        defaults = {}
        for x, d in zip(reversed(a.posonlyargs + a.args), reversed(a.defaults)):
            defaults[x.arg] = d
        arg_nodes: Dict[str, ast.AST] = {}
        for p_ in params + [x.arg for x in a.kwonlyargs]:
            if p_ == prog_param:
                continue
            node = bound_args.get(p_, defaults.get(p_))
            if node is None:
                continue
            if isinstance(node, Val):
                numv, lenv = node.num, node.length
            else:
                numv, lenv = self.num(node, st), self.length(node, st)
                arg_nodes[p_] = node
                if isinstance(node, ast.Name) and (node.id + "#tot") in st.vars:
                    mapping.append((z3.Real(f"len:{p_}#tot|"), st.vars[node.id + "#tot"]))
            if numv is not None:
                mapping.append((z3.Real(f"{p_}@0"), numv))
            if lenv is not None:
                mapping.append((z3.Real(f"len:{p_}|{p_}@0"), lenv))

        class Rename(ast.NodeTransformer):
            def visit_Name(self_, n):
                return arg_nodes[n.id] if n.id in arg_nodes else n
        untranslated = []
        for aname, (node, vers) in sub.atom_nodes.items():
            names = set(vers)
            if names and all((n in arg_nodes or n in ("isinstance", "str", "list", "dict", "tuple", "len")) and vers[n] == 0 for n in names) and any(n in arg_nodes for n in names):
                import copy
                mapping.append((z3.Bool(aname), self.cond(Rename().visit(copy.deepcopy(node)), st)))
            else:
                untranslated.append(aname)

        def carry(e):
            if e is None:
                return None
            u = self.upper_over(e, untranslated)
            if u is None:
                return None
            return z3.substitute(u, *mapping) if mapping else u
        delta = carry(delta)
        if delta is None:
            self.ctxs[cname].tainted = f"steps inside {callee}() depend on conditions the caller cannot see"
            return st
        if ret is not None:
            conv = lambda r: None if r is None else ({"len": carry(r["len"]), "tot": carry(r.get("tot"))} if carry(r["len"]) is not None else None)
            self.ret_abs[id(call)] = [conv(r) for r in ret] if isinstance(ret, list) else conv(ret)
        for h in sub.hyps:
            self.hyps.append(z3.substitute(h, *mapping) if mapping else h)
        self.atom_birth.update(sub.atom_birth)
        if is_closure:
            delta = delta * self.closures[v.id][cname]
        self.note(f"line {line}: {callee}() has no declared step contract; inferred from its body: steps <= {str(z3.simplify(delta))[:160]}")
        return self.advance(st, cname, delta, line, cond)

    def infer_number(self, call: ast.Call, st: State):
        """x = helper(args) where helper is a function of the library that computes a number from numbers and lengths (step
        arithmetic moved into a helper): the returned number as an expression of the arguments, from the helper's body"""
        if self.depth >= 3:
            return None
        try:
            fn = self.find_callee(call.func.id)
        except LookupError:
            return None
        if fn is None or any(isinstance(n, (ast.For, ast.While, ast.With, ast.Try)) for n in ast.walk(fn)):
            return None                    # straight-line / branching helpers only
        a = fn.args
        params = [x.arg for x in a.posonlyargs + a.args]
        bound_args = self.bind(call, params, st)
        sub = StepExec(self.sess, self.module, fn, self.contracts)
        sub.fresh, sub.requires, sub.externals, sub.find_callee = self.fresh, {}, {}, self.find_callee
        sub.depth = self.depth + 1
        sub.silent = 1
        try:
            sub.run_function({})
        except Unsupported:
            return None
        vals = []
        for e, rv in zip(sub.returns, sub.return_values):
            if z3.is_false(z3.simplify(e.guard)):
                continue
            if rv is None:
                return None
            v = sub.num(rv, e)
            if v is None or sub.opaque_in(v):
                return None
            vals.append((e.guard, v))
        if not vals:
            return None
        out = vals[-1][1]
        for g, v in reversed(vals[:-1]):
            out = z3.If(g, v, out)
        mapping = []
        defaults = {}
        for x, d in zip(reversed(a.posonlyargs + a.args), reversed(a.defaults)):
            defaults[x.arg] = d
        for p_ in params + [x.arg for x in a.kwonlyargs]:
            node = bound_args.get(p_, defaults.get(p_))
            if node is None:
                continue
            numv = node.num if isinstance(node, Val) else self.num(node, st)
            lenv = node.length if isinstance(node, Val) else self.length(node, st)
            if numv is not None:
                mapping.append((z3.Real(f"{p_}@0"), numv))
            if lenv is not None:
                mapping.append((z3.Real(f"len:{p_}|{p_}@0"), lenv))
        # only numbers computed from the parameters (their values and lengths) by numeric tests: nothing else is a "count"
        allowed = {f"{p_}@0" for p_ in params + [x.arg for x in a.kwonlyargs]} | {f"len:{p_}|{p_}@0" for p_ in params + [x.arg for x in a.kwonlyargs]}

        def free(x, acc):
            if z3.is_const(x) and x.decl().kind() == z3.Z3_OP_UNINTERPRETED:
                acc.add(str(x))
            for c in x.children():
                free(c, acc)
            return acc
        if any(self.has_atoms(v, -1) for _, v in vals) or not free(out, set()) <= allowed or not free(out, set()):
            return None
        out = z3.substitute(out, *mapping) if mapping else out
        for h in sub.hyps:
            self.hyps.append(z3.substitute(h, *mapping) if mapping else h)
        self.note(f"{call.func.id}() returns a number computed from its arguments; taken from its body: {str(z3.simplify(out))[:120]}")
        return out

    def upper_over(self, e, atom_names: List[str]):
        """an upper bound of e that does not depend on the named (callee-local) atoms"""
        if not atom_names:
            return e
        names = set(atom_names)

        def has(x):
            seen, todo = set(), [x]
            while todo:
                y = todo.pop()
                if y.get_id() in seen:
                    continue
                seen.add(y.get_id())
                if z3.is_const(y) and z3.is_bool(y) and str(y) in names:
                    return True
                todo.extend(y.children())
            return False

        def up(d):
            if not has(d):
                return d
            k = d.decl().kind()
            if k == z3.Z3_OP_ITE:
                a_, b_ = up(d.arg(1)), up(d.arg(2))
                if a_ is None or b_ is None:
                    return None
                return z3.If(d.arg(0), a_, b_) if not has(d.arg(0)) else self.ub2(a_, b_)
            if k == z3.Z3_OP_ADD:
                parts = [up(c) for c in d.children()]
                return None if any(p_ is None for p_ in parts) else z3.Sum(parts)
            if k == z3.Z3_OP_MUL and d.num_args() == 2 and not has(d.arg(0)):
                u = up(d.arg(1))
                return None if u is None else d.arg(0) * u          # the other factor is a size or a count: non-negative
            return None
        return up(z3.simplify(e))

    def size_of(self, node: Optional[ast.AST], st: State):
        """size abstraction of a returned expression: {'len', 'tot'} for a container this function sized, a list for a tuple"""
        if node is None:
            return None
        if isinstance(node, ast.Tuple):
            return [self.size_of(e, st) for e in node.elts]
        if isinstance(node, ast.Call) and isinstance(node.func, ast.Name) and node.func.id in ("sorted", "list", "tuple") and node.args:
            return self.size_of(node.args[0], st)
        if isinstance(node, ast.Name) and st.kind.get(node.id) in ("len", "gen"):
            return {"len": st.vars[node.id], "tot": st.vars.get(node.id + "#tot")}
        return None

    def bind(self, call: ast.Call, params: List[str], st: State) -> Dict[Any, Any]:
        """argument name (or position) -> AST node or pre-evaluated Val (entries of a `**record`)"""
        out: Dict[Any, Any] = {}
        for i, x in enumerate(call.args):
            out[params[i] if i < len(params) else i] = x
        for kw in call.keywords:
            if kw.arg:
                out[kw.arg] = kw.value
            elif isinstance(kw.value, ast.Name) and kw.value.id in self.records:
                for k, v in self.records[kw.value.id].items():
                    out.setdefault(k, v)
            else:
                out[f"**{ast.unparse(kw.value)}"] = kw.value
        return out

    def carried(self, v: Any, st: State, depth: int = 0) -> List[Tuple[str, Any, Tuple[str, ...]]]:
        """the Progress contexts an argument carries: [(context, condition under which it really is the object, path into records)]"""
        if isinstance(v, Val):
            out = []
            if v.ctx is not None:
                out.append((v.ctx[0], v.ctx[1], ()))
            if v.rec is not None and v.rec in self.records and depth < 3:
                for k, w in self.records[v.rec].items():
                    out.extend((c, cond, (k,) + path) for c, cond, path in self.carried(w, st, depth + 1))
            return out
        if isinstance(v, ast.Name) and v.id in self.closures:
            return [(c, None, ()) for c in self.closures[v.id] if c in self.ctxs]
        if isinstance(v, ast.Name) and v.id in self.records and depth < 3:
            out = []
            for k, w in self.records[v.id].items():
                out.extend((c, cond, (k,) + path) for c, cond, path in self.carried(w, st, depth + 1))
            return out
        if isinstance(v, (ast.Tuple, ast.List)):
            out = []
            for i, e in enumerate(v.elts):
                out.extend((c, cond, (str(i),) + path) for c, cond, path in self.carried(e, st, depth + 1))
            return out
        got = self._ctx_of(v, st) if isinstance(v, ast.AST) else None
        return [(got[0], got[1], ())] if got else []

    def _ctx_of(self, a: ast.AST, st: Optional[State] = None):
        if isinstance(a, ast.Name) and a.id in self.ctxs:
            return (a.id, None)
        if isinstance(a, ast.IfExp) and isinstance(a.body, ast.Name) and a.body.id in self.ctxs and isinstance(a.orelse, ast.Constant) and a.orelse.value is None:
            return (a.body.id, self.cond(a.test, st) if st is not None else None)
        return None

    def calls_in(self, node: ast.AST) -> List[ast.Call]:
        out = []

        def walk(n):
            if isinstance(n, (ast.Lambda, ast.FunctionDef)):
                return
            for ch in ast.iter_child_nodes(n):
                walk(ch)
            if isinstance(n, ast.Call):
                out.append(n)
        walk(node)
        return out

    def effects(self, node: Optional[ast.AST], st: State, line: int) -> State:
        if node is None:
            return st
        for sub in ast.walk(node):
            if isinstance(sub, (ast.ListComp, ast.SetComp, ast.DictComp, ast.GeneratorExp, ast.Lambda)):
                for n in ast.walk(sub):
                    if isinstance(n, ast.Name) and n.id in self.ctxs and isinstance(n.ctx, ast.Load) and not (isinstance(sub, ast.GeneratorExp) and False):
                        # stepped an unknown number of times (once per item / per call of the lambda)
                        if any(isinstance(c, ast.Call) and ((isinstance(c.func, ast.Attribute) and isinstance(c.func.value, ast.Name) and c.func.value.id == n.id)
                                                           or any(isinstance(a, ast.Name) and a.id == n.id for a in list(c.args) + [k.value for k in c.keywords])) for c in ast.walk(sub)):
                            self.ctxs[n.id].tainted = self.ctxs[n.id].tainted or f"used inside a comprehension or lambda at line {line}"
        for c in self.calls_in(node):
            st = self.call_effect(c, st, line)
        return st

    LAZY = ("map", "enumerate", "zip", "iter", "reversed", "filter")

    def gen_roots(self, node: ast.AST, st: State) -> List[str]:
        """the one-shot iterators (generator expressions, map/imap objects) that iterating `node` consumes"""
        if isinstance(node, ast.Name):
            if st.kind.get(node.id) == "gen":
                return [node.id] + [r for r in self.src_of.get(node.id, []) if st.kind.get(r) == "gen"]
            return []
        if isinstance(node, ast.Call):
            f = node.func
            fname = f.id if isinstance(f, ast.Name) else (f.attr if isinstance(f, ast.Attribute) else "")
            if fname in ("map", "_map", "imap", "imap_unordered") and len(node.args) >= 2:
                return self.gen_roots(node.args[1], st)
            if fname in ("enumerate", "iter", "list", "tuple", "sorted") and node.args:
                return self.gen_roots(node.args[0], st)
        return []

    def assign(self, name: str, value: Optional[ast.AST], st: State) -> State:
        st = st.copy()
        if value is None:
            return st
        val, kind = None, None
        is_call = isinstance(value, ast.Call)
        fname = (value.func.id if isinstance(value.func, ast.Name) else getattr(value.func, "attr", "")) if is_call else ""
        self.records.pop(name, None)
        entries = None
        if isinstance(value, ast.Dict) and not value.keys:
            # an empty dict this function fills: its size, and (name#tot) the summed sizes of the containers stored in it
            self.bump(st, name)
            self.bump(st, name + "#tot")
            st.vars[name], st.kind[name] = z3.RealVal(0), "len"
            st.vars[name + "#tot"], st.kind[name + "#tot"] = z3.RealVal(0), "len"
            return st
        if isinstance(value, ast.Call) and isinstance(value.func, ast.Name) and id(value) not in self.ret_abs and not any(self.carried(a, st) for a in list(value.args) + [k.value for k in value.keywords]):
            got = self.infer_number(value, st)
            if got is not None:
                self.bump(st, name)
                st.vars[name], st.kind[name] = got, "num"
                return st
        if isinstance(value, ast.Call) and id(value) in self.ret_abs and self.ret_abs[id(value)] is not None and not isinstance(self.ret_abs[id(value)], list):
            self.bind_ret(st, name, self.ret_abs[id(value)])
            return st
        if is_call and isinstance(value.func, ast.Name) and fname == "dict" and not value.args and all(k.arg for k in value.keywords):
            entries = [(k.arg, k.value) for k in value.keywords]
        elif isinstance(value, ast.Dict) and all(isinstance(k, ast.Constant) and isinstance(k.value, str) for k in value.keys):
            entries = [(k.value, v) for k, v in zip(value.keys, value.values)]
        if entries is not None:
            self.records[name] = {k: Val(num=self.num(v, st) if not self._ctx_of(v) else None, length=self.length(v, st), ctx=self._ctx_of(v, st),
                                         rec=v.id if isinstance(v, ast.Name) and v.id in self.records else None, text=ast.unparse(v)) for k, v in entries}
            self.bump(st, name)
            return st
        if isinstance(value, (ast.List, ast.Tuple, ast.ListComp)) or (is_call and isinstance(value.func, ast.Name) and fname in ("list", "tuple", "sorted", "array", "linspace") and value.args):
            val, kind = self.length(value, st), "len"
        elif isinstance(value, ast.GeneratorExp) or (is_call and isinstance(value.func, ast.Name) and fname in self.LAZY and value.args) \
                or (is_call and isinstance(value.func, ast.Attribute) and fname in ("imap", "imap_unordered")):
            val, kind = self.length(value, st), "gen"
            roots = self.gen_roots(value, st) if is_call else []
        elif isinstance(value, ast.BinOp) and isinstance(value.op, ast.Add) and all(isinstance(x, ast.Name) and st.kind.get(x.id) == "len" for x in (value.left, value.right)):
            val, kind = st.vars[value.left.id] + st.vars[value.right.id], "len"
        elif isinstance(value, ast.Name) and st.kind.get(value.id) == "len":
            # an alias of a list this function builds: both names are forgotten (no alias tracking)
            self.bump(st, value.id)
        elif isinstance(value, (ast.Compare, ast.BoolOp)) or (isinstance(value, ast.UnaryOp) and isinstance(value.op, ast.Not)) or (isinstance(value, ast.Constant) and isinstance(value.value, bool)):
            val, kind = self.cond(value, st), "bool"
        elif isinstance(value, ast.IfExp) and isinstance(value.orelse, ast.Constant) and value.orelse.value is None and self.num(value.body, st) is not None:
            # `x if c else None`: the number x, present iff c
            val, kind = self.num(value.body, st), "num"
            present = self.cond(value.test, st)
        else:
            v = self.num(value, st)
            if v is not None:
                val, kind = v, "num"
        self.bump(st, name)
        st.present.pop(name, None)
        self.src_of.pop(name, None)
        if val is None and not isinstance(value, (ast.Constant, ast.Dict, ast.Lambda)):
            # not a value the analysis follows: if a total or a step count later depends on it, the question is left undecided
            self.opaque.add(f"{name}@{st.ver.get(name, 0)}")
            self.opaque_why[f"{name}@{st.ver.get(name, 0)}"] = ast.unparse(value)[:60]
        if val is not None:
            st.vars[name], st.kind[name] = val, kind
            if kind == "gen" and is_call:
                self.src_of[name] = roots
            if kind == "num" and isinstance(value, ast.IfExp) and isinstance(value.orelse, ast.Constant) and value.orelse.value is None:
                st.present[name] = present
        return st

    def bind_ret(self, st: State, name: str, ab: Dict[str, Any]):
        """name = callee(...): a container whose size (and nested total) is bounded by what the callee's body yields"""
        self.bump(st, name)
        self.bump(st, name + "#tot")
        v = self.new(f"len:{name}@ret", True)
        self.hyps.append(v <= ab["len"])
        st.vars[name], st.kind[name] = v, "len"
        if ab.get("tot") is not None:
            t = self.new(f"tot:{name}@ret", True)
            self.hyps.append(t <= ab["tot"])
            st.vars[name + "#tot"], st.kind[name + "#tot"] = t, "len"

    def stmt(self, s: ast.stmt, st: State, loop: Optional[dict]) -> State:
        ln = s.lineno
        if isinstance(s, (ast.Pass, ast.Import, ast.ImportFrom, ast.Global, ast.Nonlocal, ast.Assert)):
            return st
        if isinstance(s, ast.FunctionDef):
            used = sorted({n.id for n in ast.walk(s) if isinstance(n, ast.Name) and n.id in self.ctxs})
            if used:
                self.closures[s.name] = self.closure_steps(s, st, used)
            return st
        if isinstance(s, ast.ClassDef):
            for n in ast.walk(s):
                if isinstance(n, ast.Name) and n.id in self.ctxs:
                    self.ctxs[n.id].tainted = f"captured by the nested class {s.name} at line {ln}"
            return st
        if isinstance(s, ast.Expr):
            return self.effects(s.value, st, ln)
        if isinstance(s, (ast.Assign, ast.AnnAssign)):
            st = self.effects(s.value, st, ln)
            targets = s.targets if isinstance(s, ast.Assign) else [s.target]
            if s.value is not None and not (isinstance(s.value, ast.Call) or (isinstance(s.value, ast.Dict))):
                # the Progress object gets a second name / is stored somewhere: steps taken through that are not seen
                for n in ast.walk(s.value):
                    if isinstance(n, ast.Name) and n.id in self.ctxs and not any(isinstance(c, ast.Call) and n in ast.walk(c) for c in ast.walk(s.value)):
                        self.ctxs[n.id].tainted = self.ctxs[n.id].tainted or f"aliased or stored by the assignment at line {ln}"
            for t in targets:
                if isinstance(t, (ast.Attribute, ast.Subscript)) and isinstance(s.value, ast.Name) and s.value.id in self.ctxs:
                    self.ctxs[s.value.id].tainted = self.ctxs[s.value.id].tainted or f"stored in {ast.unparse(t)} at line {ln}"
            if len(targets) == 1 and isinstance(targets[0], ast.Name):
                return self.assign(targets[0].id, s.value, st)
            st = st.copy()
            if len(targets) == 1 and isinstance(targets[0], ast.Tuple) and isinstance(s.value, ast.Call) and isinstance(self.ret_abs.get(id(s.value)), list) \
                    and len(self.ret_abs[id(s.value)]) == len(targets[0].elts) and all(isinstance(e, ast.Name) for e in targets[0].elts):
                for e, ab in zip(targets[0].elts, self.ret_abs[id(s.value)]):
                    if ab is not None:
                        self.bind_ret(st, e.id, ab)
                    else:
                        self.bump(st, e.id)
                return st
            for t in targets:
                if isinstance(t, ast.Subscript) and isinstance(t.value, ast.Name) and st.kind.get(t.value.id) == "len" and (t.value.id + "#tot") in st.vars:
                    # D[k] = v: one more entry (keys assumed distinct -- an upper bound otherwise)
                    st.vars[t.value.id] = st.vars[t.value.id] + 1
                    continue
                if isinstance(t, ast.Subscript) and isinstance(t.value, ast.Subscript) and isinstance(t.value.value, ast.Name) and (t.value.value.id + "#tot") in st.vars:
                    # D[a][b] = v: one more entry in one of the nested containers
                    st.vars[t.value.value.id + "#tot"] = st.vars[t.value.value.id + "#tot"] + 1
                    continue
                if isinstance(t, ast.Subscript) and isinstance(t.value, ast.Name) and t.value.id in self.records:
                    key = t.slice.value if isinstance(t.slice, ast.Constant) else None
                    if key is None or self.records[t.value.id].get(key, Val()).ctx is not None or self._ctx_of(s.value):
                        for c, _, _ in self.carried(t.value, st):
                            self.ctxs[c].tainted = f"record {t.value.id} rewritten at line {ln}"
                    else:
                        self.records[t.value.id][key] = Val(num=self.num(s.value, st), length=self.length(s.value, st), text=ast.unparse(s.value))
                for n in ast.walk(t):
                    if isinstance(n, ast.Name) and isinstance(n.ctx, ast.Store):
                        self.bump(st, n.id)
            return st
        if isinstance(s, ast.AugAssign):
            st = self.effects(s.value, st, ln)
            if isinstance(s.target, ast.Name):
                name = s.target.id
                cur = self.num(ast.Name(id=name, ctx=ast.Load()), st)
                rhs = self.num(s.value, st)
                st = st.copy()
                if cur is not None and rhs is not None and isinstance(s.op, (ast.Add, ast.Sub, ast.Mult)):
                    new = cur + rhs if isinstance(s.op, ast.Add) else (cur - rhs if isinstance(s.op, ast.Sub) else cur * rhs)
                    self.bump(st, name)
                    st.vars[name], st.kind[name] = new, "num"
                elif st.kind.get(name) == "len" and isinstance(s.op, ast.Add):
                    st.vars[name] = st.vars[name] + self.length(s.value, st)
                else:
                    self.bump(st, name)
            return st
        if isinstance(s, ast.Delete):
            st = st.copy()
            for t in s.targets:
                if isinstance(t, ast.Name):
                    self.bump(st, t.id)
            return st
        if isinstance(s, ast.If):
            st = self.effects(s.test, st, ln)
            c = self.cond(s.test, st)
            a, b = st.copy(), st.copy()
            a.guard, b.guard = z3.And(st.guard, c), z3.And(st.guard, z3.Not(c))
            a = self.block(s.body, a, loop)
            b = self.block(s.orelse, b, loop)
            return self.merge(c, a, b)
        if isinstance(s, ast.Return):
            st = self.effects(s.value, st, ln)
            if self.ret_stack:
                self.ret_stack[-1].append(st)           # a return of a nested function
            else:
                self.exits(st, ln, f"the {self.ordinal('return', ln)}")
                if not self.probe:
                    self.returns.append(st)
                    self.return_values.append(s.value)
            out = st.copy()
            out.guard = z3.BoolVal(False)
            return out
        if isinstance(s, ast.Raise):
            self.exits(st, ln, f"the {self.ordinal('raise', ln)}")
            out = st.copy()
            out.guard = z3.BoolVal(False)
            return out
        if isinstance(s, (ast.Break, ast.Continue)):
            if loop is None:
                raise Unsupported(f"{type(s).__name__} outside a loop at line {ln}")
            loop["break" if isinstance(s, ast.Break) else "continue"].append(st)
            out = st.copy()
            out.guard = z3.BoolVal(False)
            return out
        if isinstance(s, ast.With):
            return self.with_(s, st, loop)
        if isinstance(s, ast.For):
            st = self.effects(s.iter, st, ln)
            trip = self.length(s.iter, st)
            st = st.copy()
            for n in ast.walk(s.target):
                if isinstance(n, ast.Name):
                    self.bump(st, n.id)
            nested = None
            if isinstance(s.iter, ast.Name) and isinstance(s.target, ast.Name):
                uses_inner = any(isinstance(n, ast.Subscript) and isinstance(n.value, ast.Name) and n.value.id == s.iter.id and isinstance(n.slice, ast.Name) and n.slice.id == s.target.id
                                 for b in s.body for n in ast.walk(b))
                if uses_inner and (s.iter.id + "#tot") not in st.vars and s.iter.id in self.param_names and st.ver.get(s.iter.id, 0) == 0:
                    # a parameter that is a container of containers: its nested total is one more symbol of the summary
                    st.vars[s.iter.id + "#tot"], st.kind[s.iter.id + "#tot"] = self.sym(f"len:{s.iter.id}#tot|", True), "len"
                if uses_inner and (s.iter.id + "#tot") in st.vars:
                    nested = (s.iter.id, s.target.id)
            st = self.loop(s.body, trip, st, ln, targets=[n.id for n in ast.walk(s.target) if isinstance(n, ast.Name)], consumes=self.gen_roots(s.iter, st), nested=nested)
            return self.block(s.orelse, st, loop)
        if isinstance(s, ast.While):
            return self.while_(s, st, loop)
        if isinstance(s, ast.Try):
            body_end = self.block(s.body, st, loop)
            changed = self.assigned_names(s.body)
            outs = [body_end]
            for h in s.handlers:
                hs = st.copy()
                for n in changed:
                    self.bump(hs, n)
                if h.name:
                    self.bump(hs, h.name)
                hs.cnt = dict(body_end.cnt) if not z3.is_false(z3.simplify(body_end.guard)) else dict(st.cnt)      # upper bound: steps only grow
                for k in hs.cnt:
                    hs.cnt[k] = self.ub2(hs.cnt[k], st.cnt[k])
                hs.guard = z3.And(st.guard, self.new_bool("raised"))
                outs.append(self.block(h.body, hs, loop))
            cur = self.block(s.orelse, outs[0], loop)
            for o in outs[1:]:
                cur = self.merge(self.new_bool("handler"), o, cur)
            return self.block(s.finalbody, cur, loop)
        raise Unsupported(f"{type(s).__name__} at line {ln}")

    def closure_steps(self, fn: ast.FunctionDef, st: State, used: List[str]) -> Dict[str, Any]:
        """upper bound of the steps one call of a nested function takes on each Progress context it captures"""
        sub = st.copy()
        sub.guard = z3.BoolVal(True)
        a = fn.args
        for x in a.posonlyargs + a.args + a.kwonlyargs:
            self.bump(sub, x.arg)
        for n in self.assigned_names(fn.body):
            self.bump(sub, n)
        # the closure runs later: everything this function may still rebind is unknown inside it
        for n in self.assigned_names(self.fn.body):
            if n in sub.vars:
                self.bump(sub, n)
        c0 = {c: self.new(f"steps:{c}@call", True) for c in used}
        for c in used:
            sub.cnt[c] = c0[c]
        born = next(self.fresh)
        closed_before = {c: self.ctxs[c].closed for c in used}
        self.silent += 1
        self.ret_stack.append([])
        try:
            for c in used:
                self.ctxs[c].closed = False
            end = self.block(fn.body, sub, None)
            ends = [end] + self.ret_stack[-1]
        finally:
            self.ret_stack.pop()
            self.silent -= 1
            for c in used:
                self.ctxs[c].closed = closed_before[c]
        out = {}
        for c in used:
            dmax = None
            for e in ends:
                if c not in e.cnt:
                    continue
                u = self.upper(self.delta_of(e.guard, e.cnt[c], c0[c]), born)
                if u is None or self.mentions(u, list(c0.values())):
                    self.ctxs[c].tainted = f"steps per call of the nested function {fn.name} (line {fn.lineno}) are not bounded by the analysis"
                    u = z3.RealVal(0)
                dmax = u if dmax is None else self.ub2(dmax, u)
            out[c] = z3.simplify(dmax) if dmax is not None else z3.RealVal(0)
        self.note(f"line {fn.lineno}: nested function {fn.name}() steps " + ", ".join(f"`{c}` by at most {out[c]}" for c in used) + " per call")
        return out

    def ordinal(self, kind: str, line: int) -> str:
        """'raise #3': position among the statements of that kind in the function, stable when lines move"""
        nodes = sorted({n.lineno for n in ast.walk(self.fn) if isinstance(n, ast.Raise if kind == "raise" else ast.Return)})
        return f"{kind} #{1 + nodes.index(line)}" if line in nodes else f"{kind}"

    def note(self, text: str):
        if text not in self.notes:
            self.notes.append(text)

    def new_bool(self, base: str):
        return z3.Bool(f"{base}!{next(self.fresh)}")

    def ub2(self, a, b):
        return a if z3.eq(a, b) else z3.If(a >= b, a, b)

    def with_(self, s: ast.With, st: State, loop) -> State:
        prog_items = [it for it in s.items if isinstance(it.context_expr, ast.Call) and isinstance(it.context_expr.func, ast.Name) and it.context_expr.func.id == "Progress"]
        if not prog_items:
            for it in s.items:
                st = self.effects(it.context_expr, st, s.lineno)
                if it.optional_vars is not None:
                    st = st.copy()
                    for n in ast.walk(it.optional_vars):
                        if isinstance(n, ast.Name):
                            self.bump(st, n.id)
            return self.block(s.body, st, loop)
        it = prog_items[0]
        call = it.context_expr
        if len(s.items) != 1 or not isinstance(it.optional_vars, ast.Name):
            raise Unsupported(f"Progress context without a simple `as` name at line {s.lineno}")
        name = it.optional_vars.id
        tot_node = next((k.value for k in call.keywords if k.arg == "total"), call.args[1] if len(call.args) > 1 else None)
        total = z3.RealVal(1) if tot_node is None else self.num(tot_node, st)
        ctx = Ctx(name, total, s.lineno, 0)
        msg = call.args[0] if call.args else next((k.value for k in call.keywords if k.arg == "message"), None)
        ctx.label = f"`{name}` ({ast.unparse(msg)[:40] if msg is not None else 'Progress'})"
        if total is None:
            ctx.tainted = f"total={ast.unparse(tot_node)} is not a numeric expression the analysis tracks"
        if name in self.ctxs and self.ctxs[name].tainted and not self.silent:
            self.taints.append(f"`{name}` (line {self.ctxs[name].line}): {self.ctxs[name].tainted}")
        self.ctxs[name] = ctx
        st = st.copy()
        st.cnt[name] = z3.RealVal(0)
        if total is not None:
            self.oblige("exc-free", st, total >= 1, s.lineno, f"{ctx.label}: total = {ast.unparse(tot_node) if tot_node is not None else 1} >= 1 on entry (progress = i / total)")
        st = self.block(s.body, st, loop)
        self.exits_one(ctx, st, s.end_lineno or s.lineno, "the end of the block")
        # the object outlives the block: __exit__ has taken one more step, and whatever steps it later are checked as they happen
        st = st.copy()
        st.cnt[name] = st.cnt[name] + 1
        ctx.closed = True
        return st

    def finish(self):
        for c in self.ctxs.values():
            if c.tainted:
                self.taints.append(f"`{c.name}` (line {c.line}): {c.tainted}")

    def exits_one(self, c: Ctx, st: State, line: int, how: str):
        if c.tainted is None and c.total is not None and not c.closed:
            self.oblige("exc-free", st, st.cnt[c.name] + 1 <= c.total, line, f"{c.label}: steps taken + 1 <= total at {how}")

    # ------------------------------------------------------------------ loops
    def loop(self, body: List[ast.stmt], trip, st: State, line: int, targets: List[str], consumes: Optional[List[str]] = None, nested=None) -> State:
        """summary of `trip` iterations of body by the inductive invariant
               v == v0 + k*d   for every tracked quantity the body changes by a path-independent amount d (else v is forgotten)
               steps <= c0 + k*dmax   (== if the body always takes the same number of steps)
        pass 1 (no obligations) finds d and dmax from one symbolic iteration; pass 2 re-executes the body under the invariant
        with k < trip and emits the obligations that sit inside the body (raise / return / nested contexts)."""
        changed = [n for n in self.assigned_names(body) if n not in targets]

        def iteration(install: Optional[dict]):
            entry = st.copy()
            pre: Dict[str, Any] = {}
            for n in changed:
                if n in entry.vars and entry.kind[n] in ("num", "len", "gen"):
                    pre[n] = self.new(f"{n}@iter", entry.kind[n] != "num")
                    entry.vars[n] = pre[n]
                else:
                    self.bump(entry, n)
            cpre = {}
            for name in entry.cnt:
                cpre[name] = self.new(f"steps:{name}@iter", True)
                entry.cnt[name] = cpre[name]
            k = self.new("k", True)
            mark = len(self.scoped)
            self.scoped.append(k + 1 <= trip)
            if install is not None:
                for n, (c0, c1) in install["d"].items():
                    if z3.is_rational_value(z3.simplify(c1)) and z3.simplify(c1).as_fraction() == 0:
                        self.scoped.append(pre[n] == st.vars[n] + k * c0)
                    else:
                        self.scoped.append(z3.And(pre[n] >= st.vars[n] + k * c0, pre[n] <= st.vars[n] + k * c0 + c1 * TOT)) if TOT is not None else None
                for n, u in install["ub"].items():
                    if n not in install["d"] and n in pre:
                        self.scoped.append(pre[n] <= st.vars[n] + k * u)
                for name, ((c0, c1), exact) in install["c"].items():
                    flat = z3.is_rational_value(z3.simplify(c1)) and z3.simplify(c1).as_fraction() == 0
                    hi = st.cnt[name] + k * c0 + (c1 * TOT if (not flat and TOT is not None) else 0)
                    self.scoped.append(cpre[name] == st.cnt[name] + k * c0 if (exact and flat) else z3.And(cpre[name] <= hi, cpre[name] >= st.cnt[name]))
            inner = {"break": [], "continue": []}
            end = self.block(body, entry, inner)
            del self.scoped[mark:]
            return pre, cpre, k, end, inner

        born = next(self.fresh)
        tsym = None
        TOT = st.vars.get(nested[0] + "#tot") if nested is not None else None
        if nested is not None:
            # `for a in D` over a container of containers: t stands for len(D[a]) in this iteration; the t's of all iterations add
            # up to D#tot, so a per-iteration change c0 + c1*t sums to c0*trip + c1*(D#tot)
            tsym = self.new(f"len:{nested[0]}[{nested[1]}]", True)
            self.inner[nested] = tsym
        self.silent += 1
        self.probe += 1
        try:
            pre, cpre, k, end, inner = iteration(None)
        finally:
            self.silent -= 1
            self.probe -= 1
        ends = [e for e in [end] + inner["continue"] if not z3.is_false(z3.simplify(e.guard))]
        breaks = [e for e in inner["break"] if not z3.is_false(z3.simplify(e.guard))]
        internal = list(pre.values()) + list(cpre.values()) + [k]
        summary = {"d": {}, "c": {}, "ub": {}}
        for n in pre:
            ds = [(e.guard, self.delta_of(e.guard, e.vars[n], pre[n])) for e in ends + breaks if n in e.vars and e.kind.get(n) == st.kind[n]]
            if st.kind[n] == "len" and len(ds) == len(ends + breaks) and ds:
                ups = [self.upper(d, born) for _, d in ds]
                if all(u is not None and not self.mentions(u, internal + ([tsym] if tsym is not None else [])) for u in ups):
                    u = ups[0]
                    for w in ups[1:]:
                        u = self.ub2(u, w)
                    summary["ub"][n] = z3.simplify(u)          # a list grows by at most this much per iteration
            ds = ds[:len(ends)]
            if breaks or len(ds) != len(ends) or not ds:
                continue
            d0 = ds[0][1]
            if not self.mentions(d0, internal) and not self.has_atoms(d0, born) and all(self.always_eq(g, d, d0) for g, d in ds[1:]):
                lin = self.linear_in(d0, tsym)
                if lin is not None:
                    summary["d"][n] = lin
        for name in st.cnt:
            ds = [self.delta_of(e.guard, e.cnt[name], cpre[name]) for e in ends + breaks if name in e.cnt]
            dmax = None
            for d in ds:
                u = self.upper(d, born)
                if u is None or self.mentions(u, internal):
                    if name in self.ctxs:
                        self.ctxs[name].tainted = f"steps per iteration of the loop at line {line} are not bounded by the analysis"
                    u = z3.RealVal(0)
                dmax = u if dmax is None else self.ub2(dmax, u)
            dmax = z3.simplify(dmax) if dmax is not None else z3.RealVal(0)
            exact = not breaks and len({d.sexpr() for d in ds}) <= 1 and all(not self.has_atoms(d, born) for d in ds)
            lin = self.linear_in(dmax, tsym)
            if lin is None:
                if name in self.ctxs:
                    self.ctxs[name].tainted = f"steps per iteration of the loop at line {line} depend non-linearly on the size of a nested container"
                lin = (z3.RealVal(0), z3.RealVal(0))
            summary["c"][name] = (lin, exact)
        if not self.silent:
            iteration(summary)                       # pass 2: obligations inside the body, under the invariant
        out = st.copy()
        for n in targets:
            self.bump(out, n)
        # j: iterations started.  Without `break` the loop runs to exhaustion (j == trip); with it, j <= trip and the last one may be partial
        if breaks:
            j = self.new("iterations", True)
            self.hyps.append(j <= trip)
        else:
            j = trip
        if nested is not None:
            self.inner.pop(nested, None)
        for n in changed:
            if n in summary["d"] and not breaks:
                c0, c1 = summary["d"][n]
                out.vars[n] = st.vars[n] + j * c0 + (c1 * TOT if TOT is not None else 0)
            elif n in summary["ub"]:
                v = self.new(f"len:{n}@after", True)
                self.hyps.append(v <= st.vars[n] + j * summary["ub"][n])
                self.bump(out, n)
                out.vars[n], out.kind[n] = v, "len"
            else:
                self.bump(out, n)
        for name, ((c0, c1), exact) in summary["c"].items():
            total_delta = j * c0 + (c1 * TOT if TOT is not None else 0)
            if exact:
                out.cnt[name] = st.cnt[name] + total_delta
            else:
                v = self.new(f"steps:{name}@after", True)
                self.hyps.append(z3.And(v <= st.cnt[name] + total_delta, v >= st.cnt[name]))
                out.cnt[name] = v
        for g in consumes or []:
            if out.kind.get(g) == "gen":
                rem = self.new(f"remaining:{g}", True)
                self.hyps.append(rem <= st.vars[g] - j)          # every iteration took at least one item out of the one-shot iterator
                out.vars[g] = rem
        return out

    def linear_in(self, d, t):
        """(c0, c1) with d == c0 + c1*t, c0 and c1 free of t (validated); (d, 0) when there is no t"""
        if t is None or not self.mentions(d, [t]):
            return (d, z3.RealVal(0))
        c0 = z3.simplify(z3.substitute(d, (t, z3.RealVal(0))))
        c1 = z3.simplify(z3.substitute(d, (t, z3.RealVal(1))) - c0)
        if self.mentions(c0, [t]) or self.mentions(c1, [t]) or not self.always_eq(z3.BoolVal(True), d, c0 + c1 * t):
            return None
        return (c0, c1)

    def delta_of(self, guard, after, before_sym):
        """after - before_sym when `after` is before_sym + d with d free of before_sym (validated), else the plain difference"""
        d = z3.simplify(z3.substitute(after, (before_sym, z3.RealVal(0))))
        if not self.mentions(d, [before_sym]) and self.always_eq(guard, after, before_sym + d):
            return d
        return z3.simplify(after - before_sym)

    def has_atoms(self, e, since: int = -1) -> bool:
        """does e depend on a branch atom (or any uninterpreted boolean: raised!/handler!) born after `since`"""
        seen = set()
        todo = [e]
        while todo:
            x = todo.pop()
            if x.get_id() in seen:
                continue
            seen.add(x.get_id())
            if z3.is_const(x) and z3.is_bool(x) and x.decl().kind() == z3.Z3_OP_UNINTERPRETED and self.atom_birth.get(str(x), 1 << 60) > since:
                return True
            todo.extend(x.children())
        return False

    def mentions(self, e, syms) -> bool:
        names = {str(s) for s in syms}
        seen = set()
        todo = [e]
        while todo:
            x = todo.pop()
            if x.get_id() in seen:
                continue
            seen.add(x.get_id())
            if z3.is_const(x) and x.decl().kind() == z3.Z3_OP_UNINTERPRETED and str(x) in names:
                return True
            todo.extend(x.children())
        return False

    def always_eq(self, guard, a, b) -> bool:
        s = z3.Solver()
        s.set("timeout", 5000)
        s.add(*self.hyps)
        s.add(*self.scoped)
        s.add(guard, a != b)
        return s.check() == z3.unsat

    def upper(self, d, since: int = -1):
        """an upper bound of d that does not depend on branch atoms born after `since` (decisions taken inside one iteration)"""
        d = z3.simplify(d)
        if not self.has_atoms(d, since):
            return d
        k = d.decl().kind()
        if k == z3.Z3_OP_ITE:
            a, b = self.upper(d.arg(1), since), self.upper(d.arg(2), since)
            if a is None or b is None:
                return None
            return z3.If(d.arg(0), a, b) if not self.has_atoms(d.arg(0), since) else self.ub2(a, b)
        if k == z3.Z3_OP_ADD:
            parts = [self.upper(c, since) for c in d.children()]
            return None if any(p is None for p in parts) else z3.Sum(parts)
        if k == z3.Z3_OP_MUL and d.num_args() == 2 and z3.is_rational_value(d.arg(0)) and d.arg(0).as_fraction() >= 0:
            u = self.upper(d.arg(1), since)
            return None if u is None else d.arg(0) * u
        return None

    def while_(self, s: ast.While, st: State, loop) -> State:
        ln = s.lineno
        # idiom: `while True: try: x = it.next(...) except StopIteration: break ...`  ==  `for x in it`
        if isinstance(s.test, ast.Constant) and s.test.value is True and not s.orelse:
            tries = [t for t in s.body if isinstance(t, ast.Try)]
            if len(tries) == 1 and s.body[0] is tries[0]:
                t = tries[0]
                calls = self.calls_in(ast.Module(body=t.body, type_ignores=[]))
                its = {c.func.value.id for c in calls if isinstance(c.func, ast.Attribute) and c.func.attr in ("next", "__next__") and isinstance(c.func.value, ast.Name)}
                its |= {c.args[0].id for c in calls if isinstance(c.func, ast.Name) and c.func.id == "next" and len(c.args) == 1 and isinstance(c.args[0], ast.Name)}
                stop = [h for h in t.handlers if isinstance(h.type, ast.Name) and h.type.id == "StopIteration" and len(h.body) == 1 and isinstance(h.body[0], ast.Break)]
                if stop and len(its) == 1 and st.kind.get(next(iter(its))) == "gen" and not t.orelse and not t.finalbody:
                    it_name = next(iter(its))
                    trip = st.vars[it_name]
                    others = [h for h in t.handlers if h not in stop]
                    body2: List[ast.stmt] = []
                    if others:
                        body2.append(ast.Try(body=[x for x in t.body], handlers=others, orelse=[], finalbody=[], lineno=t.lineno, col_offset=0, end_lineno=t.end_lineno))
                    else:
                        body2.extend(t.body)
                    body2.extend(s.body[1:])
                    self.note(f"line {ln}: `while True` around next({it_name}) / `except StopIteration: break` read as one iteration per remaining item")
                    return self.loop(body2, trip, st, ln, targets=[], consumes=self.gen_roots(ast.Name(id=it_name, ctx=ast.Load()), st))
        spec = self.loop_invs.get(ast.unparse(s.test))
        if spec is not None and not s.orelse:
            return self.while_inv(s, st, spec)
        touches = any(isinstance(n, ast.Name) and n.id in self.ctxs for b in s.body for n in ast.walk(b))
        if touches:
            for n in {n.id for b in s.body for n in ast.walk(b) if isinstance(n, ast.Name) and n.id in self.ctxs}:
                self.ctxs[n].tainted = f"used inside the while loop at line {ln}"
        trip = self.new("while", True)
        out = self.loop(s.body, trip, st, ln, targets=[])
        return out

    def while_inv(self, s: ast.While, st: State, spec) -> State:
        """`while test: body` under a supplied invariant inv(V, C) over the numeric locals V[name] and the step counters C[name]:
        inv holds on entry (inv-init), is re-established by every path through the body from any state with inv and test
        (inv-step), and what is known afterwards is inv and not test."""
        ln = s.lineno
        inv, text = spec
        changed = self.assigned_names(s.body)

        class View:
            def __init__(v, state, what):
                v.state, v.what = state, what

            def __getitem__(v, name):
                if v.what == "cnt":
                    return v.state.cnt[name]
                val = self.num(ast.Name(id=name, ctx=ast.Load()), v.state)
                if val is None:
                    raise Unsupported(f"invariant of the loop at line {ln} mentions {name}, which is not numeric here")
                return val

        def havoc(base: State) -> State:
            h = base.copy()
            for n in changed:
                was_num = h.kind.get(n) == "num"
                self.bump(h, n)
                if was_num:
                    h.vars[n], h.kind[n] = self.new(f"{n}@loop"), "num"
            for c in h.cnt:
                h.cnt[c] = self.new(f"steps:{c}@loop", True)
            return h
        self.oblige("inv-init", st, inv(View(st, "num"), View(st, "cnt")), ln, f"loop invariant `{text}` holds on entry")
        entry = havoc(st)
        mark = len(self.scoped)
        self.scoped.append(inv(View(entry, "num"), View(entry, "cnt")))
        self.scoped.append(self.cond(s.test, entry))
        inner = {"break": [], "continue": []}
        end = self.block(s.body, entry, inner)
        if inner["break"]:
            raise Unsupported(f"break inside the loop with an invariant at line {ln}")
        for i, e in enumerate([end] + inner["continue"]):
            if not z3.is_false(z3.simplify(e.guard)):
                self.oblige("inv-step", e, inv(View(e, "num"), View(e, "cnt")), ln, f"loop invariant `{text}` re-established by the body")
        del self.scoped[mark:]
        out = havoc(st)
        self.hyps.append(z3.Implies(st.guard, z3.And(inv(View(out, "num"), View(out, "cnt")), z3.Not(self.cond(s.test, out)))))
        return out

    # ------------------------------------------------------------------ entry points
    def run_function(self, prog_params: Optional[Dict[str, Any]] = None, callable_param: bool = False) -> State:
        st = State()
        args = self.fn.args
        self.param_names = {a.arg for a in args.posonlyargs + args.args + args.kwonlyargs}
        for a in args.posonlyargs + args.args + args.kwonlyargs:
            st.ver[a.arg] = 0
        for p, bound in (prog_params or {}).items():
            c = Ctx(p, None, self.fn.lineno, -1, bound=bound)
            c.callable = callable_param
            self.ctxs[p] = c
            st.cnt[p] = z3.RealVal(0)
        end = self.block(self.fn.body, st, None)
        self.returns.append(end)
        self.return_values.append(None)
        return end


class Val:
    """an argument evaluated when a `dict(...)` record was built"""

    def __init__(self, num=None, length=None, ctx=None, rec=None, text=""):
        self.num, self.length, self.ctx, self.rec, self.text = num, length, ctx, rec, text


class Args:
    """arguments of a call as seen by a contract: args[name] is the numeric value, args.len(name) the number of items"""

    def __init__(self, ex: StepExec, st: State, bound: Dict[str, ast.AST], defaults: Dict[str, ast.AST]):
        self.ex, self.st, self.bound, self.defaults = ex, st, bound, defaults

    def _node(self, name: str) -> ast.AST:
        if name in self.bound:
            return self.bound[name]
        return self.defaults[name]

    def __getitem__(self, name: str):
        n = self._node(name)
        v = n.num if isinstance(n, Val) else self.ex.num(n, self.st)
        if v is None:
            raise KeyError(name)
        return v

    def len(self, name: str):
        n = self._node(name)
        if isinstance(n, Val):
            if n.length is None:
                raise KeyError(name)
            return n.length
        return self.ex.length(n, self.st)

    def field(self, name: str, key: str) -> "Args":
        """the entries of a record argument"""
        n = self._node(name)
        rec = n.rec if isinstance(n, Val) else (n.id if isinstance(n, ast.Name) else None)
        if rec in self.ex.records:
            return Args(self.ex, self.st, dict(self.ex.records[rec]), {})
        raise KeyError(name)


class Requires:
    def __init__(self, fn: ast.FunctionDef, pre: Callable[[Args], Any], text: str):
        a = fn.args
        self.name, self.pre, self.text = fn.name, pre, text
        self.params = [x.arg for x in a.posonlyargs + a.args]
        self.defaults: Dict[str, ast.AST] = {}
        for x, d in zip(reversed(a.posonlyargs + a.args), reversed(a.defaults)):
            self.defaults[x.arg] = d
        for x, d in zip(a.kwonlyargs, a.kw_defaults):
            if d is not None:
                self.defaults[x.arg] = d


class StepContract:
    """`callee(..., prog, ...)` advances prog by at most delta(arguments); params/defaults are read from the real signature"""

    def __init__(self, fn: ast.FunctionDef, prog_param: str, delta: Callable[[Dict[str, Any]], Any], text: str, none_fields=(), callable_param: bool = False):
        a = fn.args
        self.name, self.prog_param, self.delta, self.text = fn.name, prog_param, delta, text
        self.none_fields = set(none_fields)      # {(record parameter, key)}: that entry must be None at every call
        self.callable_param = callable_param     # prog_param is a callback; delta bounds the number of calls
        self.params = [x.arg for x in a.posonlyargs + a.args]
        self.defaults: Dict[str, ast.AST] = {}
        for x, d in zip(reversed(a.posonlyargs + a.args), reversed(a.defaults)):
            self.defaults[x.arg] = d
        for x, d in zip(a.kwonlyargs, a.kw_defaults):
            if d is not None:
                self.defaults[x.arg] = d


def _own_args(ex: StepExec, fn: ast.FunctionDef) -> Args:
    a = fn.args
    return Args(ex, State(), {x.arg: ast.Name(id=x.arg, ctx=ast.Load()) for x in a.posonlyargs + a.args + a.kwonlyargs}, {})


def analyse(sess: Session, module: str, fn: ast.FunctionDef, contracts: Dict[str, StepContract], own: Optional[StepContract] = None,
            requires: Optional[Dict[str, Requires]] = None, externals: Optional[Dict[str, Callable]] = None, loop_invs: Optional[Dict[str, Any]] = None,
            prepare: Optional[Callable] = None) -> StepExec:
    """all Progress contexts of one function; with `own`, also `prog advanced by <= own.delta(parameters)` at every normal exit.
    `requires`: preconditions, assumed for fn itself and obligations (call-pre) wherever fn's body calls one of these functions."""
    ex = StepExec(sess, module, fn, contracts)
    ex.requires = dict(requires or {})
    ex.externals = dict(externals or {})
    ex.loop_invs = dict(loop_invs or {})

    def find_callee(name: str, _module=module, _depth=0):
        """the definition of a function called by name: in the module itself, or in the module it is imported from"""
        from .core import module_ast
        try:
            tree = module_ast(_module)
        except (FileNotFoundError, OSError):
            return None
        for n in tree.body:
            if isinstance(n, ast.FunctionDef) and n.name == name:
                return n
        if _depth >= 2:
            return None
        for n in tree.body:
            if isinstance(n, ast.ImportFrom) and n.level >= 1 and any((al.asname or al.name) == name for al in n.names):
                base = _module.split("/")
                if base[-1] == "__init__":
                    base = base[:-1]
                else:
                    base = base[:-1]
                base = base[:len(base) - (n.level - 1)] if n.level > 1 else base
                target = "/".join(base + (n.module.split(".") if n.module else []))
                orig = next(al.name for al in n.names if (al.asname or al.name) == name)
                for cand in (target, target + "/__init__"):
                    got = find_callee(orig, cand, _depth + 1)
                    if got is not None:
                        return got
        return None
    ex.find_callee = find_callee
    if prepare is not None:
        prepare(ex)
    try:
        mine = ex.requires.get(fn.name)
        if mine is not None:
            ex.hyps.append(mine.pre(_own_args(ex, fn)))
        if own is None:
            ex.run_function()
        else:
            bound = z3.Bool(f"{own.prog_param}:is-a-Progress")
            ex.run_function({own.prog_param: bound}, callable_param=own.callable_param)
            c = ex.ctxs[own.prog_param]
            want = own.delta(_own_args(ex, fn))
            n = 0
            for st in ex.returns:
                if z3.is_false(z3.simplify(st.guard)):
                    continue
                n += 1
                if c.tainted:
                    ex.taints.append(f"`{own.prog_param}`: {c.tainted}")
                    break
                ex.oblige("post", st, st.cnt[own.prog_param] <= want, fn.lineno, f"step contract: `{own.prog_param}` advanced by at most {own.text} (exit {n})")
        ex.finish()
        for t in dict.fromkeys(ex.taints):
            sess.unsupported(f"{fn.name}: Progress object {t}", fn.lineno)
    except Unsupported as u:
        sess.unsupported(f"{fn.name}: {u}", fn.lineno)
    return ex
