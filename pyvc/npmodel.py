"""numpy semantics table (DESIGN 2.2): the few array operations used by functions under contract, on ListV windows.
The table is trusted; the bounded layer cross-checks it against numpy on the same functions."""
from __future__ import annotations

import ast

import z3

from .symex import Raised, Unsupported
from .values import NONE, DictV, ListV, NoneV, Opt, PyDict, PyList, Ref, StrV, TupleV, fresh

Cx = z3.Datatype("Cx")
Cx.declare("mk", ("re", z3.RealSort()), ("im", z3.RealSort()))
Cx = Cx.create()


class FilterV:
    """[elem for i, elem in enumerate(src) if pred(i)] : the sub-sequence of `src` selected by `pred` (order kept).
    pred is an Int->Bool array over *relative* indices 0..len-1."""

    def __init__(self, src: ListV, pred, what: str = ""):
        self.src, self.pred, self.what = src, pred, what


def rel(lst: ListV, i):
    """element at relative index i"""
    return z3.Select(lst.arr, lst.lo + i)


def b_array(ex, st, args, kwargs, node):
    v = st.deref(args[0])
    if isinstance(v, ListV):
        return [(st.alloc(ListV(v.arr, v.lo, v.hi, v.wrap)), st)]
    if isinstance(v, FilterV):
        return [(v, st)]
    if isinstance(v, tuple) and v[0] == "map":
        return [(_materialise_map(ex, st, v, node), st)]
    raise Unsupported(f"array() of {type(v).__name__}")


def _materialise_map(ex, st, m, node):
    f, src = m[1], m[2]
    if isinstance(src, tuple) and src[0] == "zip":
        a, b = st.deref(src[1]), st.deref(src[2])
        if not (isinstance(a, ListV) and isinstance(b, ListV)):
            raise Unsupported("zip of non-lists")
        i = fresh("mi", z3.IntSort())
        r = ex.call(f, [TupleV([rel(a, i), rel(b, i)])], {}, None, st.clone(), node)
        if len(r) != 1 or isinstance(r[0][0], Raised):
            raise Unsupported("map with forking function")
        val = r[0][0]
        n = z3.If(a.length() <= b.length(), a.length(), b.length())
        return st.alloc(ListV(z3.Lambda([i], val), z3.IntVal(0), n))
    raise Unsupported("map over this source")


def b_zip(ex, st, args, kwargs, node):
    return [(("zip", args[0], args[1]), st)]


def b_complex(ex, st, args, kwargs, node):
    if len(args) == 2:
        a, b = ex.lift(args[0]), ex.lift(args[1])
        return [(Cx.mk(a, b), st)]
    raise Unsupported("complex() with != 2 args")


def b_flip(ex, st, args, kwargs, node):
    v = st.deref(args[0])
    if isinstance(v, ListV):
        i = fresh("fi", z3.IntSort())
        return [(st.alloc(ListV(z3.Lambda([i], z3.Select(v.arr, v.lo + v.hi - 1 - i)), v.lo, v.hi, v.wrap)), st)]
    raise Unsupported("flip of non-array")


def b_opaque_str(ex, st, args, kwargs, node):
    return [(StrV(note="opaque"), st)]


def b_splitext(ex, st, args, kwargs, node):
    return [(TupleV([StrV(note="stem"), StrV(note="ext")]), st)]


def attr(ex, base, name, st):
    """attribute access on array values; returns NotImplemented if not modelled"""
    v = st.deref(base)
    if isinstance(v, ListV):
        if name == "size":
            return v.length()
        if name == "shape":
            return TupleV([v.length()])
        if name in ("real", "imag") and v.esort() == Cx:
            i = fresh("ri", z3.IntSort())
            acc = Cx.re if name == "real" else Cx.im
            return st.alloc(ListV(z3.Lambda([i], acc(z3.Select(v.arr, i))), v.lo, v.hi))
    return NotImplemented


def method(ex, recv, o, name, args, kwargs, st, node):
    if isinstance(o, ListV) and name == "tolist":
        return [(st.alloc(ListV(o.arr, o.lo, o.hi, o.wrap)), st)]
    return NotImplemented


def listcomp(ex, e: ast.ListComp, st):
    """[x for i, x in enumerate(L) if cond]  ->  FilterV"""
    if len(e.generators) != 1:
        raise Unsupported("nested list comprehension")
    g = e.generators[0]
    res = ex.ev(g.iter, st)
    if len(res) != 1 or isinstance(res[0][0], Raised):
        raise Unsupported("forking comprehension source")
    src, st = res[0]
    if isinstance(src, tuple) and src[0] == "enumerate" and isinstance(g.target, ast.Tuple) and len(g.target.elts) == 2:
        lst = st.deref(src[1])
        if isinstance(lst, ListV):
            iname, xname = g.target.elts[0].id, g.target.elts[1].id
            if not (isinstance(e.elt, ast.Name) and e.elt.id == xname):
                raise Unsupported("list comprehension with mapped element")
            i = fresh("li", z3.IntSort())
            sub = st.clone()
            sub.frames.append({"__closure__": st.loc, iname: i, xname: rel(lst, i)})
            cond = z3.BoolVal(True)
            for c in g.ifs:
                cond = z3.And(cond, ex.truthy(ex._pure(c, sub), sub))
            return [(FilterV(lst, z3.Lambda([i], cond), ast.unparse(e)), st)]
    raise Unsupported(f"list comprehension `{ast.unparse(e)[:60]}`")


def install(ex):
    B = lambda f: ("builtin", f)
    ex.consts.update({"array": B(b_array), "zip": B(b_zip), "complex": B(b_complex), "flip": B(b_flip),
                      "basename": B(b_opaque_str), "splitext": B(b_splitext), "Frequency": None, "ComplexImpedance": None})
    orig_getattr = ex.getattr

    def ga(base, attr_, st, node=None):
        r = attr(ex, base, attr_, st)
        if r is not NotImplemented:
            return r
        return orig_getattr(base, attr_, st, node)
    ex.getattr = ga
    orig_cvm = ex.call_value_method

    def cvm(recv, o, name, args, kwargs, st, node):
        r = method(ex, recv, o, name, args, kwargs, st, node)
        if r is not NotImplemented:
            return r
        return orig_cvm(recv, o, name, args, kwargs, st, node)
    ex.call_value_method = cvm
    ex.ev_ListComp = lambda e, st: listcomp(ex, e, st)
    orig_binop = ex.binop

    def binop(op, l, r, st, node):
        """elementwise complex array +/- array (equal lengths: obligation) or +/- one complex value (broadcast)"""
        lv, rv = st.deref(l), st.deref(r)
        if isinstance(op, (ast.Add, ast.Sub)) and isinstance(lv, ListV) and lv.esort() == Cx and ((isinstance(rv, ListV) and rv.esort() == Cx) or (z3.is_expr(rv) and rv.sort() == Cx)):
            j = fresh("bj", z3.IntSort())
            a = z3.Select(lv.arr, lv.lo + j)
            if isinstance(rv, ListV):
                ex.oblige("exc-free", st, lv.length() == rv.length(), getattr(node, "lineno", 0), "ValueError: operands could not be broadcast together")
                st.pc.append(lv.length() == rv.length())
                b = z3.Select(rv.arr, rv.lo + j)
            else:
                b = rv
            sgn = 1 if isinstance(op, ast.Add) else -1
            return st.alloc(ListV(z3.Lambda([j], Cx.mk(Cx.re(a) + sgn * Cx.re(b), Cx.im(a) + sgn * Cx.im(b))), z3.IntVal(0), lv.length()))
        return orig_binop(op, l, r, st, node)
    ex.binop = binop
