"""Complex numbers as rational triples (num_re, num_im, den) over z3 reals, with uninterpreted transcendental
applications merged by z3-validated argument equality (DESIGN C02).  Used by C01/C02/C07/C08/C09/C11/C13 lemmas.

Facts used about the transcendental functions (all sound for principal branches, stated in the evidence):
z^(-a) = 1/z^a, z^k for integer k by repeated multiplication, sqrt z = z^(1/2), coth = 1/tanh.
"""
from __future__ import annotations

import ast
from fractions import Fraction
from typing import Any, Dict, List, Optional

import z3

PI = z3.Real("pi")
BASE_HYP = [PI > 3, PI < 4]


class Q:
    def __init__(self, re, im, den=None):
        self.re, self.im, self.den = re, im, (z3.RealVal(1) if den is None else den)

    @staticmethod
    def lift(x) -> "Q":
        if isinstance(x, Q):
            return x
        if isinstance(x, complex):
            return Q(z3.RealVal(str(Fraction(x.real))), z3.RealVal(str(Fraction(x.imag))))
        if isinstance(x, (int, float, Fraction)):
            return Q(z3.RealVal(str(Fraction(x))), z3.RealVal(0))
        return Q(x, z3.RealVal(0))

    def __add__(a, b):
        b = Q.lift(b)
        return Q(a.re * b.den + b.re * a.den, a.im * b.den + b.im * a.den, a.den * b.den)
    __radd__ = __add__

    def __neg__(a):
        return Q(-a.re, -a.im, a.den)

    def __sub__(a, b):
        return a + (-Q.lift(b))

    def __rsub__(a, b):
        return Q.lift(b) - a

    def __mul__(a, b):
        b = Q.lift(b)
        return Q(a.re * b.re - a.im * b.im, a.re * b.im + a.im * b.re, a.den * b.den)
    __rmul__ = __mul__

    def inv(a):
        r = getattr(a, "_recip", None)
        if r is not None:
            return r                      # 1/(1/z) is z: keeps expressions from growing (exact)
        r = type(a)(a.den * a.re, -a.den * a.im, a.re * a.re + a.im * a.im)
        r._recip = a
        return r

    def __truediv__(a, b):
        return a * Q.lift(b).inv()

    def __rtruediv__(a, b):
        if isinstance(b, (int, float)) and b == 1:
            return a.inv()
        return Q.lift(b) * a.inv()

    def ipow(a, n: int):
        if n < 0:
            return a.ipow(-n).inv()
        r = Q.lift(1)
        for _ in range(n):
            r = r * a
        return r

    def conj(a):
        return Q(a.re, -a.im, a.den)

    def real(a):
        return Q(a.re, z3.RealVal(0), a.den)

    def imag(a):
        return Q(a.im, z3.RealVal(0), a.den)

    def abs2(a):
        """|a|^2 as a real Q"""
        return Q(a.re * a.re + a.im * a.im, z3.RealVal(0), a.den * a.den)


class Prover:
    def __init__(self, hyps=(), timeout_ms=8000):
        self.hyps = list(BASE_HYP) + list(hyps)
        self.timeout = timeout_ms
        self.apps: List = []
        self.n = 0
        self.nonzero: List = []     # denominators assumed non-zero are collected as side conditions

    def valid(self, goal) -> Optional[bool]:
        s = z3.Solver()
        s.set("timeout", self.timeout)
        s.add(*self.hyps)
        s.add(z3.Not(goal))
        r = s.check()
        if r == z3.unsat:
            return True
        if r == z3.sat:
            self.last_model = s.model()
            return False
        return None

    def eq_goal(self, a: Q, b: Q):
        return z3.And(a.re * b.den == b.re * a.den, a.im * b.den == b.im * a.den)

    def qeq(self, a: Q, b: Q) -> Optional[bool]:
        return self.valid(self.eq_goal(a, b))

    def app(self, fn: str, args: List[Q]) -> Q:
        for g, a2, val in self.apps:
            if g == fn and len(a2) == len(args) and all(self.qeq(x, y) for x, y in zip(args, a2)):
                return val
        if fn == "pow":
            for g, a2, val in self.apps:
                if g == "pow" and self.qeq(args[0], a2[0]) and self.qeq(args[1], -a2[1]):
                    v = val.inv()
                    self.apps.append((fn, args, v))
                    return v
        self.n += 1
        v = Q(z3.Real(f"{fn}{self.n}_re"), z3.Real(f"{fn}{self.n}_im"))
        self.apps.append((fn, args, v))
        return v


def const_int(node) -> Optional[int]:
    try:
        v = ast.literal_eval(node)
        if isinstance(v, int) and not isinstance(v, bool):
            return v
    except Exception:
        pass
    return None


class PyTranslator:
    """Python expression AST -> Q.  env maps names to Q / python values; `funcs` maps call names to python callables."""

    def __init__(self, P: Prover, env: Dict[str, Any], funcs: Optional[Dict[str, Any]] = None):
        self.P, self.env, self.funcs = P, env, funcs or {}

    def tr(self, e) -> Any:
        P = self.P
        if isinstance(e, ast.Constant):
            if isinstance(e.value, (int, float, complex)) and not isinstance(e.value, bool):
                return Q.lift(e.value)
            return e.value
        if isinstance(e, ast.Name):
            if e.id == "pi":
                return Q.lift(PI)
            if e.id in self.env:
                return self.env[e.id]
            raise NotImplementedError(f"name {e.id}")
        if isinstance(e, ast.UnaryOp) and isinstance(e.op, ast.USub):
            return -self.tr(e.operand)
        if isinstance(e, ast.UnaryOp) and isinstance(e.op, ast.UAdd):
            return self.tr(e.operand)
        if isinstance(e, ast.UnaryOp) and isinstance(e.op, ast.Not):
            return not self.tr(e.operand)
        if isinstance(e, ast.BinOp):
            if isinstance(e.op, ast.Pow):
                return self.mkpow(self.tr(e.left), e.right)
            a, b = self.tr(e.left), self.tr(e.right)
            a, b = Q.lift(a), Q.lift(b)
            if isinstance(e.op, ast.Add):
                return a + b
            if isinstance(e.op, ast.Sub):
                return a - b
            if isinstance(e.op, ast.Mult):
                return a * b
            if isinstance(e.op, ast.Div):
                return a / b
            raise NotImplementedError(f"binop {type(e.op).__name__}")
        if isinstance(e, ast.BoolOp):
            vals = [self.tr(v) for v in e.values]
            if all(isinstance(v, bool) for v in vals):
                return all(vals) if isinstance(e.op, ast.And) else any(vals)
            raise NotImplementedError("symbolic bool op")
        if isinstance(e, ast.IfExp):
            c = self.tr(e.test)
            if not isinstance(c, bool):
                raise NotImplementedError("symbolic condition")
            return self.tr(e.body if c else e.orelse)
        if isinstance(e, ast.Attribute):
            base = self.tr(e.value)
            if isinstance(base, dict):
                return base[e.attr]
            if isinstance(base, Q) and e.attr == "real":
                return base.real()
            if isinstance(base, Q) and e.attr == "imag":
                return base.imag()
            raise NotImplementedError(f"attribute {e.attr}")
        if isinstance(e, ast.Call):
            if isinstance(e.func, ast.Attribute) and e.func.attr == "astype":
                return self.tr(e.func.value)
            name = e.func.id if isinstance(e.func, ast.Name) else (e.func.attr if isinstance(e.func, ast.Attribute) else None)
            if name in self.funcs:
                return self.funcs[name](self, e)
            args = [self.tr(a) for a in e.args]
            if name == "coth":
                return P.app("tanh", [Q.lift(args[0])]).inv()
            if name == "sqrt":
                return P.app("pow", [Q.lift(args[0]), Q.lift(Fraction(1, 2))])
            if name in ("tanh", "cosh", "sinh", "exp", "log"):
                return P.app(name, [Q.lift(args[0])])
            if name == "abs":
                return ("abs", Q.lift(args[0]))
            raise NotImplementedError(f"call {name}")
        raise NotImplementedError(ast.dump(e)[:100])

    def mkpow(self, base, expnode):
        k = const_int(expnode)
        if isinstance(base, tuple) and base[0] == "abs" and k is not None and k % 2 == 0:
            r = base[1].abs2()
            return r.ipow(k // 2)
        base = Q.lift(base)
        if k is not None:
            return base.ipow(k)
        ex = Q.lift(self.tr(expnode))
        return self.P.app("pow", [base, ex])


def tr_sym(P: Prover, e, env: Dict[str, Any]) -> Q:
    """sympy expression (evaluate=False tree) -> Q"""
    import sympy
    T = lambda x: tr_sym(P, x, env)
    if e.is_Symbol:
        return env[e.name]
    if e == sympy.I:
        return Q.lift(1j)
    if e == sympy.pi:
        return Q.lift(PI)
    if e.is_Rational:
        return Q.lift(Fraction(int(e.p), int(e.q)))
    if e.is_Float:
        return Q.lift(Fraction(str(e)))
    if e.is_Add:
        r = Q.lift(0)
        for a in e.args:
            r = r + T(a)
        return r
    if e.is_Mul:
        r = Q.lift(1)
        for a in e.args:
            r = r * T(a)
        return r
    if e.is_Pow:
        if e.exp.is_Integer:
            return T(e.base).ipow(int(e.exp))
        return P.app("pow", [T(e.base), T(e.exp)])
    if isinstance(e, sympy.coth):
        return P.app("tanh", [T(e.args[0])]).inv()
    if isinstance(e, (sympy.tanh, sympy.cosh, sympy.sinh, sympy.exp, sympy.log)):
        return P.app(type(e).__name__, [T(e.args[0])])
    raise NotImplementedError(str(type(e)) + str(e)[:80])
