"""Models of Python builtins and of pyimpspec's tiny typing helpers used by functions under contract."""
from __future__ import annotations

import z3

from .symex import Raised, Unsupported
from .values import (NONE, Char, ClassV, DictV, Exc, ListV, NEG_INF, NoneV, Obj, Opt, POS_INF, PyDict, PyList, Ref, StrV,
                     TupleV, fresh)


def b_len(ex, st, args, kwargs, node):
    v = st.deref(args[0])
    if isinstance(v, ListV):
        return [(v.length(), st)]
    if isinstance(v, (PyList, TupleV)):
        return [(z3.IntVal(len(v.items)), st)]
    if isinstance(v, PyDict):
        return [(z3.IntVal(len(v.items)), st)]
    if isinstance(v, str):
        return [(z3.IntVal(len(v)), st)]
    if isinstance(v, DictV):
        n = fresh("card", z3.IntSort())
        k = fresh("k", v.ksort)
        st.pc.append(n >= 0)
        st.pc.append((n == 0) == z3.Not(z3.Exists([k], v.has(k))))
        return [(n, st)]
    raise Unsupported(f"len of {type(v).__name__}")


def b_float(ex, st, args, kwargs, node):
    v = ex.lift(args[0])
    if z3.is_real(v):
        return [(v, st)]
    if z3.is_int(v):
        return [(z3.ToReal(v), st)]
    if z3.is_bool(v):
        return [(z3.If(v, z3.RealVal(1), z3.RealVal(0)), st)]
    if isinstance(v, str):
        if v in ("inf", "+inf"):
            return [(POS_INF, st)]
        if v == "-inf":
            return [(NEG_INF, st)]
        try:
            return [(z3.RealVal(repr(float(v))), st)]
        except ValueError:
            return [(Raised(Exc("ValueError", node.lineno)), st)]
    raise Unsupported(f"float() of {type(v).__name__}")


def b_int(ex, st, args, kwargs, node):
    v = ex.lift(args[0])
    if z3.is_int(v):
        return [(v, st)]
    raise Unsupported("int() of non-int")


def b_map(ex, st, args, kwargs, node):
    return [(("map", args[0], args[1]), st)]


def b_all(ex, st, args, kwargs, node):
    """all(map(f, view)) over a symbolic dict view / list: forall elements f(x)"""
    v = args[0]
    if isinstance(v, tuple) and v[0] == "map":
        f, src = v[1], v[2]
        if isinstance(src, tuple) and src[0] in ("keys", "values"):
            d = st.deref(src[1])
            if isinstance(d, PyDict):
                conj = []
                for x in (d.items.keys() if src[0] == "keys" else d.items.values()):
                    r = ex.call(f, [x], {}, None, st, node)
                    conj.append(ex.truthy(r[0][0], st))
                return [(z3.And(*conj) if conj else z3.BoolVal(True), st)]
            k = fresh("ak", d.ksort)
            x = k if src[0] == "keys" else d.get(k)
            r = ex.call(f, [x], {}, None, st.clone(), node)
            if len(r) != 1 or isinstance(r[0][0], Raised):
                raise Unsupported("all(map(f, ...)) with forking f")
            body = ex.truthy(r[0][0], st)
            return [(z3.simplify(z3.ForAll([k], z3.Implies(d.has(k), body))), st)]
    raise Unsupported("all() of this iterable")


def b_abs(ex, st, args, kwargs, node):
    v = ex.lift(args[0])
    return [(z3.If(v < 0, -v, v), st)]


def b_bool(ex, st, args, kwargs, node):
    return [(ex.truthy(args[0], st), st)]


def b_minmax(which):
    def f(ex, st, args, kwargs, node):
        if len(args) == 2:
            a, b = ex.num2(args[0], args[1])
            return [((z3.If(a <= b, a, b) if which == "min" else z3.If(a >= b, a, b)), st)]
        raise Unsupported(f"{which} of an iterable")
    return f


def b_range(ex, st, args, kwargs, node):
    a = [ex.lift(x) for x in args]
    if len(a) == 1:
        return [(("range", z3.IntVal(0), a[0]), st)]
    if len(a) == 2:
        return [(("range", a[0], a[1]), st)]
    raise Unsupported("range with step")


def b_enumerate(ex, st, args, kwargs, node):
    return [(("enumerate", args[0]), st)]


def b_list(ex, st, args, kwargs, node):
    if not args:
        return [(st.alloc(PyList([])), st)]
    v = st.deref(args[0])
    if isinstance(v, TupleV):
        return [(st.alloc(PyList(v.items)), st)]
    if isinstance(v, PyList):
        return [(st.alloc(PyList(v.items)), st)]
    if isinstance(v, ListV):
        return [(st.alloc(ListV(v.arr, v.lo, v.hi, v.wrap)), st)]
    if isinstance(v, tuple) and v[0] == "keys":
        d = st.deref(v[1])
        if isinstance(d, PyDict):
            return [(st.alloc(PyList(list(d.items.keys()))), st)]
        if isinstance(d, DictV):
            return [(("keys_snapshot", d), st)]       # immutable snapshot of the key set at this point
    if isinstance(v, tuple) and v[0] in ("map", "zip", "listcomp", "keypred", "keys_snapshot"):
        return [(v, st)]
    raise Unsupported(f"list() of {type(v).__name__}")


def b_sorted(ex, st, args, kwargs, node):
    """sorted(<keys of a dict>): the same keys (order is not modelled)"""
    v = st.deref(args[0]) if args else None
    if isinstance(v, tuple) and v and v[0] in ("keys_snapshot", "keypred"):
        return [(v, st)]
    if isinstance(v, tuple) and v and v[0] == "keys" and isinstance(st.deref(v[1]), DictV):
        return [(("keys_snapshot", st.deref(v[1])), st)]
    raise Unsupported("sorted() of this value")


def b_set(ex, st, args, kwargs, node):
    if not args:
        return [(st.alloc(PyList([])), st)]
    v = st.deref(args[0])
    if isinstance(v, (PyList, TupleV)):
        items = []
        for x in v.items:
            if not any(x is y or (isinstance(x, str) and x == y) for y in items):
                items.append(x)
        return [(st.alloc(PyList(items)), st)]
    if isinstance(v, tuple) and v[0] == "keys":
        return [(("keyset", v[1]), st)]
    raise Unsupported(f"set() of {type(v).__name__}")


def b_type(ex, st, args, kwargs, node):
    v = st.deref(args[0])
    if isinstance(v, Obj):
        return [(v.klass if v.klass is not None else ClassV(v.cls), st)]
    if isinstance(v, Opt):
        return [(("typeof", v), st)]
    raise Unsupported(f"type() of {type(v).__name__}")


def _pytype(v):
    if isinstance(v, bool) or z3.is_bool(v):
        return "bool"
    if isinstance(v, int) or z3.is_int(v):
        return "int"
    if isinstance(v, float) or z3.is_real(v):
        return "float"
    if isinstance(v, (str, StrV, Char)):
        return "str"
    if isinstance(v, NoneV):
        return "NoneType"
    if isinstance(v, (DictV, PyDict)):
        return "dict"
    if isinstance(v, (ListV, PyList)):
        return "list"
    if isinstance(v, TupleV):
        return "tuple"
    return None


def b_isinstance(ex, st, args, kwargs, node):
    v = st.deref(args[0])
    c = args[1]
    if ex.isinstance_model is not None:
        r = ex.isinstance_model(ex, st, v, c)
        if r is not None:
            return [(r, st)]
    names = [x.name for x in (c.items if isinstance(c, TupleV) else [c]) if isinstance(x, ClassV)]
    t = _pytype(v)
    if t is not None:
        ok = t in names or (t == "bool" and "int" in names)
        return [(z3.BoolVal(ok), st)]
    raise Unsupported(f"isinstance on {type(v).__name__}")


def b_is_boolean(ex, st, args, kwargs, node):
    return [(z3.BoolVal(_pytype(st.deref(args[0])) == "bool"), st)]


def b_is_integer(ex, st, args, kwargs, node):
    return [(z3.BoolVal(_pytype(st.deref(args[0])) == "int"), st)]


def b_is_floating(ex, st, args, kwargs, node):
    return [(z3.BoolVal(_pytype(st.deref(args[0])) == "float"), st)]


def b_isinf(ex, st, args, kwargs, node):
    v = ex.lift(args[0])
    return [(z3.Or(v == POS_INF, v == NEG_INF), st)]


def b_isnan(ex, st, args, kwargs, node):
    return [(z3.BoolVal(False), st)]       # NaN excluded by `requires` (listed assumption)


def b_callable(ex, st, args, kwargs, node):
    return [(z3.BoolVal(True), st)]


def b_id(ex, st, args, kwargs, node):
    if isinstance(args[0], Ref):
        return [(z3.IntVal(1000 + args[0].addr), st)]
    raise Unsupported("id() of non-heap value")


def b_hex(ex, st, args, kwargs, node):
    return [(StrV(note="hex"), st)]


def b_print(ex, st, args, kwargs, node):
    return [(NONE, st)]


def install(ex):
    B = lambda f: ("builtin", f)
    ex.consts.update({
        "len": B(b_len), "float": B(b_float), "int": B(b_int), "abs": B(b_abs), "bool": B(b_bool),
        "min": B(b_minmax("min")), "max": B(b_minmax("max")), "range": B(b_range), "enumerate": B(b_enumerate),
        "list": B(b_list), "sorted": B(b_sorted), "set": B(b_set), "type": B(b_type), "isinstance": B(b_isinstance),
        "_is_boolean": B(b_is_boolean), "_is_integer": B(b_is_integer), "_is_floating": B(b_is_floating),
        "isinf": B(b_isinf), "isnan": B(b_isnan), "callable": B(b_callable), "id": B(b_id), "hex": B(b_hex),
        "print": B(b_print), "inf": POS_INF, "map": B(b_map), "all": B(b_all),
    })
    for n in ("str", "dict", "tuple", "bool", "ValueError", "TypeError", "KeyError", "IndexError",
              "NotImplementedError", "Exception"):
        ex.classes.setdefault(n, ClassV(n))
    # `int`/`float`/`list` are both callables and classes; isinstance receives ClassV through this table
    ex.classes.update({"int_t": ClassV("int"), "float_t": ClassV("float")})
