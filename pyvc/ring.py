"""Exact ring normalisation (sum of monomials over Q) of z3 real-arithmetic terms: +, -, *, numerals, variables,
division by numerals.  Used to decide polynomial identities that z3's nlsat does not expand (DESIGN 2.3).
Part of the trusted base; cross-checked against sympy.expand in the self-test (tools/selftest_ring.py)."""
from __future__ import annotations

from fractions import Fraction
from typing import Dict, Optional, Tuple

import z3

Mono = Tuple[Tuple[str, int], ...]
Poly = Dict[Mono, Fraction]


class NotPolynomial(Exception):
    pass


def _add(a: Poly, b: Poly, sign: int = 1) -> Poly:
    r = dict(a)
    for m, c in b.items():
        v = r.get(m, 0) + sign * c
        if v == 0:
            r.pop(m, None)
        else:
            r[m] = v
    return r


def _mul_mono(m1: Mono, m2: Mono) -> Mono:
    d = dict(m1)
    for v, e in m2:
        d[v] = d.get(v, 0) + e
    return tuple(sorted(d.items()))


def _mul(a: Poly, b: Poly) -> Poly:
    if len(a) > len(b):
        a, b = b, a
    r: Poly = {}
    for m1, c1 in a.items():
        for m2, c2 in b.items():
            m = _mul_mono(m1, m2)
            v = r.get(m, 0) + c1 * c2
            if v == 0:
                r.pop(m, None)
            else:
                r[m] = v
    return r


def to_poly(e: z3.ExprRef, cache: Optional[dict] = None, limit: int = 400000) -> Poly:
    cache = {} if cache is None else cache
    key = e.get_id()
    if key in cache:
        return cache[key]
    k = e.decl().kind()
    if z3.is_rational_value(e) or z3.is_int_value(e):
        f = Fraction(e.numerator_as_long(), e.denominator_as_long()) if z3.is_rational_value(e) else Fraction(e.as_long())
        r = {(): f} if f != 0 else {}
    elif z3.is_const(e) and k == z3.Z3_OP_UNINTERPRETED:
        r = {((e.decl().name(), 1),): Fraction(1)}
    elif k == z3.Z3_OP_ADD:
        r = {}
        for c in e.children():
            r = _add(r, to_poly(c, cache, limit))
    elif k == z3.Z3_OP_SUB:
        ch = e.children()
        r = to_poly(ch[0], cache, limit)
        for c in ch[1:]:
            r = _add(r, to_poly(c, cache, limit), -1)
    elif k == z3.Z3_OP_UMINUS:
        r = {m: -c for m, c in to_poly(e.children()[0], cache, limit).items()}
    elif k == z3.Z3_OP_MUL:
        r = {(): Fraction(1)}
        for c in e.children():
            r = _mul(r, to_poly(c, cache, limit))
            if len(r) > limit:
                raise NotPolynomial("polynomial too large")
    elif k == z3.Z3_OP_DIV:
        a, b = e.children()
        pb = to_poly(b, cache, limit)
        if list(pb.keys()) == [()] and pb[()] != 0:
            r = {m: c / pb[()] for m, c in to_poly(a, cache, limit).items()}
        else:
            raise NotPolynomial("division by a non-constant")
    elif k == z3.Z3_OP_TO_REAL:
        r = to_poly(e.children()[0], cache, limit)
    elif k == z3.Z3_OP_POWER:
        a, b = e.children()
        if z3.is_int_value(b) or (z3.is_rational_value(b) and b.denominator_as_long() == 1):
            n = b.as_long() if z3.is_int_value(b) else b.numerator_as_long()
            if n < 0:
                raise NotPolynomial("negative power")
            r = {(): Fraction(1)}
            pa = to_poly(a, cache, limit)
            for _ in range(n):
                r = _mul(r, pa)
        else:
            raise NotPolynomial("non-integer power")
    else:
        raise NotPolynomial(f"operator {e.decl().name()}")
    cache[key] = r
    return r


def is_zero(e: z3.ExprRef) -> Optional[bool]:
    """True/False if e normalises (identically zero or not); None if e is not a polynomial in this fragment"""
    try:
        return len(to_poly(e)) == 0
    except NotPolynomial:
        return None
