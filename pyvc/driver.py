"""./check driver: proof layer (pyvc, python3-vt) + bounded layer (/venv/bin/python) -> evidence, exit code.

exit 0 held / 1 violation / 2 undecided / 3 checker crash.
"""
from __future__ import annotations

import argparse
import hashlib
import importlib
import json
import multiprocessing as mp
import os
import re
import subprocess
import sys
import time
import traceback
from typing import Any, Dict, List

HERE = os.path.dirname(os.path.dirname(os.path.abspath(__file__)))
sys.path.insert(0, HERE)

from pyvc import core  # noqa: E402
from pyvc.core import DISCHARGED, REFUTED, UNDECIDED, UNSUPPORTED, Session, source_info  # noqa: E402

BOUNDED_PY = os.environ.get("VERIF_BOUNDED_PY", "/venv/bin/python")
OUT = os.environ.get("VERIF_OUT", HERE)       # evidence/ and replays/ root (overridden for runs against scratch trees)


def base_name(name: str) -> str:
    """obligation name without line numbers and ordinals (stable under harmless edits)"""
    name = re.sub(r"#\d+$", "", re.sub(r"@L\d+", "", name))
    # path tags of the branch-enumerating targets ([lt=False], [eq=T,gt=F,...]): the obligation is the same on every path, and a changed
    # function may have paths the unchanged one did not have
    return re.sub(r"\[(?:[\w.:()/ -]+=(?:T|F|True|False)(?:,|(?=\])))+\]", "", name)


def _run_target(args):
    prop, modname, idx = args
    t0 = time.time()
    mod = importlib.import_module(modname)
    name, module, qual, run = mod.targets()[idx]
    sess = Session(prop, name)
    crash = ""
    try:
        run(sess)
    except Exception as ex:
        from pyvc.symex import Unsupported
        from pyvc.overload import Unsupported as OUnsupported
        from pyvc.hoare import Unsupported as HUnsupported
        tb = traceback.extract_tb(ex.__traceback__)
        in_real_code = bool(tb) and tb[-1].filename.startswith("<") and isinstance(ex, (NameError, AttributeError, TypeError, KeyError, IndexError, ValueError, ZeroDivisionError))
        import z3 as _z3
        if isinstance(ex, _z3.Z3Exception):
            # the encoding met a value it has no rule for (e.g. the truth value of an object id): the construct is outside the subset
            sess.unsupported(f"Z3Exception while encoding: {ex}")
        elif isinstance(ex, (Unsupported, OUnsupported, HUnsupported, LookupError, NotImplementedError)) and not isinstance(ex, (KeyError, IndexError)):
            # the code under contract uses a construct the VC generator has no rule for: undecided, not a crash
            sess.unsupported(f"{type(ex).__name__}: {ex}")
        elif in_real_code:
            # the real function, executed on stand-in values, left the modelled subset (new name, new attribute, ...)
            sess.unsupported(f"real code left the modelled subset at {tb[-1].filename}:{tb[-1].lineno}: {type(ex).__name__}: {ex}")
        else:
            crash = traceback.format_exc()
    obs = []
    for o in sess.obligations:
        d = {k: v for k, v in o.__dict__.items() if not k.startswith("_")}
        obs.append(d)
    info = None
    try:
        info = source_info(module, qual)
    except Exception as ex:
        info = {"function": f"{module}:{qual}", "error": str(ex)}
    return {"target": name, "obligations": obs, "crash": crash, "source": info, "wall_s": time.time() - t0,
            "solver_s": sess.solver_time, "abstracted": sess.abstracted, "assumptions": sess.assumptions}


def run_proof_layer(prop: str, procs: int) -> List[Dict[str, Any]]:
    modname = f"contracts.{prop.lower()}"
    try:
        mod = importlib.import_module(modname)
    except ModuleNotFoundError:
        return []
    n = len(mod.targets())
    jobs = [(prop, modname, i) for i in range(n)]
    ctx = mp.get_context("fork")
    with ctx.Pool(min(procs, max(1, n))) as pool:
        return pool.map(_run_target, jobs, chunksize=1)


def run_bounded_layer(prop: str, tier: str, seed: int) -> Dict[str, Any]:
    script = os.path.join(HERE, "bounded", f"{prop.lower()}.py")
    if not os.path.exists(script):
        return {}
    out = os.path.join(OUT, "evidence", f".{prop}.bounded.json")
    os.makedirs(os.path.dirname(out), exist_ok=True)
    if os.path.exists(out):
        os.unlink(out)
    env = dict(os.environ)
    env["PYTHONPATH"] = os.path.join(core.REPO, "src") + os.pathsep + HERE
    env["VERIF_REPO"] = core.REPO
    env.setdefault("OMP_NUM_THREADS", "1")
    env.setdefault("OPENBLAS_NUM_THREADS", "1")
    env["MPLBACKEND"] = "Agg"
    t0 = time.time()
    r = subprocess.run([BOUNDED_PY, script, "--tier", tier, "--seed", str(seed), "--out", out],
                       capture_output=True, text=True, env=env, cwd=HERE)
    res: Dict[str, Any] = {}
    if os.path.exists(out):
        with open(out) as fh:
            res = json.load(fh)
        os.unlink(out)
    else:
        res = {"crash": f"bounded layer produced no result (exit {r.returncode})\n{r.stdout[-2000:]}\n{r.stderr[-4000:]}"}
    res["wall_s"] = time.time() - t0
    res["cmd"] = f"{BOUNDED_PY} bounded/{prop.lower()}.py --tier {tier} --seed {seed}"
    return res


def load_known() -> List[Dict[str, Any]]:
    p = os.path.join(HERE, "known_findings.json")
    if not os.path.exists(p):
        return []
    with open(p) as fh:
        return json.load(fh).get("findings", [])


def load_baseline(prop: str) -> set:
    p = os.path.join(HERE, "baseline_obligations.json")
    if not os.path.exists(p):
        return set()
    with open(p) as fh:
        return set(json.load(fh).get(prop, []))


def _fn_match(obl_function: str, fail_function: str) -> bool:
    fn = obl_function.split("[")[0]
    return bool(fail_function) and (fail_function in fn or fn.endswith(fail_function) or fn.split(":")[-1].split(".")[-1] == fail_function.split(".")[-1])


def _has_witness(o, bounded) -> bool:
    return any(_fn_match(o["function"], f.get("function", "")) for f in bounded.get("failures", []))


def match_known(known, prop: str, kind: str, key: str):
    for k in known:
        if k.get("status", "open") != "open" or k["property"] != prop or k["kind"] != kind:
            continue
        if re.search(k["match"], key):
            return k
    return None


def main(argv=None) -> int:
    ap = argparse.ArgumentParser()
    ap.add_argument("prop")
    ap.add_argument("--tier", default=os.environ.get("VERIF_TIER", "quick"))
    ap.add_argument("--replay", default=None)
    ap.add_argument("--procs", type=int, default=int(os.environ.get("VERIF_PROCS", "16")))
    ap.add_argument("--write-baseline", action="store_true")
    a = ap.parse_args(argv)
    prop = a.prop.upper()
    tier = a.tier if a.tier in ("quick", "thorough") else "quick"
    seed = int(os.environ.get("VERIF_SEED", "0") or 0)
    t0 = time.time()
    if a.replay:
        return replay(a.replay)
    evidence_path = os.path.join(OUT, "evidence", f"{prop}.json")
    os.makedirs(os.path.dirname(evidence_path), exist_ok=True)
    try:
        meta = importlib.import_module("contracts.meta").META[prop]
    except Exception:
        print(f"checker crash: no meta for {prop}\n{traceback.format_exc()}")
        return 3

    import shutil
    shutil.rmtree(os.path.join(OUT, "replays", prop), ignore_errors=True)
    results = run_proof_layer(prop, a.procs)
    bounded = run_bounded_layer(prop, tier, seed)
    known = load_known()
    baseline = load_baseline(prop)

    crashes = [r["target"] + ":\n" + r["crash"] for r in results if r["crash"]]
    if bounded.get("crash"):
        crashes.append("bounded: " + bounded["crash"])
    all_obs = [o for r in results for o in r["obligations"]]
    n_total = len(all_obs)
    good, undecided, violations, known_lines = [], [], [], []
    canary_fail = []
    for o in all_obs:
        st = o["status"]
        if o["expect_refuted"]:
            # vacuity canary: `path-condition |= False` must NOT be provable (sat, or unknown under quantifiers)
            if st == DISCHARGED:
                canary_fail.append(o)
            else:
                good.append(o)
            continue
        if st == DISCHARGED:
            good.append(o)
        elif st == REFUTED:
            k = match_known(known, prop, "obligation", base_name(o["name"]))
            if k is not None:
                known_lines.append((k, o))
            elif o.get("soft") and not [f for f in bounded.get("failures", []) if match_known(known, prop, "bounded", f["key"]) is None]:
                # a design rule (no hidden state, inputs left alone) no longer holds syntactically: what was proved under it is void,
                # but nothing shows the property itself broken (a correctly invalidated cache is legitimate) -> undecided
                o["detail"] = (o.get("detail", "") + " | design rule refuted and no native witness from the bounded layer: undecided, not a violation").strip()
                undecided.append(o)
            elif not baseline or base_name(o["name"]) in baseline or o.get("replay") or _has_witness(o, bounded):
                violations.append(o)
            else:
                o["detail"] = (o.get("detail", "") + " refuted, but not a baseline obligation and no replay: undecided").strip()
                undecided.append(o)
        else:
            undecided.append(o)
    b_fail_new = []
    for f in bounded.get("failures", []):
        k = match_known(known, prop, "bounded", f["key"])
        if k is not None:
            known_lines.append((k, f))
        else:
            b_fail_new.append(f)

    if a.write_baseline:
        p = os.path.join(HERE, "baseline_obligations.json")
        data = {}
        if os.path.exists(p):
            with open(p) as fh:
                data = json.load(fh)
        data[prop] = sorted({base_name(o["name"]) for o in good if not o["expect_refuted"]})
        with open(p, "w") as fh:
            json.dump(data, fh, indent=1, sort_keys=True)

    # attach native witnesses from the bounded layer to refuted obligations of the same function
    replay_dir = os.path.join(OUT, "replays", prop)
    lines = []
    nviol = 0
    if violations or b_fail_new:
        os.makedirs(replay_dir, exist_ok=True)
    used = set()
    n_rep: Dict[str, int] = {}
    for o in violations:
        fn = o["function"].split("[")[0]
        wit = None
        for f in b_fail_new:
            if _fn_match(o["function"], f.get("function", "")):
                wit = f
                used.add(id(f))
                break
        if wit is None and (o.get("replay") or {}).get("repro"):
            # replay at most a few counterexamples per function natively (each costs an interpreter start); the rest of the
            # function's refuted obligations keep their own input in the replay file, to be run with `./check --replay`
            n_rep[fn] = n_rep.get(fn, 0) + 1
            ok, out = run_repro(o["replay"]["repro"]) if n_rep[fn] <= 4 else (True, "not replayed in this run (more than 4 counterexamples for this function); run ./check --replay on this file")
            if ok:
                wit = {"key": "replayed:" + base_name(o["name"]), "function": fn, "what": out[-1500:], "repro": o["replay"]["repro"]}
        path = os.path.join(replay_dir, re.sub(r"[^A-Za-z0-9_.-]+", "_", o["name"])[:150] + ".json")
        with open(path, "w") as fh:
            json.dump({"property": prop, "obligation": o["name"], "kind": o["kind"], "function": o["function"], "line": o["line"],
                       "solver": o["backend"], "formula": o["formula"], "model": o["model"], "solver_output": o["detail"],
                       "witness": wit, "repro": (wit or {}).get("repro")}, fh, indent=1)
        rel = os.path.relpath(path, OUT)
        lines.append(f"VIOLATION property={prop} replay={rel}" + ("" if wit else " no-failing-input-found"))
        nviol += 1
    for f in b_fail_new:
        if id(f) in used:
            continue
        path = os.path.join(replay_dir, "bounded_" + hashlib.sha1(f["key"].encode()).hexdigest()[:12] + ".json")
        with open(path, "w") as fh:
            json.dump({"property": prop, "obligation": f"bounded:{f['key']}", "witness": f, "repro": f.get("repro")}, fh, indent=1)
        lines.append(f"VIOLATION property={prop} replay={os.path.relpath(path, OUT)}")
        nviol += 1
    seen = set()
    for k, o in known_lines:
        if k["id"] in seen:
            continue
        seen.add(k["id"])
        print(f"KNOWN-FINDING: property={prop} {k['what']}")

    # exit code.  A violation with a natively replayed witness stands even if another target of the same run crashed;
    # a vacuity canary that fails makes everything else meaningless.
    native = [f for f in b_fail_new if f.get("repro") or f.get("what")]
    if canary_fail:
        code = 3
    elif crashes and not native:
        code = 3
    elif nviol:
        code = 1
    elif undecided:
        code = 2
    elif n_total == 0 and not bounded.get("evaluations"):
        code = 3
    else:
        code = 0

    # evidence
    by_backend: Dict[str, int] = {}
    for o in good:
        by_backend[o["backend"]] = by_backend.get(o["backend"], 0) + 1
    solver_s = sum(o["time_s"] for o in all_obs)
    max_s = max([o["time_s"] for o in all_obs] or [0.0])
    samples = [{"obligation": o["name"], "status": o["status"], "backend": o["backend"], "formula": o["formula"][:240]} for o in all_obs[:: max(1, len(all_obs) // 12)]][:14]
    level = meta["level"]
    n_proved = len([o for o in good if not o["expect_refuted"]])
    n_oblig = len([o for o in all_obs if not o["expect_refuted"]])
    cov: Dict[str, Any] = {
        "obligations": n_oblig,
        "discharged": n_proved,
        "canaries_refuted": len([o for o in good if o["expect_refuted"] and o["status"] == REFUTED]),
        "canaries_unknown_but_not_vacuous": len([o for o in good if o["expect_refuted"] and o["status"] != REFUTED]),
        "known_finding_obligations": len([1 for k, o in known_lines if isinstance(o, dict) and "status" in o]),
        "checker_cmd": f"./check {prop} --tier {tier}   (python3-vt pyvc/driver.py; z3 {_z3v()} API, /usr/bin/cvc5 for z3-unknowns)",
        "trusted_base": meta.get("trusted_base", []) + ["pyvc encoding of the Python subset (DESIGN 2.2)", "z3 5.1 / cvc5 1.0.3"],
        "functions_under_contract": [r["source"] for r in results],
        "by_backend": by_backend,
        "solver_time_s": {"sum": round(solver_s, 3), "max": round(max_s, 3)},
        "undecided": [{"obligation": o["name"], "why": o["detail"][:300]} for o in undecided][:40],
        "abstracted": sorted({x for r in results for x in r["abstracted"]} | set(meta.get("abstracted", []))),
        "samples": samples,
        "explanation": meta["explanation"],
        "bounded_checks": {k: bounded.get(k) for k in ("bound", "evaluations", "distinct_nontrivial", "rule", "wall_s", "cmd", "parts") if k in bounded},
        "known_findings_matched": sorted(seen),
    }
    if bounded.get("samples"):
        cov["bounded_samples"] = bounded["samples"][:8]
    if level != "proof" or n_oblig == 0:
        cov["evaluations"] = int(bounded.get("evaluations", 0)) + n_oblig
        cov["distinct_nontrivial"] = int(bounded.get("distinct_nontrivial", 0)) + n_proved
        cov["rule"] = "obligations: one per generated verification condition (distinct by name); bounded: " + str(bounded.get("rule", "-"))
    ev = {
        "property_id": prop, "tier": tier, "seed": seed, "level": level, "coverage": cov,
        "assumptions": meta.get("assumptions", []) + sorted({x for r in results for x in r["assumptions"]}),
        "wall_s": round(time.time() - t0, 2), "violations": nviol, "exit_code": code,
    }
    with open(evidence_path, "w") as fh:
        json.dump(ev, fh, indent=1, default=str)
    for ln in lines:
        print(ln)
    for c in crashes:
        print("CHECKER-CRASH:", c[-3000:])
    for o in canary_fail:
        print("CHECKER-CRASH: vacuity canary not refuted:", o["name"], o["status"])
    for o in undecided[:20]:
        print("UNDECIDED:", o["name"], "-", o["detail"][:200])
    print(f"{prop}: obligations={n_oblig} discharged={n_proved} undecided={len(undecided)} violations={nviol} "
          f"known={len(seen)} bounded_evals={bounded.get('evaluations', 0)} wall={time.time() - t0:.1f}s exit={code}")
    return code


def run_repro(src: str):
    """run a native reproduction against the current tree; (True, output) iff it fails there (= the violation reproduces)"""
    env = dict(os.environ)
    env["PYTHONPATH"] = os.path.join(core.REPO, "src") + os.pathsep + HERE
    env["MPLBACKEND"] = "Agg"
    try:
        p = subprocess.run([BOUNDED_PY, "-c", src], env=env, capture_output=True, text=True, timeout=600)
    except subprocess.TimeoutExpired:
        return False, "timeout"
    out = p.stdout + p.stderr
    if p.returncode != 0 and any(k in out for k in ("SyntaxError", "ModuleNotFoundError", "ImportError: cannot import")):
        return False, "the reproduction script itself is broken (not counted as a witness):\n" + out[-800:]
    return p.returncode != 0, out


def _z3v():
    import z3
    return z3.get_version_string()


def replay(path: str) -> int:
    """re-run the native reproduction stored in a replay file against the current tree"""
    with open(path) as fh:
        r = json.load(fh)
    repro = r.get("repro")
    print(json.dumps({k: r.get(k) for k in ("property", "obligation", "function", "formula", "model")}, indent=1)[:3000])
    if not repro:
        print("no native reproduction stored (no-failing-input-found); the failed obligation and solver output are above")
        return 1
    ok, out = run_repro(repro)
    print(out[-3000:])
    print("REPRODUCED" if ok else "not reproduced on this tree")
    return 1 if ok else 0


if __name__ == "__main__":
    sys.exit(main())
