"""pyvc.hoare (E5): Hoare triples on the real, nested functions of a recursive routine over a circuit tree.

What is verified is the code that runs: on every run the enclosing function is re-read from the working tree, its nested
functions are taken as they are and executed by CPython -- on symbolic values.  Numbers are z3 reals/ints (`Rv`), the circuit is
a node of an uninterpreted sort `Node` with `kind`, `nchild`, `child`, the dictionaries the routine fills are z3 arrays keyed by
`Node` (`SymDict`), and every branch on a symbolic condition is answered by an oracle whose answers are enumerated depth-first
(only answers consistent with the path condition are followed).  Three mechanical rewrites are applied to the AST before it is
compiled, and nothing else:

  * `for` loops become cut points: the loop invariant (sidecar, from the contract file) is checked on entry, every variable the
    body assigns and every shared container / closure cell is havocked, the invariant is assumed for a generic number `i` of
    completed iterations, the real body is run ONCE on the generic item and the invariant is checked for `i + 1` (that path ends
    there); the code after the loop runs from the invariant plus the exit condition.  Unbounded in the number of children.
  * empty `{}` / `[]` displays and list displays become symbolic containers (same interface), so that they can be havocked;
  * function-level `import` statements are dropped (the names are provided by the contract's namespace).

Recursive calls (and any callee given a contract) are replaced by stand-ins that check the callee's precondition, havoc what it
may modify and assume its postcondition; the function under verification is then checked against its OWN contract, which is the
induction step of a structural induction over the tree.  Exceptions escaping on a feasible path are failed `no-raise` obligations.

Not modelled: `break`, loop `else`, `while`, comprehensions over symbolic containers, generators (=> Unsupported => undecided).
Termination is not proved (the recursion is structural on a finite tree)."""
from __future__ import annotations

import ast
import builtins
import copy
import itertools
from typing import Any, Callable, Dict, List, Optional, Sequence, Tuple

import z3

from . import core
from .core import Session


class Unsupported(Exception):
    pass


class PathEnd(Exception):
    """the current path ends here (generic iteration finished, or an assumption made the path infeasible)"""


class SymKeyError(KeyError):
    """KeyError of a symbolic dictionary: the real dictionary would raise it on this path"""


class SymIndexError(IndexError):
    pass


def classify_exception(ex: BaseException, module: str) -> str:
    """'raised' if the exception comes from a `raise` statement of the real code or from a symbolic container standing for a real
    one (the real code would raise it too); 'left-subset' if the real code, run on stand-in values, did something they do not
    model (a new attribute, a new name, an operation a stand-in lacks)"""
    import traceback
    if isinstance(ex, (SymKeyError, SymIndexError)):
        return "raised"
    if isinstance(ex, ValueError) and (str(ex).startswith("too many values to unpack") or str(ex).startswith("not enough values to unpack")):
        return "raised"          # unpacking a sequence of another length: the real code raises exactly this
    tb = traceback.extract_tb(ex.__traceback__)
    if tb and tb[-1].filename.startswith("<hoare:"):
        module = _FILE_MODULE.get(tb[-1].filename, module)       # a helper of another module that was compiled on demand
        try:
            line = core.module_source(module).splitlines()[tb[-1].lineno - 1].strip()
        except Exception:       # noqa: BLE001
            line = ""
        if line.startswith("raise "):
            return "raised"
    return "left-subset"


_FILE_MODULE: Dict[str, str] = {}


class _Continue(Exception):
    def __init__(self, lid):
        self.lid = lid


class _Break(Exception):
    def __init__(self, lid):
        self.lid = lid


# ------------------------------------------------------------------------------------------------ tree theory

NodeS = z3.DeclareSort("Node")
I, R, B = z3.IntSort(), z3.RealSort(), z3.BoolSort()
kind = z3.Function("kind", NodeS, I)
nchild = z3.Function("nchild", NodeS, I)
child = z3.Function("child", NodeS, I, NodeS)
sub = z3.Function("sub", NodeS, NodeS, B)          # sub(n, m): m is n or lies below n
br = z3.Function("br", NodeS, NodeS, I)            # index of the child of n whose subtree holds m
par = z3.Function("parent", NodeS, NodeS)
idx = z3.Function("idx", NodeS, I)
lo = z3.Function("lo", NodeS, I)
hi = z3.Function("hi", NodeS, I)
wire = z3.Function("wire", I, NodeS)               # integer keys of a Node-keyed dictionary
wire_no = z3.Function("wire_no", NodeS, I)

K_SERIES, K_PARALLEL, K_WIRE = 1, 2, 3
K_ELEMENT0 = 10                                    # element classes: 10, 11, ...

TREE_ASSUMPTION = ("the circuit is a finite ordered tree: no Element or Connection object occurs twice in it (every object the parser builds is new); "
                   "axiomatised as sub/child/br/par with an interval numbering lo/hi (DESIGN 1, E5)")


def is_wire(n):
    return kind(n) == K_WIRE


def is_conn(n):
    return z3.Or(kind(n) == K_SERIES, kind(n) == K_PARALLEL)


def is_elem(n):
    return kind(n) >= K_ELEMENT0


def tree_axioms() -> List[z3.ExprRef]:
    n, m = z3.Consts("n m", NodeS)
    i, j = z3.Ints("i j")
    c = child(n, i)
    inr = z3.And(0 <= i, i < nchild(n))
    ax = [
        z3.ForAll([n], z3.And(nchild(n) >= 0, lo(n) <= hi(n)), patterns=[nchild(n)]),
        z3.ForAll([n], sub(n, n), patterns=[sub(n, n)]),
        z3.ForAll([n], z3.Implies(z3.Not(is_conn(n)), nchild(n) == 0), patterns=[nchild(n)]),
        z3.ForAll([n, i], z3.Implies(inr, z3.And(par(c) == n, idx(c) == i, br(n, c) == i, lo(n) < lo(c), hi(c) < hi(n), sub(n, c), sub(c, c), c != n, z3.Not(is_wire(c)))), patterns=[c]),
        z3.ForAll([n, i, j], z3.Implies(z3.And(0 <= i, i < j, j < nchild(n)), hi(child(n, i)) < lo(child(n, j))), patterns=[z3.MultiPattern(child(n, i), child(n, j))]),
        # (descent is instantiated by hand, see `descent`: as a quantified axiom it feeds its own trigger)
        # ascent
        z3.ForAll([n, i, m], z3.Implies(z3.And(inr, sub(c, m)), z3.And(sub(n, m), br(n, m) == i, m != n)), patterns=[sub(c, m)]),
        # interval containment (gives disjointness of sibling subtrees by arithmetic)
        z3.ForAll([n, m], z3.Implies(sub(n, m), z3.And(lo(n) <= lo(m), hi(m) <= hi(n))), patterns=[sub(n, m)]),
        z3.ForAll([n, m], z3.Implies(z3.And(sub(n, m), sub(m, n)), n == m), patterns=[z3.MultiPattern(sub(n, m), sub(m, n))]),
        z3.ForAll([i], z3.And(wire_no(wire(i)) == i, kind(wire(i)) == K_WIRE), patterns=[wire(i)]),
        z3.ForAll([n, m], z3.Implies(z3.And(sub(n, m), z3.Not(is_wire(n))), z3.Not(is_wire(m))), patterns=[sub(n, m)]),
    ]
    return ax


def descent(n, m):
    """a proper descendant m of n lies below the child of n with index br(n, m) -- ground instance"""
    return z3.Implies(z3.And(sub(n, m), m != n), z3.And(0 <= br(n, m), br(n, m) < nchild(n), sub(child(n, br(n, m)), m)))


# ------------------------------------------------------------------------------------------------ path context

class Ctx:
    def __init__(self, sess: Session, script: List[bool], base: Sequence[z3.ExprRef]):
        self.sess = sess
        self.script, self.i = list(script), 0
        self.log: List[Tuple[str, bool]] = []
        self.pc: List[z3.ExprRef] = list(base)
        self.state: Dict[str, Any] = {}          # shared mutable state objects (havocked at loop heads and by callee stand-ins)
        self.nodes: Dict[str, Any] = {}
        self.fresh = itertools.count()
        self.placeholders: Dict[str, Any] = {}
        self.n_checks = 0
        self.dead = False
        self.skolems: List[z3.ExprRef] = []      # nodes the obligations talk about: descent is instantiated for them

    # -- facts
    def assume(self, *facts):
        for f in facts:
            if isinstance(f, bool):
                f = z3.BoolVal(f)
            self.pc.append(f)

    def _sat(self, extra) -> Optional[bool]:
        # E-matching only: with the quantified tree axioms z3 cannot answer `sat` anyway; what prunes a branch is `unsat`
        s = z3.SimpleSolver()
        s.set("mbqi", False)
        s.set("auto_config", False)
        s.set("timeout", 1500)
        s.add(*self.pc)
        s.add(extra)
        r = s.check()
        return True if r == z3.sat else False if r == z3.unsat else None

    def decide(self, e, what: str = "") -> bool:
        """truth value of the symbolic condition e on this path: forced by the path condition, or chosen by the oracle"""
        if isinstance(e, bool):
            return e
        e = z3.simplify(e)
        if z3.is_true(e):
            return True
        if z3.is_false(e):
            return False
        can_t, can_f = self._sat(e), self._sat(z3.Not(e))
        if can_t is False and can_f is False:
            self.dead = True
            raise PathEnd()
        if can_f is False:
            return True
        if can_t is False:
            return False
        if self.i < len(self.script):
            v = self.script[self.i]
        else:
            v = True
            self.script.append(v)
        self.i += 1
        self.log.append((what or str(e)[:80], v))
        self.pc.append(e if v else z3.Not(e))
        return v

    def choose(self, n: int, what: str = "") -> int:
        """oracle choice among n alternatives (unary encoding over boolean decisions)"""
        for k in range(n - 1):
            b = z3.Bool(f"choice!{next(self.fresh)}")
            if self.decide(b, f"{what}={k}"):
                return k
        return n - 1

    def check(self, label: str, goal, kind_: str = "post", line: int = 0):
        self.n_checks += 1
        return self.sess.check(kind_, self.pc, goal if not isinstance(goal, bool) else z3.BoolVal(goal), line, label=label, ematching_first=True)

    def canary(self, where: str):
        """vacuity: the path condition (axioms, preconditions, assumed invariants and callee contracts) must not prove False"""
        return self.sess.check("canary", self.pc, z3.BoolVal(False), 0, label=f"{where}: assumptions are consistent", expect_refuted=True, ematching_first=True)

    def fresh_real(self, name="r"):
        return Rv(z3.Real(f"{name}!{next(self.fresh)}"))

    def fresh_int(self, name="k"):
        return Rv(z3.Int(f"{name}!{next(self.fresh)}"))

    def placeholder(self, tag: str, payload=None) -> str:
        key = f"\u27e6{tag}\u27e7"
        self.placeholders[key] = payload
        return key


CTX: Optional[Ctx] = None


def ctx() -> Ctx:
    assert CTX is not None
    return CTX


def explore(sess: Session, base: Sequence[z3.ExprRef], run: Callable[[Ctx], Any], max_paths: int = 4000):
    """run(ctx) once per oracle script, depth-first"""
    global CTX
    stack: List[List[bool]] = [[]]
    n = 0
    while stack:
        if n >= max_paths:
            raise Unsupported(f"more than {max_paths} paths")
        script = stack.pop()
        c = Ctx(sess, script, base)
        CTX = c
        try:
            run(c)
        except PathEnd:
            pass
        finally:
            CTX = None
        n += 1
        for j in range(len(script), len(c.log)):
            stack.append([v for _, v in c.log[:j]] + [not c.log[j][1]])
    return n


# ------------------------------------------------------------------------------------------------ numbers

def _z(x):
    if isinstance(x, Rv):
        return x.e
    if z3.is_expr(x):
        return x
    if isinstance(x, bool):
        return z3.IntVal(int(x))
    if isinstance(x, int):
        return z3.IntVal(x)
    if isinstance(x, float):
        if x != x or x in (float("inf"), float("-inf")):
            raise Unsupported("non-finite float constant")
        return z3.RealVal(repr(x))
    raise Unsupported(f"not a number: {type(x).__name__}")


class Rv:
    """a symbolic number"""
    __slots__ = ("e",)

    def __init__(self, e):
        self.e = e

    def _b(self, o, f):
        try:
            return Rv(f(self.e, _z(o)))
        except Unsupported:
            return NotImplemented

    def __add__(s, o): return s._b(o, lambda a, b: a + b)
    def __radd__(s, o): return s._b(o, lambda a, b: b + a)
    def __sub__(s, o): return s._b(o, lambda a, b: a - b)
    def __rsub__(s, o): return s._b(o, lambda a, b: b - a)
    def __mul__(s, o): return s._b(o, lambda a, b: a * b)
    def __rmul__(s, o): return s._b(o, lambda a, b: b * a)
    def __truediv__(s, o): return s._b(o, lambda a, b: _to_real(a) / _to_real(b))
    def __rtruediv__(s, o): return s._b(o, lambda a, b: _to_real(b) / _to_real(a))
    def __floordiv__(s, o):
        oz = _z(o)
        if s.e.sort() != I or oz.sort() != I or not (z3.is_int_value(oz) and oz.as_long() > 0):
            raise Unsupported("floor division other than integer // positive constant")
        return Rv(s.e / oz)          # z3 integer division rounds towards minus infinity for a positive divisor, as Python does

    def __mod__(s, o):
        oz = _z(o)
        if s.e.sort() != I or oz.sort() != I or not (z3.is_int_value(oz) and oz.as_long() > 0):
            raise Unsupported("modulo other than integer % positive constant")
        return Rv(s.e % oz)

    def __neg__(s): return Rv(-s.e)
    def __pos__(s): return s
    def __abs__(s): return Rv(z3.If(s.e >= 0, s.e, -s.e))
    def __lt__(s, o): return ctx().decide(s.e < _z(o))
    def __le__(s, o): return ctx().decide(s.e <= _z(o))
    def __gt__(s, o): return ctx().decide(s.e > _z(o))
    def __ge__(s, o): return ctx().decide(s.e >= _z(o))

    def __eq__(s, o):
        try:
            return ctx().decide(s.e == _z(o))
        except Unsupported:
            return False

    def __ne__(s, o): return not s.__eq__(o)
    __hash__ = None  # type: ignore

    def __bool__(s): return ctx().decide(s.e != 0)
    def __str__(s):
        c = ctx()
        ids = c.state.setdefault("__num_ids__", {})
        k = s.e.sexpr()
        if k not in ids:
            ids[k] = len(ids)
        return c.placeholder(f"num:{ids[k]}", s)
    __repr__ = __str__

    def __format__(s, spec): return str(s)

    def __index__(s):
        raise Unsupported("symbolic number used as a Python index")


def num(x) -> Rv:
    return x if isinstance(x, Rv) else Rv(_z(x))


def sym_max(*a):
    if len(a) == 1:
        a = a[0]
        if isinstance(a, SymList):
            return a.max()
        a = list(a)
    if not any(isinstance(x, Rv) for x in a):
        return builtins.max(a)
    out = _z(a[0])
    for x in a[1:]:
        zx = _z(x)
        out = z3.If(zx > out, zx, out)
    return Rv(out)


def sym_min(*a):
    if len(a) == 1:
        if isinstance(a[0], SymList):
            return a[0].min()
        a = list(a[0])
    if not any(isinstance(x, Rv) for x in a):
        return builtins.min(a)
    out = _z(a[0])
    for x in a[1:]:
        zx = _z(x)
        out = z3.If(zx < out, zx, out)
    return Rv(out)


# ------------------------------------------------------------------------------------------------ nodes

class NodeBase:
    """Python face of a Node term; its class is its kind (decided when the object is made)"""
    KIND = -1

    def __init__(self, t):
        self.t = t

    def __hash__(self):
        return id(self)

    def __repr__(self):
        return ctx().placeholder(f"node:{self.t}", self)


def node_key(k):
    """Node term of a dictionary key"""
    if isinstance(k, NodeBase):
        return k.t
    if isinstance(k, Rv):
        return wire(k.e)
    if isinstance(k, int) and not isinstance(k, bool):
        return ctx().state.get("__generic_wire__", {}).get(k, wire(z3.IntVal(k)))
    raise Unsupported(f"dictionary key of type {type(k).__name__}")


class ChildList:
    """list(iter(connection)): the direct children, in order"""

    def __init__(self, node, space):
        self.node, self.space = node, space

    def __len__(self):
        raise Unsupported("len() of a symbolic list must go through the provided len")

    def length(self):
        return Rv(nchild(self.node.t))

    def __bool__(self):
        return ctx().decide(nchild(self.node.t) > 0, "the connection has children")

    def item(self, i):
        i = _z(i)
        c = ctx()
        if not c.decide(z3.And(i >= 0, i < nchild(self.node.t)), "index in range"):
            raise SymIndexError("list index out of range")
        return self.space.node_of(child(self.node.t, i))

    def __getitem__(self, i):
        if isinstance(i, slice):
            raise Unsupported("slice of a symbolic list")
        return self.item(i)

    def __iter__(self):
        raise Unsupported("iteration over a symbolic list outside a `for` statement")


class ChildIter:
    def __init__(self, node, space):
        self.node, self.space = node, space


class Enum:
    def __init__(self, seq):
        self.seq = seq


class Rev:
    def __init__(self, seq):
        self.seq = seq


class ListOf:
    def __init__(self, seq):
        self.seq = seq


class Filtered:
    def __init__(self, fn, seq):
        self.fn, self.seq = fn, seq


class IndexedSeq:
    """marker: a contract-supplied sequence with length() and item(i); a `for` over it is a cut point"""


class RangeSeq:
    """range(lo, hi) with symbolic bounds (step 1)"""

    def __init__(self, lo, hi):
        self.lo, self.hi = _z(lo), _z(hi)

    def length(self):
        return Rv(z3.If(self.hi > self.lo, self.hi - self.lo, z3.IntVal(0)))

    def item(self, i):
        return Rv(z3.simplify(self.lo + _z(i)))

    __getitem__ = item


class Mapped:
    """list(map(f, children)) for a function f with a pure contract: item i is f(child i)"""

    def __init__(self, fn, seq):
        self.fn, self.seq = fn, seq

    def length(self):
        return self.seq.length()

    def item(self, i):
        return self.fn(self.seq.item(i))

    __getitem__ = item


class _LazyClass:
    """type(x) of an element whose class the path has not fixed: compares unequal to the connection classes by identity, and
    decides the class when it is used as a dictionary key or compared"""

    def __init__(self, space, x):
        self.space, self.x = space, x

    def _cls(self):
        return self.space.class_of(self.x)

    def __hash__(self):
        return hash(self._cls())

    def __eq__(self, o):
        return self._cls() is o

    def __ne__(self, o):
        return self._cls() is not o

    @property
    def __name__(self):
        return self._cls().__name__


class NodeSpace:
    """the Python classes standing for the kinds of nodes, and the making of node objects"""

    def __init__(self, element_classes: Sequence[str], generic_element: str = "OtherElement"):
        sp = self

        class Connection(NodeBase):
            def __init__(self, elements=None, _t=None):
                c = ctx()
                if _t is not None:
                    NodeBase.__init__(self, _t)
                    return
                # a new connection made by the code under verification, e.g. Series([self])
                t = z3.Const(f"new!{next(c.fresh)}", NodeS)
                NodeBase.__init__(self, t)
                items = list(elements)
                c.assume(kind(t) == self.KIND, nchild(t) == len(items), z3.Not(is_wire(t)))
                c.assume(*[descent(t, m) for m in c.skolems])
                for k, it in enumerate(items):
                    c.assume(child(t, k) == it.t)

            def __iter__(self):
                return ChildIter(self, sp)

            @property
            def _elements(self):
                return ChildList(self, sp)

        class Series(Connection):
            KIND = K_SERIES
            REAL = [("circuit/series", "Series"), ("circuit/base", "Connection")]

        class Parallel(Connection):
            KIND = K_PARALLEL
            REAL = [("circuit/parallel", "Parallel"), ("circuit/base", "Connection")]

        def lazy(self_obj, name):
            """a method the stand-in does not have but the real class does (a helper the code under contract was refactored to
            call): the real method is compiled with the same rewrites and the same namespace, and bound"""
            if name.startswith("__") or sp.ns is None:
                raise AttributeError(name)
            for module, cls in getattr(type(self_obj), "REAL", []):
                try:
                    fn = core.find_def(module, f"{cls}.{name}")
                except LookupError:
                    continue
                if not isinstance(fn, ast.FunctionDef):
                    continue
                decos = {ast.unparse(d) for d in fn.decorator_list}
                f = build_function(fn, sp.ns, sp.vc, label=f"{cls}.{name}", module=module)
                if "staticmethod" in decos:
                    return f
                if "classmethod" in decos:
                    return lambda *a, **k: f(type(self_obj), *a, **k)
                return lambda *a, **k: f(self_obj, *a, **k)
            raise AttributeError(name)
        Connection.__getattr__ = lazy

        class Element(NodeBase):
            REAL = [("circuit/base", "Element")]

            def get_symbol(self):
                return ctx().placeholder(f"symbol({self.t})", ("symbol", self))

            def get_label(self):
                lab = z3.Bool(f"has_label({self.t})")
                return ctx().placeholder(f"label({self.t})", ("label", self)) if ctx().decide(lab, "element has a label") else ""

        Element.__getattr__ = lazy
        self.ns: Optional[Dict[str, Any]] = None       # set by the contract: namespace and VC used to compile lazily loaded real helper methods
        self.vc: Optional["VC"] = None
        self.Connection, self.Series, self.Parallel, self.Element = Connection, Series, Parallel, Element
        # the class of an element is decided only when the code asks for it (type(x), isinstance(x, Resistor))
        self.element_classes: Dict[str, type] = {}
        for k, name in enumerate(list(element_classes) + [generic_element]):
            self.element_classes[name] = type(name, (Element,), {"KIND": K_ELEMENT0 + k})
        self.generic_element = generic_element

        class AnyElement(Element):
            KIND = -2

            def __init__(self, t):
                Element.__init__(self, t)
                self.cls = None
        self.AnyElement = AnyElement
        self.by_kind: Dict[int, type] = {K_SERIES: Series, K_PARALLEL: Parallel}

    def namespace(self) -> Dict[str, Any]:
        d = {"Connection": self.Connection, "Series": self.Series, "Parallel": self.Parallel, "Element": self.Element, "type": self.sym_type}
        d.update({k: v for k, v in self.element_classes.items() if k != self.generic_element})
        return d

    def elem_range(self, t):
        return z3.And(kind(t) >= K_ELEMENT0, kind(t) < K_ELEMENT0 + len(self.element_classes))

    def kinds_fact(self, t, element_only=False, wires=False):
        alts = [self.elem_range(t)]
        if not element_only:
            alts += [kind(t) == K_SERIES, kind(t) == K_PARALLEL]
        if wires:
            alts.append(kind(t) == K_WIRE)
        return z3.Or(*alts)

    def class_of(self, x):
        """the class of element object x, decided now if the path has not decided it yet"""
        if not isinstance(x, self.AnyElement):
            return builtins.type(x)
        if x.cls is None:
            c = ctx()
            classes = list(self.element_classes.values())
            for cl in classes:
                if c.decide(kind(x.t) == cl.KIND, f"class({x.t})={cl.__name__}"):
                    x.cls = cl
                    break
            else:
                raise PathEnd()
        return x.cls

    def sym_type(self, x):
        if isinstance(x, self.AnyElement):
            return x.cls if x.cls is not None else _LazyClass(self, x)
        return builtins.type(x)

    def node_of(self, t, allow_wire: bool = False):
        """the object for term t; its kind is whatever the path condition says, else chosen by the oracle"""
        c = ctx()
        key = t.sexpr()
        if key in c.nodes:
            return c.nodes[key]
        for k, cl in self.by_kind.items():
            if c.decide(kind(t) == k, f"kind({key})={cl.__name__}"):
                obj = cl(_t=t)
                c.nodes[key] = obj
                c.assume(*[descent(t, m) for m in c.skolems])
                return obj
        if c.decide(self.elem_range(t), f"kind({key})=element"):
            obj = self.AnyElement(t)
            c.nodes[key] = obj
            c.assume(*[descent(t, m) for m in c.skolems])
            return obj
        if allow_wire and c.decide(kind(t) == K_WIRE, f"kind({key})=wire"):
            g = 10 ** 9 + next(c.fresh)
            c.state.setdefault("__generic_wire__", {})[g] = t
            c.nodes[key] = g
            return g
        raise PathEnd()          # no kind left: the path condition excludes every kind

    def sym_isinstance(self, x, cls):
        return builtins.isinstance(x, cls)


# ------------------------------------------------------------------------------------------------ containers

class SymDict:
    """dictionary keyed by nodes (and integers); values are tuples of numbers, stored per component"""

    def __init__(self, name: str, arity: int = 0):
        self.name = name
        self.has = z3.K(NodeS, z3.BoolVal(False))
        self.arity = arity
        self.cols: List[z3.ExprRef] = [z3.K(NodeS, z3.RealVal(0)) for _ in range(arity)]
        ctx().state[name] = self

    def _cols(self, n):
        if not self.cols:
            self.arity = n
            self.cols = [z3.K(NodeS, z3.RealVal(0)) for _ in range(n)]
        if n != self.arity:
            raise Unsupported(f"{self.name}: values of different shapes")

    def __setitem__(self, k, v):
        t = node_key(k)
        vals = list(v) if isinstance(v, tuple) else [v]
        self._cols(len(vals))
        self.has = z3.Store(self.has, t, z3.BoolVal(True))
        self.cols = [z3.Store(c, t, _to_real(_z(x))) for c, x in zip(self.cols, vals)]

    def __getitem__(self, k):
        t = node_key(k)
        if not ctx().decide(z3.Select(self.has, t), f"{self.name} has the key"):
            raise SymKeyError(f"{self.name}[{t}]")
        vals = [Rv(z3.Select(c, t)) for c in self.cols]
        return tuple(vals) if self.arity != 1 else vals[0]

    def __contains__(self, k):
        return ctx().decide(z3.Select(self.has, node_key(k)), f"{self.name} has the key")

    def get(self, k, default=None):
        return self[k] if k in self else default

    def keys(self):
        return self

    def __iter__(self):
        raise Unsupported("iteration over a symbolic dictionary outside a `for` statement")

    def snapshot(self):
        return (self.has, list(self.cols))

    def havoc(self):
        n = next(ctx().fresh)
        self.has = z3.Const(f"{self.name}.has!{n}", z3.ArraySort(NodeS, B))
        self.cols = [z3.Const(f"{self.name}.{j}!{n}", z3.ArraySort(NodeS, R)) for j in range(self.arity)]


def _to_real(e):
    return z3.ToReal(e) if e.sort() == I else e


class KeySet:
    def __init__(self, has):
        self.has = has

    def __eq__(self, o):
        return ctx().decide(self.has == o.has, "same key sets")

    def __ne__(self, o):
        return not self.__eq__(o)

    __hash__ = None  # type: ignore


class SymList:
    """list of numbers built by append (widths, heights): length + array"""

    def __init__(self, name: str, items=()):
        self.name = name
        self.len = z3.IntVal(0)
        self.arr = z3.K(I, z3.RealVal(0))
        ctx().state[name] = self
        for x in items:
            self.append(x)

    def append(self, x):
        self.arr = z3.Store(self.arr, self.len, _to_real(_z(x)))
        self.len = z3.simplify(self.len + 1)

    def length(self):
        return Rv(self.len)

    def _index(self, i):
        # Python's negative indices count from the end (concrete ones only: a symbolic index is taken as it is)
        if isinstance(i, int) and not isinstance(i, bool) and i < 0:
            return z3.simplify(self.len + i)
        return _z(i)

    def _bounds(self, k):
        """(start, stop) of a slice with step 1, clamped to the list the way Python / numpy clamp them"""
        if k.step not in (None, 1):
            raise Unsupported("slice with a step")

        def norm(v, default):
            if v is None:
                return default
            e = self._index(v)
            return z3.If(e < 0, z3.IntVal(0), z3.If(e > self.len, self.len, e))
        lo, hi = norm(k.start, z3.IntVal(0)), norm(k.stop, self.len)
        return z3.simplify(lo), z3.simplify(z3.If(hi < lo, lo, hi))

    def item(self, i):
        if isinstance(i, slice):
            lo, hi = self._bounds(i)
            j = z3.Int("j!slice")
            return SymVec(z3.simplify(hi - lo), z3.Lambda([j], z3.Select(self.arr, lo + j)))
        i = self._index(i)
        if not ctx().decide(z3.And(i >= 0, i < self.len), "index in range"):
            raise SymIndexError("list index out of range")
        return Rv(z3.Select(self.arr, i))

    __getitem__ = item

    def __setitem__(self, i, v):
        if isinstance(i, slice):
            # numpy semantics (arrays of numbers): the right-hand side is a scalar or has exactly the length of the slice
            lo, hi = self._bounds(i)
            j = z3.Int("j!slice")
            if isinstance(v, (SymVec, SymList)):
                if not ctx().decide(v.len == hi - lo, "the assigned values have the length of the slice"):
                    raise ValueError("could not broadcast input array into the shape of the slice")
                new = z3.Select(v.arr, j - lo)
            else:
                new = _to_real(_z(v))
            self.arr = z3.Lambda([j], z3.If(z3.And(lo <= j, j < hi), new, z3.Select(self.arr, j)))
            return
        i = self._index(i)
        if not ctx().decide(z3.And(i >= 0, i < self.len), "index in range"):
            raise SymIndexError("list assignment index out of range")
        self.arr = z3.Store(self.arr, i, _to_real(_z(v)))

    def __mul__(self, n):
        """[x] * n: a new list of n copies"""
        if not (z3.is_int_value(z3.simplify(self.len)) and z3.simplify(self.len).as_long() == 1):
            raise Unsupported("repetition of a list that is not a one-element display")
        nz = _z(n)
        out = SymList(f"{self.name}*{next(ctx().fresh)}")
        out.arr = z3.K(I, z3.simplify(z3.Select(self.arr, 0)))
        out.len = z3.If(nz > 0, nz, z3.IntVal(0))
        return out

    def max(self):
        c = ctx()
        if not c.decide(self.len >= 1, "list is not empty"):
            raise ValueError("max() arg is an empty sequence")
        m = c.fresh_real("max")
        j = z3.Int("j")
        c.assume(z3.ForAll([j], z3.Implies(z3.And(0 <= j, j < self.len), z3.Select(self.arr, j) <= m.e), patterns=[z3.Select(self.arr, j)]))
        return m

    def min(self):
        c = ctx()
        if not c.decide(self.len >= 1, "list is not empty"):
            raise ValueError("min() arg is an empty sequence")
        m = c.fresh_real("min")
        j = z3.Int("j")
        c.assume(z3.ForAll([j], z3.Implies(z3.And(0 <= j, j < self.len), z3.Select(self.arr, j) >= m.e), patterns=[z3.Select(self.arr, j)]))
        return m

    def sum(self):
        return Rv(z3.Function("list_sum", z3.ArraySort(I, R), I, R)(self.arr, self.len))

    def snapshot(self):
        return (self.len, self.arr)

    def havoc(self):
        n = next(ctx().fresh)
        self.len = z3.Int(f"{self.name}.len!{n}")
        self.arr = z3.Const(f"{self.name}.arr!{n}", z3.ArraySort(I, R))
        ctx().assume(self.len >= 0)

    def __iter__(self):
        raise Unsupported("iteration over a symbolic list outside a `for` statement")


class SymVec:
    """an immutable vector of numbers given by its length and a (lambda) array: what slicing a SymList and elementwise numpy
    arithmetic on such slices produce.  Two vectors combine only when their lengths agree (numpy would raise otherwise)."""

    def __init__(self, length, arr):
        self.len, self.arr = length, arr

    def length(self):
        return Rv(self.len)

    def _with(self, other, op, rev=False):
        j = z3.Int("j!vec")
        a = z3.Select(self.arr, j)
        if isinstance(other, (SymVec, SymList)):
            if not ctx().decide(other.len == self.len, "the two vectors have the same length"):
                raise ValueError("operands could not be broadcast together")
            b = z3.Select(other.arr, j)
        else:
            b = _to_real(_z(other))
        x, y = (b, a) if rev else (a, b)
        body = {"add": lambda: x + y, "sub": lambda: x - y, "mul": lambda: x * y, "div": lambda: x / y}[op]()
        return SymVec(self.len, z3.Lambda([j], body))

    def __add__(s, o): return s._with(o, "add")
    def __radd__(s, o): return s._with(o, "add", True)
    def __sub__(s, o): return s._with(o, "sub")
    def __rsub__(s, o): return s._with(o, "sub", True)
    def __mul__(s, o): return s._with(o, "mul")
    def __rmul__(s, o): return s._with(o, "mul", True)

    def __truediv__(s, o):
        if isinstance(o, (SymVec, SymList)):
            raise Unsupported("division by a vector")
        if not ctx().decide(_to_real(_z(o)) != 0, "divisor is not zero"):
            raise ZeroDivisionError("division by zero")
        return s._with(o, "div")

    def __neg__(s): return s._with(-1, "mul")

    def item(self, i):
        if isinstance(i, slice):
            raise Unsupported("slice of a slice")
        i = z3.simplify(self.len + i) if isinstance(i, int) and not isinstance(i, bool) and i < 0 else _z(i)
        if not ctx().decide(z3.And(i >= 0, i < self.len), "index in range"):
            raise SymIndexError("index out of range")
        return Rv(z3.simplify(z3.Select(self.arr, i)))
    __getitem__ = item

    def __iter__(self):
        raise Unsupported("iteration over a symbolic vector")


class SymSeq:
    """a list that is only consumed: the items arr[start:end] of an immutable sequence (the lines of a file).  pop(0), truth
    value, len, [k:] -- what line-oriented parsers do.  `make` turns an item term into the object the code sees."""

    def __init__(self, name, arr, start, end, make):
        self.name, self.arr, self.start, self.end, self.make = name, arr, _z(start), _z(end), make
        ctx().state[f"{name}#{next(ctx().fresh)}"] = self

    def __bool__(self):
        return ctx().decide(self.start < self.end, f"{self.name} is not empty")

    def length(self):
        return Rv(z3.simplify(self.end - self.start))

    def pop(self, k=-1):
        if not (isinstance(k, int) and k == 0):
            raise Unsupported("pop other than pop(0) on a consumed sequence")
        if not ctx().decide(self.start < self.end, f"{self.name} is not empty"):
            raise SymIndexError("pop from empty list")
        item = self.make(z3.Select(self.arr, self.start))
        self.start = z3.simplify(self.start + 1)
        return item

    def __getitem__(self, k):
        if isinstance(k, slice) and k.stop is None and k.step is None and isinstance(k.start, int) and k.start >= 0:
            ns = z3.If(self.start + k.start < self.end, self.start + k.start, self.end)
            return SymSeq(self.name, self.arr, z3.simplify(ns), self.end, self.make)
        if isinstance(k, (int, Rv)) and not isinstance(k, bool):
            kz = _z(k)
            if not ctx().decide(z3.And(kz >= 0, self.start + kz < self.end), "index in range"):
                raise SymIndexError("list index out of range")
            return self.make(z3.Select(self.arr, z3.simplify(self.start + kz)))
        raise Unsupported("this subscript of a consumed sequence")

    def snapshot(self):
        return (self.start, self.end)

    def havoc(self):
        self.start = z3.Int(f"{self.name}.start!{next(ctx().fresh)}")

    def __iter__(self):
        raise Unsupported("iteration over a consumed sequence outside a `for` statement")


class Log(list):
    """a real Python list that records what is appended (lines of output); havoc = forget the prefix"""

    def __init__(self, name, items=()):
        super().__init__(items)
        self.name = name
        self.forgotten = False
        ctx().state[name] = self

    def snapshot(self):
        return (self.forgotten, len(self))

    def havoc(self):
        self.forgotten = True
        del self[:]


class Cell:
    """closure cell of the routine (a `nonlocal` counter)"""

    def __init__(self, name, cell):
        self.name, self.cell = name, cell
        ctx().state["cell:" + name] = self

    @property
    def value(self):
        return self.cell.cell_contents

    def set(self, v):
        self.cell.cell_contents = v

    def snapshot(self):
        return self.cell.cell_contents

    def havoc(self):
        v = self.cell.cell_contents
        if isinstance(v, Rv) or (isinstance(v, (int, float)) and not isinstance(v, bool)):
            isint = (v.e.sort() == I) if isinstance(v, Rv) else isinstance(v, int)
            self.cell.cell_contents = ctx().fresh_int(self.name) if isint else ctx().fresh_real(self.name)
        # anything else (functions, containers, flags) is not reassigned by the routines handled here; checked by `assigned_nonlocals`


class Ghost:
    """ghost state of a stand-in object (counters, arrays)"""

    def __init__(self, name, **fields):
        self.name = name
        self.f = dict(fields)
        ctx().state["ghost:" + name] = self

    def snapshot(self):
        return dict(self.f)

    def havoc(self):
        n = next(ctx().fresh)
        for k, v in list(self.f.items()):
            self.f[k] = z3.Const(f"{self.name}.{k}!{n}", v.sort())


def havoc_all(c: Ctx):
    for k, o in list(c.state.items()):
        if hasattr(o, "havoc"):
            o.havoc()


def snapshot_all(c: Ctx) -> Dict[str, Any]:
    return {k: o.snapshot() for k, o in c.state.items() if hasattr(o, "snapshot")}


# ------------------------------------------------------------------------------------------------ loops

class LoopEnv:
    """what a loop invariant may talk about"""

    def __init__(self, lid, seq, loc, entry):
        self.lid, self.seq, self.loc, self.entry = lid, seq, loc, entry
        self.i: Any = None           # number of completed iterations (z3 Int)
        self.n: Any = None           # total number of iterations (z3 Int), or None for key sets
        self.seen: Any = None        # keys visited so far (array Node -> Bool) for loops over the keys of a dictionary
        self.keys: Any = None

    def var(self, name):
        v = self.loc.get(name)
        return v

    def unique(self, cls, name):
        """the local called `name`, or -- after a rename -- the only local of that kind"""
        if name in self.loc and isinstance(self.loc[name], cls):
            return self.loc[name]
        names = getattr(self, "entry_names", None)
        cands = [v for k, v in self.loc.items() if isinstance(v, cls) and not k.startswith("__") and (names is None or k in names)]
        if len(cands) == 1:
            return cands[0]
        raise KeyError(name)


class LoopSpecs:
    """sidecar loop invariants: (function, ordinal of the loop in the function) -> callable(env) -> [(label, formula)]"""

    def __init__(self):
        self.inv: Dict[Tuple[str, int], Callable[[LoopEnv], List[Tuple[str, Any]]]] = {}

    def add(self, fn: str, ordinal: int):
        def deco(f):
            self.inv[(fn, ordinal)] = f
            return f
        return deco


def _eval_inv(env):
    """the sidecar invariant on the current state; an invariant that names a local variable the code no longer has (a harmless
    rename) or meets a value of another shape cannot be evaluated: the loop is then unsupported, which is `undecided`"""
    try:
        return list(env.inv(env))
    except (KeyError, AttributeError, TypeError, IndexError) as ex:
        raise Unsupported(f"the sidecar invariant of loop {env.lid} does not fit the code any more ({type(ex).__name__}: {ex})")


class VC:
    """run-time half of the rewrites (the object `__vc` in the compiled code)"""

    def __init__(self, specs: LoopSpecs, space: NodeSpace):
        self.specs, self.space = specs, space
        space.vc = self
        self.Continue = _Continue
        self.Break = _Break

    def is_concrete(self, it):
        if isinstance(it, (SymDict, SymList, ChildList, ChildIter, Enum, Rev, ListOf, Filtered, Mapped, RangeSeq, NodeBase, IndexedSeq)):
            return False
        if isinstance(it, Log) and it.forgotten:
            return False
        return True

    def any_is(self, seq, x):
        """any(item is x for item in seq)"""
        if isinstance(seq, ChildList):
            if not isinstance(x, NodeBase):
                return False            # an integer, a string, ...: never one of the children
            n, o = seq.node.t, x.t
            return ctx().decide(z3.And(par(o) == n, 0 <= idx(o), idx(o) < nchild(n), child(n, idx(o)) == o, z3.Not(is_wire(o))), "is a direct child")
        return builtins.any(item is x for item in seq)

    def repeat(self, x, n):
        """[x] * n"""
        if isinstance(n, Rv):
            if not isinstance(x, (int, float, Rv)):
                raise Unsupported("repetition of a non-number a symbolic number of times")
            return SymList(f"rep{next(ctx().fresh)}", [x]) * n
        return [x] * n

    def getitem(self, seq, k):
        """seq[k]; a symbolic index into an ordinary list/tuple is made concrete by the oracle (one branch per feasible position)"""
        if isinstance(k, Rv) and isinstance(seq, (list, tuple)) and not isinstance(seq, Log):
            c = ctx()
            n = len(seq)
            for pos in range(n):
                if c.decide(k.e == pos, f"index == {pos}"):
                    return seq[pos]
            for pos in range(1, n + 1):
                if c.decide(k.e == -pos, f"index == -{pos}"):
                    return seq[-pos]
            raise SymIndexError("list index out of range")
        return seq[k]

    # containers
    def new_dict(self, name):
        return SymDict(name)

    def new_list(self, name, items=()):
        items = list(items)
        if name in getattr(self, "factories", {}):
            return self.factories[name](items)
        if items and all(isinstance(x, str) for x in items):
            return Log(name, items)
        if items and not all(isinstance(x, (Rv, int, float)) for x in items):
            return items            # a list of objects: an ordinary list
        return SymList(name, items)

    # loops
    def loop_enter(self, lid, seq, loc):
        c = ctx()
        fn, ordinal = lid
        inv = self.specs.inv.get((fn, ordinal))
        if inv is None:
            raise Unsupported(f"loop {ordinal} of {fn} has no invariant")
        env = LoopEnv(lid, seq, dict(loc), snapshot_all(c))
        env.entry_names = {k for k, v in loc.items() if v is not _UNBOUND}      # what is bound before the loop (loop-local temporaries are not)
        env.inv = inv
        env.kindseq = ("while",) if isinstance(ordinal, str) else self._classify(seq)
        # initial check
        self._bind_counters(env, start=True)
        env.loc = dict(loc)
        for label, f in _eval_inv(env):
            c.check(f"{fn} loop {ordinal}: invariant holds on entry: {label}", f, "inv-init")
        return env

    def _classify(self, seq):
        rev = False
        s = seq
        if isinstance(s, Rev):
            rev, s = True, s.seq
            if isinstance(s, ListOf):
                s = s.seq
        enum = False
        if isinstance(s, Enum):
            enum, s = True, s.seq
        if isinstance(s, ListOf):
            s = s.seq
        flt = None
        if isinstance(s, Filtered):
            flt, s = s.fn, s.seq
        if isinstance(s, (self.space.Connection, ChildIter)):
            s = ChildList(s if isinstance(s, NodeBase) else s.node, self.space)
        if isinstance(s, (ChildList, SymList, Mapped, RangeSeq, IndexedSeq)):
            return ("indexed", s, enum, rev, flt)
        if isinstance(s, SymDict):
            if enum or rev:
                raise Unsupported("enumerate/reversed over dictionary keys")
            return ("keys", s, False, False, flt)
        raise Unsupported(f"loop over {type(seq).__name__}")

    def _bind_counters(self, env, start=False):
        c = ctx()
        k = env.kindseq
        if k[0] == "while":
            return
        if k[0] == "indexed":
            env.n = k[1].length().e
            env.i = z3.IntVal(0) if start else z3.Int(f"i!{next(c.fresh)}")
            if not start:
                c.assume(env.i >= 0, env.i <= env.n)
        else:
            d: SymDict = k[1]
            env.keys = env.entry[d.name][0]
            env.seen = z3.K(NodeS, z3.BoolVal(False)) if start else z3.Const(f"seen!{next(c.fresh)}", z3.ArraySort(NodeS, B))
            if not start:
                m = z3.Const("m", NodeS)
                c.assume(z3.ForAll([m], z3.Implies(z3.Select(env.seen, m), z3.Select(env.keys, m)), patterns=[z3.Select(env.seen, m)]))

    def havoc_local(self, env, name, loc):
        if name not in loc:
            return _UNBOUND
        v = loc[name]
        c = ctx()
        if v is _UNBOUND:
            return _UNBOUND
        if isinstance(v, bool):
            return c.decide(z3.Bool(f"{name}!{next(c.fresh)}"), f"{name} after some iterations")
        if isinstance(v, Rv):
            return c.fresh_int(name) if v.e.sort() == I else c.fresh_real(name)
        if isinstance(v, int):
            return c.fresh_int(name)
        if isinstance(v, float):
            return c.fresh_real(name)
        if isinstance(v, (SymDict, SymList, Log)) or (hasattr(v, "havoc") and hasattr(v, "snapshot")):
            return v            # a state object: havocked in place (loop_havoc)
        if isinstance(v, str):
            return c.placeholder(f"str:{name}:{next(c.fresh)}")
        if v is None or isinstance(v, NodeBase) or v is _UNBOUND:
            return _UNBOUND     # loop-local: assigned in the body before it is read (reading _UNBOUND is Unsupported)
        # an object of some other kind that the body assigns: unknown after the havoc -- reading it before the body has assigned
        # it again (or after the loop) is reported as unsupported at that point
        return _UNBOUND

    def loop_havoc(self, env, loc):
        c = ctx()
        havoc_all(c)
        self._bind_counters(env)
        env.loc = dict(loc)
        for label, f in _eval_inv(env):
            c.assume(f)
        env.pre_step = snapshot_all(c)

    def loop_more(self, env):
        c = ctx()
        if env.kindseq[0] == "indexed":
            return c.decide(env.i < env.n, "another iteration")
        # some key not yet seen
        k = z3.Const(f"key!{next(c.fresh)}", NodeS)
        env.key = k
        more = z3.Bool(f"more!{next(c.fresh)}")
        if c.decide(more, "another key"):
            c.assume(z3.Select(env.keys, k), z3.Not(z3.Select(env.seen, k)))
            return True
        m = z3.Const("m", NodeS)
        c.assume(z3.ForAll([m], z3.Select(env.seen, m) == z3.Select(env.keys, m), patterns=[z3.Select(env.seen, m)]))
        c.assume(env.seen == env.keys)
        return False

    def loop_item(self, env):
        c = ctx()
        kindseq, s, enum, rev, flt = env.kindseq
        if kindseq == "indexed":
            index = (env.n - 1 - env.i) if rev else env.i
            env.index = index
            item = s.item(Rv(z3.simplify(index)))
            if flt is not None and not flt(item):
                raise _Continue(env.lid)
            return (Rv(z3.simplify(index)), item) if enum else item
        item = self.space.node_of(env.key, allow_wire=True)
        if flt is not None and not flt(item):
            raise _Continue(env.lid)
        return item

    def loop_step(self, env, loc):
        c = ctx()
        fn, ordinal = env.lid
        env.entry_step = env.pre_step
        if env.kindseq[0] == "indexed":
            env.i = env.i + 1
        elif env.kindseq[0] == "keys":
            env.seen = z3.Store(env.seen, env.key, z3.BoolVal(True))
        env.loc = dict(loc)
        c.canary(f"{fn} loop {ordinal}, after a generic iteration")
        for label, f in _eval_inv(env):
            c.check(f"{fn} loop {ordinal}: invariant is preserved: {label}", f, "inv-step")
        raise PathEnd()

    def loop_exit(self, env, loc):
        c = ctx()
        if env.kindseq[0] == "indexed":
            c.assume(env.i == env.n)


class _Unbound:
    def _no(self, *a, **k):
        raise Unsupported("a variable assigned only inside a loop is read after it")
    __add__ = __radd__ = __lt__ = __gt__ = __le__ = __ge__ = __bool__ = __call__ = __getitem__ = __iter__ = _no

    def __getattr__(self, n):
        raise Unsupported("a variable assigned only inside a loop is read after it")


_UNBOUND = _Unbound()


# ------------------------------------------------------------------------------------------------ AST rewriting

def _stored_names(nodes: List[ast.stmt]) -> List[str]:
    out: List[str] = []
    for s in nodes:
        for n in ast.walk(s):
            if isinstance(n, (ast.FunctionDef, ast.Lambda)):
                continue
            if isinstance(n, ast.Name) and isinstance(n.ctx, ast.Store) and n.id not in out and not n.id.startswith("__"):
                out.append(n.id)
    return out


class _Rewriter(ast.NodeTransformer):
    def __init__(self, fn_name: str, label: Optional[str] = None, bounded_whiles=()):
        self.fn = fn_name
        self.label = label or fn_name
        self.bounded_whiles = set(bounded_whiles)
        self.ordinal = 0
        self.loop_stack: List[Tuple[str, int]] = []

    def visit_FunctionDef(self, node):
        if node.name != self.fn:
            return node        # nested functions are rewritten on their own
        self.generic_visit(node)
        return node

    def visit_Lambda(self, node):
        return node

    def visit_Import(self, node):
        return ast.Pass()

    visit_ImportFrom = visit_Import

    def visit_While(self, node):
        # a `while` whose trip count is bounded by a constant of the code is simply executed (every comparison is an oracle
        # decision pruned by the path condition; the exploration ends because continuing becomes infeasible); the contract has to
        # name such loops, everything else is unsupported
        self.wordinal = getattr(self, "wordinal", 0) + 1
        if node.orelse:
            raise Unsupported(f"while/else in {self.fn}")
        if (self.label, self.wordinal) in getattr(self, "bounded_whiles", ()):
            if any(isinstance(n, (ast.Break, ast.Continue)) for n in ast.walk(node)):
                raise Unsupported(f"break/continue in the bounded while loop {self.wordinal} of {self.fn}")
            self.generic_visit(node)
            return node
        # any other `while` is a cut point with a sidecar invariant over the state (no counter): invariant on entry, havoc, assume,
        # one generic iteration under the condition (-> invariant again, path ends) or exit under its negation; `break` leaves
        # with the state it has
        lid = (self.label, f"w{self.wordinal}")
        self.loop_stack.append(lid)
        body = [self.visit(s) for s in node.body]
        body = [s for b in body for s in (b if isinstance(b, list) else [b])]
        self.loop_stack.pop()
        L = f"__W{self.wordinal}"
        stored = _stored_names(node.body)
        pre = [f"{L} = __vc.loop_enter({lid!r}, None, locals())"]
        for n in stored:
            pre.append(f"{n} = __vc.havoc_local({L}, {n!r}, locals())")
        pre.append(f"__vc.loop_havoc({L}, locals())")
        cut = ast.parse("\n".join(pre)).body
        guard = ast.parse(f"try:\n    if __COND__:\n        try:\n            pass\n        except __vc.Continue as __c:\n            if __c.lid != {lid!r}: raise\n        __vc.loop_step({L}, locals())\nexcept __vc.Break as __b:\n    if __b.lid != {lid!r}: raise\n__vc.loop_exit({L}, locals())").body
        iff = guard[0].body[0]
        iff.test = self.visit(node.test)
        iff.body[0].body = body or [ast.Pass()]
        out = cut + guard
        for s in out:
            ast.copy_location(s, node)
            ast.fix_missing_locations(s)
        return out

    def visit_Call(self, node):
        self.generic_visit(node)
        # any(item is X for item in SEQ): identity membership -- over the children of a symbolic connection this is "X is a direct
        # child", which the tree theory can state (a generator over a symbolic sequence cannot be run)
        if isinstance(node.func, ast.Name) and node.func.id == "any" and len(node.args) == 1 and isinstance(node.args[0], ast.GeneratorExp):
            g = node.args[0]
            if len(g.generators) == 1 and not g.generators[0].ifs and isinstance(g.generators[0].target, ast.Name) and isinstance(g.elt, ast.Compare) \
                    and len(g.elt.ops) == 1 and isinstance(g.elt.ops[0], ast.Is) and isinstance(g.elt.left, ast.Name) and g.elt.left.id == g.generators[0].target.id:
                call = ast.parse("__vc.any_is(0, 0)", mode="eval").body
                call.args = [g.generators[0].iter, g.elt.comparators[0]]
                return ast.copy_location(call, node)
        return node

    def visit_BinOp(self, node):
        self.generic_visit(node)
        if isinstance(node.op, ast.Mult) and isinstance(node.left, ast.List) and len(node.left.elts) == 1:
            call = ast.parse("__vc.repeat(0, 0)", mode="eval").body
            call.args = [node.left.elts[0], node.right]
            return ast.copy_location(call, node)
        return node

    def visit_Subscript(self, node):
        self.generic_visit(node)
        if isinstance(node.ctx, ast.Load) and not isinstance(node.slice, ast.Slice):
            call = ast.parse("__vc.getitem(0, 0)", mode="eval").body
            call.args = [node.value, node.slice]
            return ast.copy_location(call, node)
        return node

    def visit_Break(self, node):
        if not self.loop_stack or not str(self.loop_stack[-1][1]).startswith("w"):
            raise Unsupported(f"break out of a for loop in {self.fn}")
        return ast.parse(f"raise __vc.Break({self.loop_stack[-1]!r})").body[0]

    def visit_Continue(self, node):
        lid = self.loop_stack[-1]
        return ast.parse(f"raise __vc.Continue({lid!r})").body[0]

    def _name_for(self, target) -> str:
        return ast.unparse(target) if isinstance(target, (ast.Name, ast.Attribute)) else "container"

    def visit_Assign(self, node):
        self.generic_visit(node)
        node.value = self._container(node.value, self._name_for(node.targets[0]))
        return node

    def visit_AnnAssign(self, node):
        self.generic_visit(node)
        if node.value is not None:
            node.value = self._container(node.value, self._name_for(node.target))
        return node

    def _container(self, v, name):
        if isinstance(v, ast.Dict) and not v.keys:
            return ast.parse(f"__vc.new_dict({name!r})", mode="eval").body
        if isinstance(v, ast.List):
            call = ast.parse(f"__vc.new_list({name!r})", mode="eval").body
            call.args.append(ast.List(elts=v.elts, ctx=ast.Load()))
            return call
        return v

    def visit_For(self, node):
        if node.orelse:
            raise Unsupported(f"for/else in {self.fn}")
        self.ordinal += 1
        lid = (self.label, self.ordinal)
        self.loop_stack.append(lid)
        body = [self.visit(s) for s in node.body]
        body = [s for b in body for s in (b if isinstance(b, list) else [b])]
        self.loop_stack.pop()
        L = f"__L{self.ordinal}"
        IT = f"__it{self.ordinal}"
        stored = [n for n in _stored_names(node.body) if n not in _stored_names([ast.Assign(targets=[node.target], value=ast.Constant(0))])]
        pre = [f"{L} = __vc.loop_enter({lid!r}, {IT}, locals())"]
        for n in stored:
            pre.append(f"{n} = __vc.havoc_local({L}, {n!r}, locals())")
        pre.append(f"__vc.loop_havoc({L}, locals())")
        cut = ast.parse("\n".join(pre)).body
        guard = ast.parse(f"if __vc.loop_more({L}):\n    try:\n        __T__ = __vc.loop_item({L})\n    except __vc.Continue as __c:\n        if __c.lid != {lid!r}: raise\n    else:\n        try:\n            pass\n        except __vc.Continue as __c:\n            if __c.lid != {lid!r}: raise\n    __vc.loop_step({L}, locals())\n__vc.loop_exit({L}, locals())").body
        try1 = guard[0].body[0]
        try1.body[0].targets = [copy.deepcopy(node.target)]
        try1.orelse[0].body = copy.deepcopy(body) or [ast.Pass()]
        # an iterable that is an ordinary Python object (a list of objects, a range of numbers) is simply iterated
        natural = ast.parse(f"for __T__ in {IT}:\n    try:\n        pass\n    except __vc.Continue as __c:\n        if __c.lid != {lid!r}: raise").body[0]
        natural.target = copy.deepcopy(node.target)
        natural.body[0].body = copy.deepcopy(body) or [ast.Pass()]
        top = ast.parse(f"{IT} = 0\nif __vc.is_concrete({IT}):\n    pass\nelse:\n    pass").body
        top[0].value = node.iter
        top[1].body = [natural]
        top[1].orelse = cut + guard
        for s in top:
            ast.copy_location(s, node)
            ast.fix_missing_locations(s)
        return top


def nested_defs(outer: ast.FunctionDef) -> Dict[str, ast.FunctionDef]:
    return {s.name: s for s in outer.body if isinstance(s, ast.FunctionDef)}


def _names_loaded(fn: ast.AST) -> List[str]:
    return sorted({n.id for n in ast.walk(fn) if isinstance(n, ast.Name)})


def _local_names(fn: ast.FunctionDef) -> List[str]:
    """names bound by fn itself (parameters and assignments), not by nested functions"""
    a = fn.args
    out = [x.arg for x in a.posonlyargs + a.args + a.kwonlyargs]
    if a.vararg:
        out.append(a.vararg.arg)
    if a.kwarg:
        out.append(a.kwarg.arg)
    nl = {n for s in ast.walk(fn) if isinstance(s, ast.Nonlocal) for n in s.names}

    def walk(stmts):
        for s in stmts:
            if isinstance(s, ast.FunctionDef):
                out.append(s.name)
                continue
            for n in ast.walk(s) if not isinstance(s, (ast.If, ast.For, ast.With, ast.Try)) else []:
                if isinstance(n, ast.Name) and isinstance(n.ctx, ast.Store):
                    out.append(n.id)
            for fld in ("body", "orelse", "finalbody"):
                if isinstance(s, (ast.If, ast.For, ast.With, ast.Try)):
                    walk(getattr(s, fld, []) or [])
            if isinstance(s, ast.For):
                for n in ast.walk(s.target):
                    if isinstance(n, ast.Name):
                        out.append(n.id)
            if isinstance(s, ast.If):
                pass
    walk(fn.body)
    return [n for n in dict.fromkeys(out) if n not in nl]


def assigned_nonlocals(outer: ast.FunctionDef) -> Dict[str, List[str]]:
    """nested function -> names it declares nonlocal"""
    return {name: sorted({n for s in ast.walk(d) if isinstance(s, ast.Nonlocal) for n in s.names}) for name, d in nested_defs(outer).items()}


def free_names_of_nested(outer: ast.FunctionDef) -> List[str]:
    """locals of the outer function that its nested functions refer to (they become parameters of the unit)"""
    outer_locals = set(_local_names(outer))
    nested = nested_defs(outer)
    used = set()
    for d in nested.values():
        own = set(_local_names(d))
        for n in _names_loaded(d):
            if n in outer_locals and n not in own and n not in nested:
                used.add(n)
        for n in assigned_nonlocals(outer)[d.name]:
            used.add(n)
    return sorted(used)


def build_unit(outer: ast.FunctionDef, ns: Dict[str, Any], vc: VC, standins: Dict[str, Callable]):
    """compile the nested functions of `outer` inside a wrapper whose parameters are the outer locals they close over.
    Returns make(**free) -> dict name -> real nested function (calls between them go to `standins` where given)."""
    nested = nested_defs(outer)
    free = free_names_of_nested(outer)
    body: List[ast.stmt] = []
    for name, d in nested.items():
        d2 = copy.deepcopy(d)
        d2 = _Rewriter(name).visit(d2)
        body.append(d2)
    body += ast.parse("__real = {" + ", ".join(f"{n!r}: {n}" for n in nested) + "}").body
    for n in nested:
        if n in standins:
            body += ast.parse(f"{n} = __standins[{n!r}]").body
    body += ast.parse("return __real").body
    unit = ast.FunctionDef(name="__unit", args=ast.arguments(posonlyargs=[], args=[ast.arg(arg=n) for n in free], kwonlyargs=[], kw_defaults=[], defaults=[]),
                           body=body, decorator_list=[], type_params=[])
    mod = ast.Module(body=[unit], type_ignores=[])
    ast.fix_missing_locations(mod)
    g = dict(ns)
    g["__vc"] = vc
    g["__standins"] = standins
    exec(compile(mod, f"<hoare:{outer.name}>", "exec"), g)
    return g["__unit"], free


def build_main(outer: ast.FunctionDef, ns: Dict[str, Any], vc: VC, standins: Dict[str, Callable]):
    """the outer function itself, nested functions with a contract replaced by their stand-ins right after their definition"""
    o2 = copy.deepcopy(outer)
    o2.decorator_list = []
    new_body: List[ast.stmt] = []
    for s in o2.body:
        if isinstance(s, ast.FunctionDef):
            if s.name in standins:
                new_body += ast.parse(f"{s.name} = __standins[{s.name!r}]").body
            else:
                new_body.append(_Rewriter(s.name).visit(s))
            continue
        new_body.append(s)
    o2.body = new_body
    o2 = _Rewriter(outer.name).visit(o2)
    for n in ast.walk(o2):          # annotations may mention names that do not exist here
        if isinstance(n, ast.arg):
            n.annotation = None
        if isinstance(n, ast.FunctionDef):
            n.returns = None
    o2.body = _strip_annotations(o2.body)
    mod = ast.Module(body=[o2], type_ignores=[])
    ast.fix_missing_locations(mod)
    g = dict(ns)
    g["__vc"] = vc
    g["__standins"] = standins
    exec(compile(mod, f"<hoare:{outer.name}:main>", "exec"), g)
    return g[outer.name]


class _LazyGlobals(dict):
    """globals of a compiled unit: a name that is missing but is a module-level function of the real module (a helper the code under
    contract was refactored to call) is compiled on demand with the same rewrites"""

    def __init__(self, base, module, vc):
        super().__init__(base)
        self._module, self._vc = module, vc

    def __missing__(self, name):
        if self._module is None or name.startswith("__"):
            raise KeyError(name)
        module, fn = self._module, None
        try:
            fn = core.find_def(module, name)
        except LookupError:
            # imported into the module from another module of the package (`from .x import name`, `from pyimpspec.x.y import name`)
            for node in core.module_ast(self._module).body:
                if isinstance(node, ast.ImportFrom) and any((a.asname or a.name) == name for a in node.names):
                    orig = next(a.name for a in node.names if (a.asname or a.name) == name)
                    if node.level >= 1:
                        base = self._module.split("/")[:-1]
                        base = base[:len(base) - (node.level - 1)] if node.level > 1 else base
                        target = "/".join(base + (node.module.split(".") if node.module else []))
                    elif node.module and node.module.startswith("pyimpspec."):
                        target = node.module[len("pyimpspec."):].replace(".", "/")
                    else:
                        continue
                    for cand in (target, target + "/__init__"):
                        try:
                            fn, module = core.find_def(cand, orig), cand
                            break
                        except (LookupError, FileNotFoundError, OSError):
                            continue
                if fn is not None:
                    break
        if not isinstance(fn, ast.FunctionDef):
            raise KeyError(name)
        f = build_function(fn, dict(self), self._vc, label=name, module=module)
        self[name] = f
        return f


def build_function(fn: ast.FunctionDef, ns: Dict[str, Any], vc: VC, label: Optional[str] = None, bounded_whiles=(), module: Optional[str] = None):
    """a module-level function or a method, compiled on its own with the loop rewrite (`label` names it in loop ids)"""
    f2 = copy.deepcopy(fn)
    f2.decorator_list = []
    name = f2.name
    f2 = _Rewriter(name, label, bounded_whiles).visit(f2)      # loop ids are (label, ordinal): methods of different classes get different labels
    f2 = strip_all_annotations(f2)
    mod = ast.Module(body=[f2], type_ignores=[])
    ast.fix_missing_locations(mod)
    g = _LazyGlobals(ns, module, vc)
    g["__vc"] = vc
    if module is not None:
        _FILE_MODULE[f"<hoare:{label or name}>"] = module
    exec(compile(mod, f"<hoare:{label or name}>", "exec"), g)
    return g[name]


def _strip_annotations(body):
    class A(ast.NodeTransformer):
        def visit_AnnAssign(self, node):
            self.generic_visit(node)
            if node.value is None:
                return ast.Pass()
            return ast.copy_location(ast.Assign(targets=[node.target], value=node.value), node)
    return [A().visit(s) for s in body]


def strip_all_annotations(fn: ast.FunctionDef) -> ast.FunctionDef:
    for n in ast.walk(fn):
        if isinstance(n, ast.arg):
            n.annotation = None
        if isinstance(n, ast.FunctionDef):
            n.returns = None
    fn.body = _strip_annotations(fn.body)
    return fn


# ------------------------------------------------------------------------------------------------ builtins seen by the code

def base_namespace(space: NodeSpace) -> Dict[str, Any]:
    def s_len(x):
        if hasattr(x, "length") and not isinstance(x, (ChildList, SymList, Mapped, RangeSeq)):
            return x.length()
        if isinstance(x, (ChildList, SymList, Mapped, RangeSeq)):
            return x.length()
        return builtins.len(x)

    class _ListMeta(type):
        def __instancecheck__(cls, x):
            return builtins.isinstance(x, builtins.list)

    class s_list(metaclass=_ListMeta):
        """`list` as the code sees it: list(x) of a symbolic sequence stays symbolic; isinstance(x, list) is the real test"""

        def __new__(cls, x=()):
            if isinstance(x, ChildIter):
                return ChildList(x.node, space)
            if isinstance(x, space.Connection):
                return ChildList(x, space)
            if isinstance(x, (Enum, Mapped)):
                return ListOf(x) if isinstance(x, Enum) else x
            if isinstance(x, (ChildList, SymList)):
                return x
            return builtins.list(x)

    def s_iter(x):
        if isinstance(x, space.Connection):
            return ChildIter(x, space)
        return builtins.iter(x)

    def s_enumerate(x):
        if isinstance(x, (ChildList, SymList, Mapped, ChildIter, space.Connection)):
            return Enum(x)
        return builtins.enumerate(x)

    def s_reversed(x):
        if isinstance(x, (ListOf, Enum, ChildList, SymList, Mapped)):
            return Rev(x)
        return builtins.reversed(x)

    def s_map(f, x):
        if isinstance(x, (ChildList, ChildIter, space.Connection)):
            return Mapped(f, x if isinstance(x, ChildList) else ChildList(x if isinstance(x, NodeBase) else x.node, space))
        return builtins.map(f, x)

    def s_filter(f, x):
        if isinstance(x, (SymDict, ChildList)):
            return Filtered(f, x)
        return builtins.filter(f, x)

    def s_sum(x):
        if isinstance(x, SymList):
            return x.sum()
        return builtins.sum(x)

    def s_set(x=()):
        if isinstance(x, SymDict):
            return KeySet(x.has)
        return builtins.set(x)

    def s_str(x=""):
        return builtins.str(x)

    def s_range(*a):
        if any(isinstance(x, Rv) for x in a):
            if len(a) == 1:
                return RangeSeq(0, a[0])
            if len(a) == 2:
                return RangeSeq(a[0], a[1])
            raise Unsupported("range with a symbolic bound and a step")
        return builtins.range(*a)

    ns = {"range": s_range, "len": s_len, "list": s_list, "iter": s_iter, "enumerate": s_enumerate, "reversed": s_reversed, "map": s_map, "filter": s_filter,
          "sum": s_sum, "set": s_set, "max": sym_max, "min": sym_min}
    ns.update(space.namespace())
    space.ns = ns
    return ns
