"""Symbolic value domain of pyvc (DESIGN 2.2).

Scalars are raw z3 terms (Int / Real / Bool).  Floats are z3 Reals (machine arithmetic treated as
mathematical); +-inf are the two constants POS_INF / NEG_INF with the type invariant
NEG_INF <= x <= POS_INF on every float read from symbolic state; NaN is excluded by `requires`.
Mutable Python objects (dict, list, instances) live in the per-path heap and are referred to by Ref.
"""
from __future__ import annotations

import itertools
from typing import Any, Dict, List, Optional

import z3

Key = z3.DeclareSort("Key")          # parameter keys of an element (strings in Python; only compared)
POS_INF = z3.Real("POS_INF")
NEG_INF = z3.Real("NEG_INF")
INF_AXIOMS = [POS_INF > 1, NEG_INF == -POS_INF]

_fresh = itertools.count()


def fresh(prefix: str, sort: z3.SortRef) -> z3.ExprRef:
    return z3.Const(f"{prefix}!{next(_fresh)}", sort)


class NoneV:
    _inst = None

    def __new__(cls):
        if cls._inst is None:
            cls._inst = super().__new__(cls)
        return cls._inst

    def __repr__(self):
        return "None"


NONE = NoneV()


class Ref:
    """reference to a heap cell"""
    __slots__ = ("addr",)

    def __init__(self, addr: int):
        self.addr = addr

    def __repr__(self):
        return f"Ref({self.addr})"

    def __eq__(self, o):
        return isinstance(o, Ref) and o.addr == self.addr

    def __hash__(self):
        return hash(("Ref", self.addr))


class DictV:
    """immutable dict value: domain (K->Bool) and value (K->V) arrays"""

    def __init__(self, dom, val, ksort, vsort, vwrap=None):
        self.dom, self.val, self.ksort, self.vsort = dom, val, ksort, vsort
        self.vwrap = vwrap      # optional python wrapper for values (e.g. Char)

    @staticmethod
    def symbolic(tag: str, ksort, vsort) -> "DictV":
        return DictV(fresh(f"{tag}.dom", z3.ArraySort(ksort, z3.BoolSort())),
                     fresh(f"{tag}.val", z3.ArraySort(ksort, vsort)), ksort, vsort)

    @staticmethod
    def empty(ksort, vsort) -> "DictV":
        return DictV(z3.K(ksort, z3.BoolVal(False)), fresh("emp.val", z3.ArraySort(ksort, vsort)), ksort, vsort)

    def has(self, k):
        return z3.Select(self.dom, k)

    def get(self, k):
        return z3.Select(self.val, k)

    def store(self, k, v) -> "DictV":
        return DictV(z3.Store(self.dom, k, z3.BoolVal(True)), z3.Store(self.val, k, v), self.ksort, self.vsort, self.vwrap)

    def delete(self, k) -> "DictV":
        return DictV(z3.Store(self.dom, k, z3.BoolVal(False)), self.val, self.ksort, self.vsort, self.vwrap)

    def same_as(self, o: "DictV"):
        k = fresh("k", self.ksort)
        return z3.ForAll([k], z3.And(self.has(k) == o.has(k), z3.Implies(self.has(k), self.get(k) == o.get(k))))

    def forall(self, f):
        """forall k in dom: f(k, val[k])"""
        k = fresh("k", self.ksort)
        return z3.ForAll([k], z3.Implies(self.has(k), f(k, self.get(k))))


class ListV:
    """immutable list value: window [lo, hi) of an array (DESIGN 2.2); pop(0) is lo+1, append is hi+1"""

    def __init__(self, arr, lo, hi, wrap=None):
        self.arr, self.lo, self.hi, self.wrap = arr, lo, hi, wrap

    @staticmethod
    def symbolic(tag: str, esort, wrap=None) -> "ListV":
        lo = fresh(f"{tag}.lo", z3.IntSort())
        hi = fresh(f"{tag}.hi", z3.IntSort())
        return ListV(fresh(f"{tag}.arr", z3.ArraySort(z3.IntSort(), esort)), lo, hi, wrap)

    @staticmethod
    def empty(esort, wrap=None) -> "ListV":
        return ListV(fresh("emp.arr", z3.ArraySort(z3.IntSort(), esort)), z3.IntVal(0), z3.IntVal(0), wrap)

    def length(self):
        return self.hi - self.lo

    def wf(self):
        return self.lo <= self.hi

    def at(self, pos):
        v = z3.Select(self.arr, pos)
        return self.wrap(v) if self.wrap else v

    def esort(self):
        return self.arr.sort().range()


class TupleV:
    def __init__(self, items: List[Any]):
        self.items = list(items)

    def __repr__(self):
        return f"TupleV({self.items})"


class PyList:
    """a list whose length is concrete on this path (elements may be symbolic / refs)"""

    def __init__(self, items: List[Any]):
        self.items = list(items)


class PyDict:
    """a dict with concrete (python) keys on this path"""

    def __init__(self, items: Dict[Any, Any]):
        self.items = dict(items)


class Obj:
    """instance (or class object) with named fields"""

    def __init__(self, cls: str, fields: Dict[str, Any], klass: Optional[Ref] = None):
        self.cls, self.fields, self.klass = cls, dict(fields), klass

    def clone(self):
        return Obj(self.cls, self.fields, self.klass)


class Opt:
    """Optional[T]: (is_none, val)"""

    def __init__(self, is_none, val):
        self.is_none, self.val = is_none, val


class Char:
    """a one-character string as its integer code"""

    def __init__(self, code):
        self.code = code if z3.is_expr(code) else z3.IntVal(code)


class StrV:
    """opaque string (content not modelled) or z3 String term"""

    def __init__(self, term=None, note: str = ""):
        self.term, self.note = term, note


class ClassV:
    """python class object known by name (for isinstance / type(x) is C / constructor calls)"""

    def __init__(self, name: str):
        self.name = name

    def __repr__(self):
        return f"ClassV({self.name})"


class FuncV:
    """function value: AST + module + closure frame (nested defs, lambdas)"""

    def __init__(self, node, module: str, closure=None, qualname: str = "", bound_self=None):
        self.node, self.module, self.closure, self.qualname, self.bound_self = node, module, closure, qualname, bound_self


class Exc:
    def __init__(self, name: str, line: int = 0):
        self.name, self.line = name, line

    def __repr__(self):
        return f"Exc({self.name}@{self.line})"


def is_float_in_range(x):
    return z3.And(NEG_INF <= x, x <= POS_INF)


def dict_floats_typed(d: DictV):
    k = fresh("k", d.ksort)
    return z3.ForAll([k], is_float_in_range(d.get(k)))
