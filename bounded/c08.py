"""C08 bounded layer (Layer R): every result object of every analysis entry point is consistent with the data it came from
(frequencies, residuals, pseudo chi-squared, circuit impedances), masked points never influence it, inputs are not modified.
BOUNDED - never counted as proved."""
import sys

import numpy as np

sys.path.insert(0, __file__.rsplit("/bounded/", 1)[0])
from bounded.common import Result, guarded  # noqa: E402
from bounded.c07_util import pmap_isolated, preimport  # noqa: E402

FIT_CDC = "R{R=90}(R{R=150}C{C=2e-5})(R{R=400}Q{Y=2e-4,n=0.8})"

# every variant: name, fn (responsible entry point), setup (statements), expr (the call; sees d, n, np, pyimpspec, parse_cdc and
# the names bound by setup), inputs (names of circuits that must stay unchanged), det (deterministic: comparable across data
# variants), spectra ("any" | "zarc"), tier
V = []


def variant(name, fn, expr, setup="", inputs=(), det=True, spectra="any", tier="quick"):
    V.append(dict(name=name, fn=fn, expr=expr, setup=setup, inputs=tuple(inputs), det=det, spectra=spectra, tier=tier))


KK = "pyimpspec.perform_kramers_kronig_test(d, num_procs=1, "
variant("kk:complex:auto", "perform_kramers_kronig_test", KK + "test='complex')")
variant("kk:real-inv:Y:auto", "perform_kramers_kronig_test", KK + "test='real-inv', admittance=True)")
variant("kk:imaginary:Z:fixed", "perform_kramers_kronig_test", KK + "test='imaginary', num_RC=3, num_F_ext_evaluations=0, log_F_ext=0.3, add_capacitance=False, admittance=False)")
variant("kk:complex-inv:Y:fixed", "perform_kramers_kronig_test", KK + "test='complex-inv', num_RC=4, num_F_ext_evaluations=0, admittance=True)")
variant("kk:cnls:Z:fixed", "perform_kramers_kronig_test", KK + "test='cnls', num_RC=3, num_F_ext_evaluations=0, admittance=False, timeout=120)")
variant("kk:real:both:fixed", "perform_kramers_kronig_test", KK + "test='real', num_RC=4, num_F_ext_evaluations=0, add_inductance=False)", tier="thorough")
variant("kk:real:Z:lmfit-search", "perform_kramers_kronig_test", KK + "test='real', num_F_ext_evaluations=-10, admittance=False)", det=False, tier="thorough")
EV = "pyimpspec.analysis.kramers_kronig.evaluate_log_F_ext(d, num_procs=1, "
variant("eval:real:Z:search", "evaluate_log_F_ext", EV + "test='real')")
variant("eval:complex:Y:list", "evaluate_log_F_ext", EV + "test='complex', admittance=True, num_RCs=[2, 3, 4], num_F_ext_evaluations=0, log_F_ext=-0.2)")
variant("eval:imaginary-inv:Z:slow-search", "evaluate_log_F_ext", EV + "test='imaginary-inv', rapid_F_ext_evaluations=False, num_F_ext_evaluations=10)", tier="thorough")
EX = "pyimpspec.perform_exploratory_kramers_kronig_tests(d, num_procs=1, "
variant("explo:real:auto", "perform_exploratory_kramers_kronig_tests", EX + "test='real')")
variant("explo:complex:Y:fixed-ext", "perform_exploratory_kramers_kronig_tests", EX + "test='complex', admittance=True, num_F_ext_evaluations=0, add_capacitance=False)")
variant("explo:real-inv:Z", "perform_exploratory_kramers_kronig_tests", EX + "test='real-inv', admittance=False)", tier="thorough")
ZH = "pyimpspec.perform_zhit(d, num_procs=1, "
variant("zhit:default-window", "perform_zhit", ZH[:-2] + ")")
variant("zhit:weights:Z", "perform_zhit", ZH + "weights=np.ones(n), window='boxcar')")
variant("zhit:weights:Y:none:cubic", "perform_zhit", ZH + "weights=np.ones(n), window='boxcar', admittance=True, smoothing='none', interpolation='cubic')")
variant("zhit:weights:Y:modsinc:makima", "perform_zhit", ZH + "weights=np.ones(n), window='boxcar', admittance=True)")
variant("zhit:weights:Z:auto:makima", "perform_zhit", ZH + "weights=np.linspace(0.5, 1.0, n), window='boxcar', smoothing='auto')")
variant("zhit:weights:Z:auto:auto", "perform_zhit", ZH + "weights=np.linspace(0.5, 1.0, n), window='boxcar', smoothing='auto', interpolation='auto')", tier="thorough")
variant("zhit:weights:Z:savgol:pchip", "perform_zhit", ZH + "weights=np.ones(n), window='boxcar', smoothing='savgol', interpolation='pchip', num_points=5, polynomial_order=2)", tier="thorough")
variant("zhit:weights:Y:lowess:akima", "perform_zhit", ZH + "weights=np.ones(n), window='boxcar', admittance=True, smoothing='lowess', interpolation='akima')", tier="thorough")
variant("zhit:weights:Z:whithend:cubic", "perform_zhit", ZH + "weights=np.ones(n), window='boxcar', smoothing='whithend', interpolation='cubic')", tier="thorough")
variant("zhit:boxcar-window:Y", "perform_zhit", ZH + "window='boxcar', admittance=True)", tier="thorough")
DR = "pyimpspec.calculate_drt(d, "
variant("drt:tr-nnls:real:custom-lambda", "calculate_drt_tr_nnls", DR + "method='tr-nnls')")
variant("drt:tr-nnls:imaginary:l-curve", "calculate_drt_tr_nnls", DR + "method='tr-nnls', mode='imaginary', lambda_value=-2.0)")
variant("drt:tr-nnls:complex:fixed-lambda", "calculate_drt_tr_nnls", DR + "method='tr-nnls', mode='complex', lambda_value=1e-3, max_iter=500)", tier="thorough")
variant("drt:lm:matrix-rank", "calculate_drt_lm", DR + "method='lm')")
variant("drt:lm:pseudo-chisqr", "calculate_drt_lm", DR + "method='lm', model_order_method='pseudo_chisqr', num_procs=1)")
variant("drt:lm:order-2", "calculate_drt_lm", DR + "method='lm', model_order=2)", tier="thorough")
variant("drt:bht:gaussian", "calculate_drt_bht", DR + "method='bht', num_procs=1, num_attempts=2, num_samples=200)", det=False)
variant("drt:bht:c2-matern:factor", "calculate_drt_bht", DR + "method='bht', num_procs=1, num_attempts=2, num_samples=200, rbf_type='c2-matern', derivative_order=2, rbf_shape='factor')", det=False, tier="thorough")
variant("drt:mrq-fit:given-fit", "calculate_drt_mrq_fit", DR + "method='mrq-fit', circuit=fit.circuit, fit=fit)",
        setup=f"circuit = parse_cdc({FIT_CDC!r}); fit = pyimpspec.fit_circuit(circuit, d, method='least_squares', weight='boukamp', num_procs=1); fitted = fit.circuit",
        inputs=("circuit", "fitted"), spectra="zarc")
variant("drt:mrq-fit:own-fit", "calculate_drt_mrq_fit", DR + "method='mrq-fit', circuit=circuit, max_nfev=30, num_procs=1)",
        setup="circuit = parse_cdc('R(RC)(RQ)')", inputs=("circuit",), spectra="zarc")
FT = "pyimpspec.fit_circuit(circuit, d, num_procs=1, "
variant("fit:least_squares:boukamp", "fit_circuit", FT + "method='least_squares', weight='boukamp')", setup=f"circuit = parse_cdc({FIT_CDC!r})", inputs=("circuit",), spectra="zarc")
variant("fit:lists", "fit_circuit", FT + "method=['leastsq', 'least_squares'], weight=['boukamp', 'modulus'])", setup=f"circuit = parse_cdc({FIT_CDC!r})", inputs=("circuit",), spectra="zarc")
variant("fit:leastsq:auto-weight:timeout", "fit_circuit", FT + "method='leastsq', weight='auto', timeout=60)", setup=f"circuit = parse_cdc({FIT_CDC!r})", inputs=("circuit",), spectra="zarc")
variant("fit:nelder:proportional:max_nfev", "fit_circuit", FT + "method='nelder', weight='proportional', max_nfev=400)", setup=f"circuit = parse_cdc({FIT_CDC!r})", inputs=("circuit",), spectra="zarc", tier="thorough")
variant("fit:auto:unity", "fit_circuit", FT + "method='auto', weight='unity', max_nfev=200)", setup=f"circuit = parse_cdc({FIT_CDC!r})", inputs=("circuit",), spectra="zarc", tier="thorough")

CHECK_SRC = '''
def results_in(obj):
    if hasattr(obj, "frequencies") and hasattr(obj, "residuals"):
        return [obj]
    if isinstance(obj, (list, tuple)):
        return [r for item in obj for r in results_in(item)]
    return []

def check_result(r, d):
    """the contract of C08 on one result object; returns the list of violated clauses"""
    bad = []
    f, Z = d.get_frequencies(), d.get_impedances()
    if not (np.array_equal(np.asarray(r.frequencies), f) and np.array_equal(np.asarray(r.get_frequencies()), f)):
        return ["frequencies-mismatch"]
    Zr = np.asarray(r.impedances)
    if Zr.shape != Z.shape or not np.array_equal(np.asarray(r.get_impedances()), Zr, equal_nan=True):
        return ["impedances-shape-or-getter-mismatch"]
    res = (Z - Zr) / np.abs(Z)
    if np.asarray(r.residuals).shape != res.shape or not np.allclose(r.residuals, res, rtol=1e-9, atol=1e-12):
        bad.append("residuals-mismatch")
    fr, re_pct, im_pct = r.get_residuals_data()
    if not (np.array_equal(fr, f) and np.allclose(re_pct, 100 * res.real, rtol=1e-9, atol=1e-10) and np.allclose(im_pct, 100 * res.imag, rtol=1e-9, atol=1e-10)):
        bad.append("residuals-data-mismatch")
    chi = float(np.sum(np.abs(res) ** 2))
    if not (abs(r.pseudo_chisqr - chi) <= 1e-9 * chi):
        bad.append("pseudo_chisqr-mismatch")
    if getattr(r, "circuit", None) is not None:
        if not np.allclose(r.circuit.get_impedances(f), Zr, rtol=1e-12, atol=0):
            bad.append("impedances-not-circuit")
    return bad
'''
exec(CHECK_SRC)  # the same text is embedded in every repro


def spectrum(kind, N, seed):
    """(f descending, Z) of N points, 1e4..1 Hz, 0.03 % noise"""
    from pyimpspec import parse_cdc
    rng = np.random.default_rng([seed, N, 1 if kind == "zarc" else 2])
    if kind == "zarc":
        R0, R1, R2 = rng.uniform(80, 120), rng.uniform(150, 250), rng.uniform(250, 350)
        C1, Y2, n2 = 10 ** rng.uniform(-5.2, -4.8), 10 ** rng.uniform(-3.7, -3.4), rng.uniform(0.8, 0.9)
        cdc = f"R{{R={R0:.6g}}}(R{{R={R1:.6g}}}C{{C={C1:.6g}}})(R{{R={R2:.6g}}}Q{{Y={Y2:.6g},n={n2:.6g}}})"
    else:   # negative differential resistance: Re(Z) and Re(Y) < 0 at low frequencies
        cdc = "R{R=25}(R{R=125}Q{Y=1e-5,n=0.97})(R{R=-250}Q{Y=4e-4,n=0.95})"
    f = np.logspace(4, 0, N)
    Z = parse_cdc(cdc).get_impedances(f)
    Z = Z * (1 + 3e-4 * rng.standard_normal(N) + 3e-4j * rng.standard_normal(N))
    return f, Z, cdc


def masks_for(N, seed, thorough):
    rng = np.random.default_rng([seed, N, 9])
    out = [()]
    ks = sorted({max(1, N // 6), N // 4}) if not thorough else sorted({1, max(1, N // 6), N // 4, min(N - 6, N // 3)})
    for k in ks:
        if 0 < k <= N - 6:
            out.append(tuple(sorted(int(i) for i in rng.choice(N, k, replace=False))))
    if thorough and N >= 10:
        out.append((0, 1, N - 1))            # both ends
    return list(dict.fromkeys(out))


def make_data(f, Z, mask, plant, order):
    """mask indices refer to the descending arrays f, Z.  For ascending input the mask is applied after construction with the
    data set's own indices (constructor masks on ascending input are C05's subject, not this property's)."""
    import pyimpspec
    Zp = Z.copy()
    if plant == "nan":
        Zp[list(mask)] = complex(np.nan, np.nan)
    elif plant == "huge":
        Zp[list(mask)] = 1e30 - 1e30j
    if order == "desc":
        return pyimpspec.DataSet(f.copy(), Zp, mask={i: True for i in mask}, label="c08")
    d = pyimpspec.DataSet(f[::-1].copy(), Zp[::-1].copy(), label="c08")
    d.set_mask({i: True for i in mask})
    return d


def lit(x):
    if np.iscomplexobj(x):
        return "np.array([" + ", ".join(f"complex({v.real!r}, {v.imag!r})" for v in x) + "])"
    return "np.array([" + ", ".join(repr(float(v)) for v in x) + "])"


def data_src(name, f, Z, mask, plant, order):
    plant_src = {"clean": "", "nan": f"Zp[{list(mask)}] = complex(np.nan, np.nan)\n", "huge": f"Zp[{list(mask)}] = 1e30 - 1e30j\n"}[plant]
    if order == "desc":
        return f"Zp = Z.copy()\n{plant_src}{name} = pyimpspec.DataSet(f.copy(), Zp, mask={{i: True for i in {list(mask)}}})\n"
    return f"Zp = Z.copy()\n{plant_src}{name} = pyimpspec.DataSet(f[::-1].copy(), Zp[::-1].copy())\n{name}.set_mask({{i: True for i in {list(mask)}}})\n"


def repro_src(v, f, Z, mask, dv, clause, ref=None):
    head = f"import numpy as np, pyimpspec\nfrom pyimpspec import parse_cdc\nnp.seterr(all='ignore')\n{CHECK_SRC}\nf = {lit(f)}\nZ = {lit(Z)}\nn = {len(f) - len(mask)}\n"
    body = data_src("d", f, Z, mask, dv[0], dv[1])
    body += "before = repr(d.to_dict())\n" + (v["setup"] + "\n" if v["setup"] else "")
    body += "".join(f"ser_{nm} = {nm}.serialize()\n" for nm in v["inputs"])
    body += f"out = {v['expr']}\nbad = [c for r in results_in(out) for c in check_result(r, d)]\n"
    body += "if repr(d.to_dict()) != before: bad.append('data-modified')\n"
    body += "".join(f"if {nm}.serialize() != ser_{nm}: bad.append('input-circuit-modified')\n" for nm in v["inputs"])
    if ref is not None:   # the same analysis on the reference variant of the data must give the same numbers
        body += "planted = results_in(out)\n" + data_src("d", f, Z, mask, ref[0], ref[1]) + (v["setup"] + "\n" if v["setup"] else "")
        body += f"clean = results_in({v['expr']})\n"
        body += ("if len(clean) != len(planted) or not all(np.allclose(a.impedances, b.impedances, rtol=1e-9, atol=0) and "
                 "np.allclose(a.residuals, b.residuals, rtol=1e-9, atol=1e-12) and abs(a.pseudo_chisqr - b.pseudo_chisqr) <= 1e-9 * abs(a.pseudo_chisqr) "
                 "for a, b in zip(clean, planted)): bad.append('masked-points-influence')\n")
    body += f"print(bad)\nassert {clause!r} not in bad, bad\n"
    return head + body


def call(v, d, n):
    import pyimpspec
    env = {"np": np, "pyimpspec": pyimpspec, "parse_cdc": pyimpspec.parse_cdc, "d": d, "n": n}
    if v["setup"]:
        exec(v["setup"], env)
    ser = {nm: env[nm].serialize() for nm in v["inputs"]}
    out = eval(v["expr"], env)
    modified = [nm for nm in v["inputs"] if env[nm].serialize() != ser[nm]]
    return out, modified


def digest(results):
    return [(np.asarray(r.frequencies), np.asarray(r.impedances), np.asarray(r.residuals), float(r.pseudo_chisqr)) for r in results]


def same_digest(ref, other):
    return len(ref) == len(other) and all(
        a[1].shape == b[1].shape and np.array_equal(a[0], b[0]) and np.allclose(a[1], b[1], rtol=1e-9, atol=0)
        and np.allclose(a[2], b[2], rtol=1e-9, atol=1e-12) and abs(a[3] - b[3]) <= 1e-9 * abs(a[3]) for a, b in zip(ref, other))


def describe(kind, cdc, N, mask, v, dv):
    return (f"{v['name']} on {kind} spectrum {cdc} + 0.03 % noise, {N} points 1e4..1 Hz, masked indices {list(mask)}; data variant: masked points {dv[0]}, "
            f"input order {dv[1]}ending; call: {v['expr']}")


def run_one(arg):
    """one analysis call: (spectrum, mask, entry variant, data variant); the identities are evaluated here, the comparison
    across data variants in main()"""
    import pyimpspec  # noqa
    from pyimpspec.analysis.zhit import weights as zw
    kind, N, seed, mask, vi, dv = arg
    v = V[vi]
    f, Z, cdc = spectrum(kind, N, seed)
    n = N - len(mask)
    keep = np.array([i not in mask for i in range(N)])
    negY = bool(np.min((1 / Z[keep]).real) < 0)
    rec = {"arg": arg, "key": (kind, N, mask, v["name"], dv), "nontrivial": True, "fails": [], "note": None, "name": v["name"], "nres": 0, "exc": None, "digest": None}
    desc = describe(kind, cdc, N, mask, v, dv)
    with np.errstate(all="ignore"):
        d = make_data(f, Z, mask, dv[0], dv[1])
        before = repr(d.to_dict())
        try:
            out, modified = call(v, d, n)
        except Exception as ex:  # noqa
            rec["exc"] = (type(ex).__name__, str(ex)[:200])
            if v["fn"] == "perform_zhit" and "weights=" not in v["expr"] and len(zw._WINDOW_FUNCTIONS) == 0:
                rec["fails"].append(("zhit:no-window-functions", "_initialize_window_functions",
                                     f"{desc}: raised {type(ex).__name__}: {ex}; zhit.weights._WINDOW_FUNCTIONS is empty under the installed scipy, so no result can be produced without custom weights",
                                     repro_src(v, f, Z, mask, dv, "never")))
                rec["exc"] = None
                rec["nontrivial"] = False
            return rec
    results = results_in(out)  # noqa: F821
    rec["nres"] = len(results)
    if not results:
        raise RuntimeError(f"harness: no result objects found in the return value of {v['expr']}")
    clauses = []
    for r in results:
        with np.errstate(all="ignore"):
            for c in check_result(r, d):  # noqa: F821
                if c not in clauses:
                    clauses.append(c)
    if repr(d.to_dict()) != before:
        clauses.append("data-modified")
    if modified:
        clauses.append("input-circuit-modified")
    for c in clauses:
        key = f"{v['fn']}:{c}"
        if c == "pseudo_chisqr-mismatch" and v["fn"] == "perform_zhit" and "admittance=True" in v["expr"] and negY:
            key = "zhit:pseudo_chisqr-after-admittance-offset"
        r0 = results[0]
        with np.errstate(all="ignore"):
            Zd = d.get_impedances()
            chi = float(np.sum(np.abs((Zd - r0.impedances) / np.abs(Zd)) ** 2)) if np.asarray(r0.impedances).shape == Zd.shape else float("nan")
        rec["fails"].append((key, v["fn"], f"{desc}: violated clause {c} ({len(results)} result object(s); first one: reported pseudo_chisqr {r0.pseudo_chisqr:.6g}, "
                                            f"sum |residual|^2 from data and model {chi:.6g}; min Re(Y) of the unmasked points = {np.min((1 / Z[keep]).real):.4g})",
                             repro_src(v, f, Z, mask, dv, c)))
    if v["det"]:
        rec["digest"] = digest(results)
    return rec


COST = {"zhit:weights:Z:auto:auto": 8, "zhit:weights:Z:auto:makima": 3, "explo:real:auto": 4, "kk:complex:auto": 4, "drt:lm:pseudo-chisqr": 3, "explo:real-inv:Z": 4,
        "fit:auto:unity": 6, "drt:mrq-fit:own-fit": 3, "kk:real:Z:lmfit-search": 3, "eval:imaginary-inv:Z:slow-search": 3}


def main(a):
    import pyimpspec  # noqa
    thorough = a.tier != "quick"
    sizes = (8, 10, 13, 18, 25) if thorough else (8, 13, 25)
    dvs_masked = [("clean", "desc"), ("nan", "desc"), ("huge", "desc"), ("clean", "asc"), ("nan", "asc")] + ([("huge", "asc")] if thorough else [])
    dvs_unmasked = [("clean", "desc"), ("clean", "asc")]
    variants = [i for i, v in enumerate(V) if thorough or v["tier"] == "quick"]
    jobs = []
    for N in sizes:
        for mask in masks_for(N, a.seed, thorough):
            for kind in ("zarc", "negR"):
                for vi in variants:
                    v = V[vi]
                    if v["spectra"] == "zarc" and kind != "zarc":
                        continue
                    if kind == "negR" and not (v["fn"] == "perform_zhit" or "admittance=True" in v["expr"] or v["name"].startswith(("kk:complex:auto", "drt:lm:matrix"))):
                        continue      # the negative-resistance spectrum is there for the admittance paths
                    for dv in (dvs_masked if mask else dvs_unmasked):
                        jobs.append((kind, N, a.seed, mask, vi, dv))
    res = Result("C08", f"{len(variants)} entry-point/option variants (perform_kramers_kronig_test, evaluate_log_F_ext, perform_exploratory_kramers_kronig_tests, perform_zhit, "
                        f"calculate_drt[bht|lm|mrq-fit|tr-nnls], fit_circuit) x spectra of {list(sizes)} points x random mask subsets (incl. none) x masked points "
                        "{true value, NaN, 1e30} x {descending, ascending} input",
                 "cross product; one case = one analysis call; every result object in the return value is checked against the data set (frequencies, residuals, "
                 "residual data in percent, pseudo chi-squared, circuit impedances), inputs compared before/after, deterministic variants compared with the run on "
                 "the clean descending data; non-trivial = the call returned at least one result object")
    jobs.sort(key=lambda j: -COST.get(V[j[4]]["name"], 1) * j[1])     # expensive calls first
    preimport()
    recs = pmap_isolated(run_one, jobs)       # a fresh process per call: all data variants start from the same process state
    refs = {(r["arg"][0], r["arg"][1], r["arg"][3], r["arg"][4]): r for r in recs if r["arg"][5] == ("clean", "desc")}
    notes, per = {}, {}
    for rec in recs:
        kind, N, seed, mask, vi, dv = rec["arg"]
        v = V[vi]
        ref = refs[(kind, N, mask, vi)]
        if dv != ("clean", "desc") and ref["exc"] is None and not (ref["fails"] and ref["nres"] == 0):
            f, Z, cdc = spectrum(kind, N, seed)
            desc = describe(kind, cdc, N, mask, v, dv)
            if rec["exc"] is not None and v["det"]:      # (randomised methods may fail on their own; they are never compared across runs)
                rec["fails"].append((f"{v['fn']}:masked-points-influence:exception", v["fn"],
                                     f"{desc}: raised {rec['exc'][0]}: {rec['exc'][1]}, while the same call on the clean descending data set returned a result",
                                     repro_src(v, f, Z, mask, dv, "never")))
                rec["exc"] = None
            elif v["det"] and rec["digest"] is not None and ref["digest"] is not None and not same_digest(ref["digest"], rec["digest"]):
                rec["fails"].append((f"{v['fn']}:masked-points-influence", v["fn"],
                                     f"{desc}: results differ from those on the clean descending data set although only masked points / the input order changed",
                                     repro_src(v, f, Z, mask, dv, "masked-points-influence", ref=("clean", "desc"))))
        if rec["exc"] is not None:       # raised on this and on the reference variant alike: not this property's subject
            rec["nontrivial"] = False
            rec["note"] = f"{rec['exc'][0]}: {rec['exc'][1][:120]}"
        res.case(rec["key"], nontrivial=rec["nontrivial"], sample={"case": str(rec["key"]), "result_objects": rec["nres"]} if rec["nontrivial"] else None)
        for fl in rec["fails"]:
            res.fail(*fl)
        p = per.setdefault(rec["name"], {"calls": 0, "evaluated": 0, "result_objects": 0})
        p["calls"] += 1
        p["evaluated"] += int(rec["nres"] > 0)
        p["result_objects"] += rec["nres"]
        if rec["note"]:
            notes.setdefault(rec["name"], {}).setdefault(rec["note"], 0)
            notes[rec["name"]][rec["note"]] += 1
    for name, p in sorted(per.items()):
        res.part(f"variant:{name}", **p, not_evaluable=notes.get(name, {}))
    return res


if __name__ == "__main__":
    guarded(main)
