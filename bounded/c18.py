"""C18 bounded layer (Layer R): the cross product of documented option values of every analysis entry point, on spectra of the
smallest accepted size, 12 and 40 points.  Every combination must either be refused by argument validation before any progress
notification (TypeError / ValueError / the library's own error types) or run to completion; progress notifications carry a
fraction in [0, 1] and a message.  BOUNDED - never counted as proved."""
import itertools
import sys
import time
import traceback

import numpy as np

sys.path.insert(0, __file__.rsplit("/bounded/", 1)[0])
from bounded.common import Result, guarded  # noqa: E402
from bounded.c07_util import pmap_isolated, preimport  # noqa: E402

TRUE_CDC = "R{R=100}(R{R=200}C{C=1e-5})(R{R=300}Q{Y=3e-4,n=0.85})"
FIT_CDC = "R{R=90}(R{R=150}C{C=2e-5})(R{R=400}Q{Y=2e-4,n=0.8})"

HARNESS_SRC = '''
def make_data(n):
    """n points, 1e4 .. 1 Hz, spectrum of R(RC)(RQ) with 0.03 % noise"""
    f = np.logspace(4, 0, n) if n > 1 else np.array([100.0])
    rng = np.random.default_rng(n)
    Z = parse_cdc(TRUE_CDC).get_impedances(f) * (1 + 3e-4 * rng.standard_normal(n) + 3e-4j * rng.standard_normal(n))
    return pyimpspec.DataSet(f, Z, label="c18")

def observe(setup, expr, n):
    """run one call with a recording progress callback; returns (outcome, exception, notifications, bad notifications)
    outcome: 'completed' | 'refused-up-front' (TypeError/ValueError/library error before the first notification) |
    'refused-by-library-error' (FittingError, ZHITError, DRTError, KramersKronigError or an ImpedanceError subclass at any time: the
    documented way to report an infeasible numerical problem) | 'internal-error-before-progress' | 'aborted-after-progress' | 'setup-failed'"""
    import pyimpspec.exceptions as E
    library = tuple(c for c in vars(E).values() if isinstance(c, type) and issubclass(c, Exception))
    own = (E.FittingError, E.ZHITError, E.DRTError, E.KramersKronigError, E.ImpedanceError)
    notes, bad = [], []
    def cb(*args, **kwargs):
        notes.append(kwargs)
        p = kwargs.get("progress")
        if not (isinstance(p, (int, float)) and not isinstance(p, bool) and 0.0 <= p <= 1.0):
            bad.append(("progress-out-of-range", repr(p)))
        if not isinstance(kwargs.get("message"), str):
            bad.append(("progress-without-message", repr(kwargs)))
    env = {"np": np, "pyimpspec": pyimpspec, "parse_cdc": parse_cdc, "n": n, "d": make_data(n)}
    if setup:
        try:
            exec(setup, env)
        except Exception as ex:             # the preparation (not the call under test) failed: nothing to observe
            return "setup-failed", ex, 0, []
    handle = pyimpspec.progress.register(cb)
    # some analyses draw unseeded random numbers (the initial values of the Bayesian Hilbert transform attempts): fix NumPy's global
    # generator per call so that a run -- and the replay of a reported call -- is reproducible
    import zlib
    np.random.seed((zlib.crc32(expr.encode()) + n) & 0xFFFFFFFF)
    try:
        eval(expr, env)
        return "completed", None, len(notes), bad
    except Exception as ex:
        if len(notes) == 0:
            return ("refused-up-front" if isinstance(ex, (TypeError, ValueError) + library) else "internal-error-before-progress"), ex, 0, bad
        return ("refused-by-library-error" if isinstance(ex, own) else "aborted-after-progress"), ex, len(notes), bad
    finally:
        pyimpspec.progress.unregister(handle)
'''.replace("TRUE_CDC", repr(TRUE_CDC))


def kwsrc(kw):
    return ", ".join(f"{k}={v!r}" for k, v in kw.items())


def case(entry, expr, opts, setup="", cost=1.0, trivial=False):
    return dict(entry=entry, expr=expr, opts=opts, setup=setup, cost=cost, trivial=trivial)


def kk_cases(thorough):
    Fs = (-20, -10, 0, 5, 10, 20) if thorough else (-10, 0, 10)
    out = []
    for test, adm, C, L, nrc, F, rapid in itertools.product(("complex", "real", "imaginary", "complex-inv", "real-inv", "imaginary-inv", "cnls"), (False, True, None),
                                                            (True, False), (True, False), (3, 0), Fs, (True, False)):
        kw = dict(test=test, admittance=adm, add_capacitance=C, add_inductance=L, num_RC=nrc, num_F_ext_evaluations=F, rapid_F_ext_evaluations=rapid, num_procs=1)
        if test == "cnls":
            kw.update(max_nfev=50, timeout=300)
        heavy = nrc == 0 and abs(F) >= 10
        c = case("perform_kramers_kronig_test", f"pyimpspec.perform_kramers_kronig_test(d, {kwsrc(kw)})", kw,
                 cost=(8.0 if heavy else 1.0) * (2 if adm is None else 1) * (10 if test == "cnls" else 1) * (abs(F) / 10 if heavy else 1))
        c["cnls_search"] = test == "cnls" and heavy      # ~1 min each on 40 points: only a seeded handful of these is run at that size
        out.append(c)
        if test == "cnls" and nrc != 0:                  # the unlimited fit as well where it is affordable (fixed num_RC)
            kw0 = dict(kw, max_nfev=0)
            out.append(case("perform_kramers_kronig_test", f"pyimpspec.perform_kramers_kronig_test(d, {kwsrc(kw0)})", kw0, cost=3.0))
    return out


def zhit_cases(thorough):
    out = []
    for smoothing, interpolation, adm, (w, window) in itertools.product(("none", "lowess", "modsinc", "savgol", "whithend", "auto"), ("akima", "makima", "cubic", "pchip", "auto"),
                                                                       (False, True), (("custom", "boxcar"), ("custom", "auto"), (None, "boxcar"), (None, "hann"), (None, "auto"))):
        kw = dict(smoothing=smoothing, interpolation=interpolation, admittance=adm, window=window, num_procs=1)
        src = kwsrc(kw) + (", weights=np.ones(n)" if w else "")
        kw["weights"] = "np.ones(n)" if w else None
        out.append(case("perform_zhit", f"pyimpspec.perform_zhit(d, {src})", kw,
                        cost=(5 if smoothing == "auto" else 1) * (4 if interpolation == "auto" else 1) * (3 if window == "auto" and not w else 1)))
    # the smoothing window relative to the length of the spectrum: windows longer than a short spectrum (the filters extend the data)
    for smoothing, npts, adm in itertools.product(("modsinc", "savgol", "whithend", "lowess"), (5, 10), (False, True)):
        kw = dict(smoothing=smoothing, interpolation="akima", num_points=npts, polynomial_order=2, admittance=adm, window="boxcar", num_procs=1)
        out.append(case("perform_zhit", f"pyimpspec.perform_zhit(d, {kwsrc(kw)})", kw))
    return out


def drt_cases(thorough):
    out = []
    for mode, lam, it in itertools.product(("real", "imaginary", "complex"), (1e-3, -1.0, -2.0), (-1, 50)):
        kw = dict(method="tr-nnls", mode=mode, lambda_value=lam, max_iter=it)
        out.append(case("calculate_drt[tr-nnls]", f"pyimpspec.calculate_drt(d, {kwsrc(kw)})", kw))
    for mode, cv, lam in itertools.product(("complex", "real", "imaginary"), ("", "gcv", "mgcv", "rgcv", "re-im", "lc"), (-1.0, 1e-3)):
        kw = dict(method="tr-rbf", mode=mode, cross_validation=cv, lambda_value=lam, num_procs=1)
        out.append(case("calculate_drt[tr-rbf]", f"pyimpspec.calculate_drt(d, {kwsrc(kw)})", kw, cost=3))
    for rbf, order, shape in itertools.product(("gaussian", "c0-matern", "c2-matern", "c4-matern", "c6-matern", "inverse-quadratic", "inverse-quadric", "cauchy", "piecewise-linear"), (1, 2), ("fwhm", "factor")):
        kw = dict(method="bht", rbf_type=rbf, derivative_order=order, rbf_shape=shape, num_samples=200, num_procs=1)
        out.append(case("calculate_drt[bht]", f"pyimpspec.calculate_drt(d, {kwsrc(kw)})", kw, cost=8))
    for order, mom in itertools.product((0, 2), ("matrix_rank", "pseudo_chisqr")):
        kw = dict(method="lm", model_order=order, model_order_method=mom, num_procs=1)
        out.append(case("calculate_drt[lm]", f"pyimpspec.calculate_drt(d, {kwsrc(kw)})", kw, cost=4 if (mom == "pseudo_chisqr" and order == 0) else 1))
    for cdc, given in itertools.product(("R(RC)(RQ)", "R(RQ)", "(RC)(RQ)"), (False, True)):
        start = {"R(RC)(RQ)": FIT_CDC, "R(RQ)": "R{R=100}(R{R=500}Q{Y=2e-4,n=0.8})", "(RC)(RQ)": "(R{R=150}C{C=2e-5})(R{R=400}Q{Y=2e-4,n=0.8})"}[cdc]
        if given:
            setup = f"fit = pyimpspec.fit_circuit(parse_cdc({start!r}), d, method='least_squares', weight='boukamp', num_procs=1)"
            expr = "pyimpspec.calculate_drt(d, method='mrq-fit', circuit=fit.circuit, fit=fit, num_procs=1)"
        else:
            setup, expr = "", f"pyimpspec.calculate_drt(d, method='mrq-fit', circuit=parse_cdc({cdc!r}), max_nfev=20, num_procs=1)"
        out.append(case("calculate_drt[mrq-fit]", expr, dict(method="mrq-fit", circuit=cdc, fit="given" if given else None), setup=setup, cost=4))
    return out


def fit_cases(thorough):
    methods = ["leastsq", "least_squares", "nelder", "lbfgsb", "powell", "cg", "bfgs", "tnc", "slsqp", "auto", ["leastsq", "nelder"]]
    weights = ["modulus", "proportional", "unity", "boukamp", "auto", ["boukamp", "unity"]]
    out = []
    for m, w, nfev in itertools.product(methods, weights, (50, -1) if thorough else (50,)):
        kw = dict(method=m, weight=w, max_nfev=nfev, num_procs=1)
        out.append(case("fit_circuit", f"pyimpspec.fit_circuit(parse_cdc({FIT_CDC!r}), d, {kwsrc(kw)})", kw,
                        cost=(10 if m == "auto" else 1) * (4 if w == "auto" else 1) * (8 if nfev < 0 else 1)))
    if thorough:
        for m, w in (("leastsq", "boukamp"), ("auto", "boukamp"), (["leastsq", "nelder"], "auto")):
            kw = dict(method=m, weight=w, max_nfev=50, timeout=60, num_procs=1)
            out.append(case("fit_circuit", f"pyimpspec.fit_circuit(parse_cdc({FIT_CDC!r}), d, {kwsrc(kw)})", kw, cost=10))
    return out


# the call used to find the smallest size an entry point accepts (= smallest n for which this call completes)
REFERENCE = {
    "perform_kramers_kronig_test": ("", "pyimpspec.perform_kramers_kronig_test(d, num_procs=1)"),
    "perform_zhit": ("", "pyimpspec.perform_zhit(d, weights=np.ones(n), window='boxcar', num_procs=1)"),
    "calculate_drt[tr-nnls]": ("", "pyimpspec.calculate_drt(d, method='tr-nnls')"),
    "calculate_drt[tr-rbf]": ("", "pyimpspec.calculate_drt(d, method='tr-rbf', num_procs=1)"),
    "calculate_drt[bht]": ("", "pyimpspec.calculate_drt(d, method='bht', num_samples=200, num_procs=1)"),
    "calculate_drt[lm]": ("", "pyimpspec.calculate_drt(d, method='lm', num_procs=1)"),
    "calculate_drt[mrq-fit]": ("", "pyimpspec.calculate_drt(d, method='mrq-fit', circuit=parse_cdc('R(RC)(RQ)'), max_nfev=20, num_procs=1)"),
    "fit_circuit": ("", f"pyimpspec.fit_circuit(parse_cdc({FIT_CDC!r}), d, method='least_squares', weight='boukamp', num_procs=1)"),
}


def culprit(ex):
    """innermost frame inside the library: a stable name for the place that raised"""
    frames = [fr for fr in traceback.extract_tb(ex.__traceback__) if "pyimpspec" in fr.filename and "/bounded/" not in fr.filename]
    return frames[-1].name if frames else "?"


def repro_src(setup, expr, n):
    return ("import numpy as np, pyimpspec\nfrom pyimpspec import parse_cdc\nimport warnings; warnings.filterwarnings('ignore')\n" + HARNESS_SRC +
            f"\noutcome, ex, notifications, bad = observe({setup!r}, {expr!r}, {n})\nprint(outcome, type(ex).__name__ if ex else '', ex if ex else '', notifications, bad)\n"
            "assert outcome in ('completed', 'refused-up-front', 'refused-by-library-error', 'setup-failed') and not bad, (outcome, ex, bad)\n")


def run_case(arg):
    import pyimpspec
    from pyimpspec import parse_cdc
    from pyimpspec.analysis.zhit import weights as zw
    env = {"np": np, "pyimpspec": pyimpspec, "parse_cdc": parse_cdc}
    exec(HARNESS_SRC, env)
    c, size_class, n = arg
    t0 = time.time()
    with np.errstate(all="ignore"):
        outcome, ex, notes, bad = env["observe"](c["setup"], c["expr"], n)
    elapsed = time.time() - t0
    entry = c["entry"]
    rec = {"key": (entry, size_class, c["setup"], c["expr"]), "entry": entry, "size": size_class, "outcome": outcome, "fails": [], "trivial": c["trivial"], "exc": None, "elapsed": round(elapsed, 2)}
    where = f"{entry} on {n} points ({size_class}); options {c['opts']}; call: {c['expr']}" + (f" after setup: {c['setup']}" if c["setup"] else "")
    if ex is not None:
        et, fn = type(ex).__name__, culprit(ex)
        rec["exc"] = f"{et}@{fn}"
        if outcome == "setup-failed":
            rec["trivial"] = True
        elif outcome in ("internal-error-before-progress", "aborted-after-progress"):
            needs_window_table = not ("weights=np.ones(n)" in c["expr"] and "window='auto'" not in c["expr"] and "window=" in c["expr"])
            zhit_windows = entry == "perform_zhit" and len(zw._WINDOW_FUNCTIONS) == 0 and needs_window_table
            key = f"zhit:no-window-functions:{et}" if zhit_windows else f"{entry}:{outcome}:{et}@{fn}"
            what = (f"{where}: raised {et}: {str(ex)[:300]} in {fn} after {notes} progress notification(s) - neither refused by argument validation nor completed"
                    + ("; zhit.weights._WINDOW_FUNCTIONS is empty under the installed scipy" if zhit_windows else ""))
            rec["fails"].append((key, fn, what, repro_src(c["setup"], c["expr"], n)))
    for kind, detail in bad[:1]:
        rec["fails"].append((f"{entry}:{kind}", "_update_every_N_percent", f"{where}: a registered callback received {detail}", repro_src(c["setup"], c["expr"], n)))
    return rec


def main(a):
    import pyimpspec  # noqa
    from pyimpspec import parse_cdc
    thorough = a.tier != "quick"
    rng = np.random.default_rng(a.seed)
    env = {"np": np, "pyimpspec": pyimpspec, "parse_cdc": parse_cdc}
    exec(HARNESS_SRC, env)
    pyimpspec.set_default_num_procs(1)
    preimport()
    spaces = {"kk": kk_cases(thorough), "zhit": zhit_cases(thorough), "drt": drt_cases(thorough), "fit": fit_cases(thorough)}
    # quick tier: a covering subsample (every value of every option occurs; the full product is the thorough tier)
    fraction = {"kk": 1.0 if thorough else 0.07, "zhit": 1.0 if thorough else 0.2, "drt": 1.0 if thorough else 0.5, "fit": 1.0 if thorough else 0.5}
    jobs, nmin, below = [], {}, {}
    for entry, (setup, expr) in REFERENCE.items():      # smallest accepted size = smallest n for which the reference call completes;
        nmin[entry], below[entry] = None, {}             # smaller sizes are outside the property's quantifier: recorded, never failed
        for n in range(1, 13):
            with np.errstate(all="ignore"):
                outcome, ex, notes, _ = env["observe"](setup, expr, n)
            if outcome == "completed":
                nmin[entry] = n
                break
            below[entry][f"n={n}"] = f"{outcome}: {type(ex).__name__}@{culprit(ex)}: {str(ex)[:100]} (after {notes} notification(s))"
    for name, cases in spaces.items():
        for c in cases:
            c["trivial"] = c["entry"] == "calculate_drt[tr-rbf]" and nmin[c["entry"]] is None     # refused for lack of a solver: says nothing about the options
        for size_class in ("min", "min+1", "12", "13", "40"):      # both parities: stride-2 slicing (Loewner method) behaves differently on odd sizes
            chosen = list(range(len(cases)))
            if fraction[name] < 1.0:
                k = max(8, int(round(fraction[name] * len(cases))))
                chosen = sorted(rng.choice(len(cases), k, replace=False).tolist())
                covered = {(kk, repr(vv)) for i in chosen for kk, vv in cases[i]["opts"].items()}
                for i, c in enumerate(cases):       # make the subsample covering
                    new = {(kk, repr(vv)) for kk, vv in c["opts"].items()} - covered
                    if new:
                        chosen.append(i)
                        covered |= new
            if size_class == "40":      # cnls + automatic num_RC + extension search: a seeded handful only (about a minute each)
                slow = [i for i in chosen if cases[i].get("cnls_search")]
                keep = set(rng.choice(slow, min(len(slow), 4), replace=False).tolist()) if (slow and thorough) else set()
                chosen = [i for i in chosen if not cases[i].get("cnls_search") or i in keep]
                if not thorough:        # the 20-fold smoothing x interpolation search takes ~15 s on 40 points: thorough tier only (12 points and below: both tiers)
                    chosen = [i for i in chosen if not (cases[i]["opts"].get("smoothing") == "auto" and cases[i]["opts"].get("interpolation") == "auto")]
            for i in chosen:
                c = cases[i]
                n = {"min": nmin[c["entry"]] or 5, "min+1": (nmin[c["entry"]] or 5) + 1, "12": 12, "13": 13, "40": 40}[size_class]
                if size_class in ("min+1", "13") and (c.get("cnls_search") or c["cost"] > 1):
                    continue            # the odd sizes repeat the cheap cases only
                jobs.append((c, f"{size_class} n={n}" if size_class.startswith("min") else f"n={n}", n))
    jobs.sort(key=lambda j: -j[0]["cost"] * j[2] ** 1.5)
    res = Result("C18", f"option cross products ({'full' if thorough else 'covering subsample'}): KK 7 tests x {{Z,Y,auto}} x C x L x {{num_RC=3|auto}} x num_F_ext_evaluations "
                        f"{'{-20,-10,0,5,10,20}' if thorough else '{-10,0,10}'} x rapid ({len(spaces['kk'])}; cnls with max_nfev=50, and on 40 points only a seeded handful of the cnls x automatic num_RC x extension-search combinations); Z-HIT 6 smoothing x 5 interpolation x {{Z,Y}} x 5 weight/window "
                        f"choices ({len(spaces['zhit'])}); DRT tr-nnls/tr-rbf/bht/lm/mrq-fit option products ({len(spaces['drt'])}); fit 11 methods x 6 weights "
                        f"({len(spaces['fit'])}); each on the smallest accepted size {nmin}, 12 and 40 points",
                 "enumeration of the product of documented option values per entry point; one case = one call with a recording progress callback; distinct = distinct "
                 "(entry point, size, call text); accepted outcomes: completed, refused by argument validation before the first notification, or one of the library's own "
                 "error types (FittingError, ZHITError, DRTError, KramersKronigError, ImpedanceError subclasses) at any time; a case refused for lack of an optional "
                 "solver (tr-rbf) is counted trivial")
    table, slow, pending = {}, [], []
    for rec in pmap_isolated(run_case, jobs):      # a fresh process per call, like the repro scripts
        res.case(rec["key"], nontrivial=not rec["trivial"], sample={"case": str(rec["key"])[:300], "outcome": rec["outcome"], "exception": rec["exc"]})
        pending += [(("num_F_ext_evaluations=-" in rec["key"][3]), fl) for fl in rec["fails"]]
        t = table.setdefault(rec["entry"], {"completed": 0, "refused-up-front": 0, "refused-by-library-error": 0, "internal-error-before-progress": 0, "aborted-after-progress": 0, "setup-failed": 0, "exceptions": {}})
        t[rec["outcome"]] += 1
        slow.append((rec["elapsed"], rec["size"], rec["key"][3]))
        if rec["exc"]:
            k = f"{rec['outcome']}:{rec['exc']}"
            t["exceptions"][k] = t["exceptions"].get(k, 0) + 1
    for _, fl in sorted(pending, key=lambda x: x[0]):     # one example per key is kept: prefer calls without the randomised (differential
        res.fail(*fl)                                      # evolution) extension search, whose repro would not be deterministic
    for entry, t in sorted(table.items()):
        res.part(f"outcomes:{entry}", smallest_accepted_size=nmin.get(entry), **t)
    res.part("smallest_accepted", rule="smallest n (1..12) for which the reference call completes; what the reference call does on smaller sizes is recorded only",
             sizes=nmin, reference_calls={e: v[1] for e, v in REFERENCE.items()}, below=below)
    res.part("refused_by_library_error", **{e: {k.split(":", 1)[1]: v for k, v in t["exceptions"].items() if k.startswith("refused-by-library-error:")} for e, t in sorted(table.items())})
    res.part("slowest-calls", calls=[f"{e:.1f} s: {sz}: {ex}" for e, sz, ex in sorted(slow, reverse=True)[:8]], total_call_seconds=round(sum(e for e, _, _ in slow), 1))
    return res


if __name__ == "__main__":
    guarded(main)
