"""C02 bounded layer (Layer R): the numeric impedance of every registered element against its documented equation
(evaluated independently with mpmath), the general transmission line container in every open/short/finite
configuration against its symbolic export, whole circuits against `to_sympy(substitute=True)`, and the reported
0 Hz / infinite-frequency limits against the finite-frequency values.  BOUNDED - never counted as proved."""
import itertools
import math
import multiprocessing as mp
import os
import sys

sys.path.insert(0, __file__.rsplit("/bounded/", 1)[0])
from bounded.common import Result, guarded  # noqa: E402
from bounded.c02_eval import evaluate  # noqa: E402

EVAL_SRC = open(os.path.join(os.path.dirname(os.path.abspath(__file__)), "c02_eval.py")).read()

INF = float("inf")
RTOL = 1e-9
LIMIT_RTOL = 1e-6
N_FREQ = 7
ILL_CONDITIONED = 1e5     # condition number above which a 1e-9 comparison of double-precision results is meaningless
OVERFLOWS = (ZeroDivisionError, OverflowError, FloatingPointError)   # python floats raise instead of returning inf/nan
SLOTS = ("X_1", "X_2", "Z_A", "Z_B", "Zeta")


def freqs():
    import numpy as np
    return np.logspace(-6, 9, N_FREQ)


# ------------------------------------------------------------------ helpers
def finite(z):
    return math.isfinite(z.real) and math.isfinite(z.imag)


def rel(z, ref):
    return abs(z - ref) / abs(ref) if ref != 0 else abs(z)


def condition_number(expr, values):
    """sum over the inputs of |relative change of the expression| / |relative change of the input|"""
    import mpmath
    base, _ = evaluate(expr, values)
    if not finite(base) or base == 0:
        return INF
    total = 0.0
    with mpmath.workdps(60):
        eps = mpmath.mpf(2) ** -40
        for k, v in values.items():
            if v == 0:
                continue
            shifted = dict(values)
            shifted[k] = mpmath.mpf(v) * (1 + eps)
            z, _ = evaluate(expr, shifted)
            if not finite(z):
                return INF
            total += abs(z - base) / abs(base) / float(eps)
    return total


def numeric_point(obj, f):
    """impedance of obj at one frequency: (complex or nan, exception name or None, exception object when unexpected)"""
    import numpy as np
    from pyimpspec.exceptions import ImpedanceError
    try:
        return complex(obj.get_impedances(np.array([f]))[0]), None, None
    except ImpedanceError as ex:
        return complex("nan"), type(ex).__name__, None
    except OVERFLOWS as ex:
        return complex("nan"), type(ex).__name__, None
    except NotImplementedError:
        return complex("nan"), "NotImplementedError", None
    except Exception as ex:  # noqa
        return complex("nan"), "unexpected:" + type(ex).__name__, ex


def judge(z, expr, values):
    """compare an implementation value with the reference expression at one point.
    returns (verdict, ref, detail); verdict in pass / trivial:<why> / mismatch / not-finite"""
    ref, out_of_range = evaluate(expr, values)
    if not finite(z):
        if not finite(ref) or out_of_range:
            return "trivial:overflow-in-both", ref, 0.0
        return "not-finite", ref, INF
    if not finite(ref):
        return "trivial:reference-singular-or-outside-double-range", ref, 0.0
    d = rel(z, ref)
    if d <= RTOL:
        return "pass", ref, d
    if out_of_range:
        return "trivial:intermediate-outside-double-range", ref, d
    if condition_number(expr, values) > ILL_CONDITIONED:
        return "trivial:ill-conditioned", ref, d
    return "mismatch", ref, d


def param_ranges(cls):
    """finite sampling range per parameter, inside the class limits: ('exp', a, b) uniform, ('log', a, b) log-uniform,
    ('sym', a, b) log-uniform magnitude with either sign (parameters without a lower limit)"""
    lo, hi = cls.get_default_lower_limits(), cls.get_default_upper_limits()
    out = {}
    for k in lo:
        lower, upper = lo[k], hi[k]
        if lower == 0.0 and upper == 1.0:
            out[k] = ("exp", 0.02, 1.0)
        elif lower == -INF:
            out[k] = ("sym", 1e-9, 1e9 if upper == INF else upper)
        else:
            out[k] = ("log", lower if lower > 0.0 else 1e-12, 1e12 if upper == INF else upper)
            if not lower <= out[k][1] <= out[k][2] <= upper:
                raise AssertionError(f"harness: sampling range of {cls}.{k} leaves the limits")
    return out


def sample_params(rng, ranges):
    out = {}
    for k, (kind, a, b) in ranges.items():
        if kind == "exp":
            out[k] = float(rng.uniform(a, b))
        elif kind == "log":
            out[k] = float(10 ** rng.uniform(math.log10(a), math.log10(b)))
        else:
            out[k] = float(rng.choice([-1.0, 1.0]) * 10 ** rng.uniform(math.log10(a), math.log10(b)))
    return out


def corner_params(ranges):
    keys = list(ranges)
    opts = []
    for k in keys:
        kind, a, b = ranges[k]
        opts.append([a, b] if kind != "sym" else [-b, b])
    for combo in itertools.product(*opts):
        yield dict(zip(keys, map(float, combo)))


def equation_expr(cls):
    """the documented equation as written (unevaluated tree)"""
    import sympy
    expr = sympy.sympify(cls._equation, evaluate=False)
    names = {s.name for s in expr.free_symbols}
    keys = set(cls.get_default_values()) | {"f"}
    if not names <= keys:
        raise AssertionError(f"harness: unexpected symbols in the equation of {cls}: {names - keys}")
    return expr


class _CircuitView:
    """adapter: Circuit.get_impedances / Circuit.to_sympy with the constructor source of the underlying connection"""
    def __init__(self, circuit, con):
        self.circuit, self.con = circuit, con

    def get_impedances(self, f):
        return self.circuit.get_impedances(f)

    def to_sympy(self, substitute):
        return self.circuit.to_sympy(substitute=substitute)


def py_src(obj):
    """python source that rebuilds an element/connection (values only) through the public constructors"""
    from pyimpspec import Series, Parallel
    from pyimpspec.circuit.base import Container
    if obj is None:
        return "None"
    if isinstance(obj, _CircuitView):
        return "Circuit(" + py_src(obj.con) + ")"
    if isinstance(obj, (Series, Parallel)):
        return type(obj).__name__ + "([" + ", ".join(py_src(e) for e in obj._elements) + "])"
    kw = [f"{k}={v!r}" for k, v in obj.get_values().items()]
    if isinstance(obj, Container):
        kw += [f"{k}={py_src(v)}" for k, v in obj.get_subcircuits().items()]
    return f"E({obj.get_symbol()!r})({', '.join(kw)})"


def fill(template, **kw):
    """@name@ placeholders -> repr of the value (strings named src/f_lim are inserted verbatim)"""
    for k, v in kw.items():
        template = template.replace("@" + k + "@", v if k in ("src", "f_lim") else repr(v))
    if "@" in template.split("# --- end of evaluator ---")[-1]:
        raise AssertionError("harness: unfilled placeholder")
    return template


PRELUDE = EVAL_SRC + """
# --- end of evaluator ---
import numpy as np
from pyimpspec import Series, Parallel, Circuit
from pyimpspec.circuit.registry import get_elements
from pyimpspec.exceptions import ImpedanceError
E = lambda symbol: get_elements(private=True)[symbol]
def numeric(obj, f):
    try:
        return complex(obj.get_impedances(np.array([f]))[0])
    except (ImpedanceError, ZeroDivisionError, OverflowError, FloatingPointError) as ex:
        return complex('nan')
"""

ELEMENT_REPRO = PRELUDE + """
cls = E(@sym@)
p = @p@
f = @f@
z = numeric(cls(**p), f)
ref, _ = evaluate(sympy.sympify(cls._equation, evaluate=False), dict(p, f=f))
assert abs(z - ref) <= @tol@ * abs(ref), ("implementation", z, "equation", ref)
"""

OBJECT_REPRO = PRELUDE + """
obj = @src@
f = @f@
z = numeric(obj, f)
ref, _ = evaluate(obj.to_sympy(substitute=True), dict(f=f))
assert abs(z - ref) <= @tol@ * abs(ref), ("get_impedances", z, "to_sympy(substitute=True)", ref)
"""

PARITY_REPRO = PRELUDE + """
obj = @src@
def outcome(fn):
    try:
        fn()
        return "value"
    except NotImplementedError:
        return "NotImplementedError"
    except Exception as ex:
        return "other"
a = outcome(lambda: obj.get_impedances(np.array([1.0, 1e3])))
b = outcome(lambda: obj.to_sympy(substitute=True))
assert (a == "NotImplementedError") == (b == "NotImplementedError"), ("_impedance", a, "to_sympy", b)
"""

SYMPY_RAISES_REPRO = PRELUDE + """
obj = @src@
z = numeric(obj, @f@)
if z == z:
    obj.to_sympy(substitute=True)   # must not raise where the numeric impedance exists
"""


# ------------------------------------------------------------------ part A: elements
def run_element(args):
    sym, n_random, part, parts, seed = args
    import numpy as np
    import pyimpspec  # noqa
    from pyimpspec.circuit.registry import get_elements
    cls = get_elements(private=True)[sym]
    expr = equation_expr(cls)
    ranges = param_ranges(cls)
    rng = np.random.default_rng([seed, sum(map(ord, sym))])
    F = freqs()
    points = [("corner", p) for p in corner_params(ranges)] + [("default", cls.get_default_values())]
    points += [("random", sample_params(rng, ranges)) for _ in range(n_random)]
    points = points[part::parts]
    cases, fails, samples, worst, trivial = [], {}, [], 0.0, {}
    fn = cls.__name__ + "._impedance"
    for kind, p in points:
        e = cls(**p)
        for f in F:
            f = float(f)
            key = (sym, tuple(p.values()), f)
            z, exc, ex = numeric_point(e, f)
            if exc is not None and exc.startswith("unexpected:"):
                cases.append((key, True))
                fails.setdefault(f"{sym}:impedance:{exc}", (fn, f"{sym}(**{p}).get_impedances([{f}]) raised {exc[11:]}: {ex}", fill(ELEMENT_REPRO, sym=sym, p=p, f=f, tol=RTOL)))
                continue
            verdict, ref, d = judge(z, expr, dict(p, f=f))
            cases.append((key, not verdict.startswith("trivial")))
            if verdict.startswith("trivial"):
                trivial[verdict[8:]] = trivial.get(verdict[8:], 0) + 1
            elif verdict == "pass":
                worst = max(worst, d)
                if not samples and kind == "random":
                    samples.append({"element": sym, "parameters": p, "f": f, "Z": str(z), "equation": str(ref), "rel": d})
            elif verdict == "mismatch":
                fails.setdefault(f"{sym}:impedance!=equation", (
                    fn, f"{sym}(**{p}) at f={f}: get_impedances={z} but the documented equation {cls._equation!r} evaluates to {ref} (relative difference {d:.3g} > {RTOL})",
                    fill(ELEMENT_REPRO, sym=sym, p=p, f=f, tol=RTOL)))
            else:
                fails.setdefault(f"{sym}:impedance-not-finite-where-equation-is", (
                    fn, f"{sym}(**{p}) at f={f}: get_impedances raises/returns a non-finite value ({exc}) although every intermediate result of the documented equation lies inside the double range; equation = {ref}",
                    fill(ELEMENT_REPRO, sym=sym, p=p, f=f, tol=RTOL)))
    return "element", sym, cases, [(k,) + v for k, v in fails.items()], samples, worst, trivial


# ------------------------------------------------------------------ part B: Tlm configurations
def tlm_subcircuit(kind, slot, variant, rng):
    """kind in open/short/finite; returns None / Series([]) / a connection"""
    from pyimpspec import Series, Parallel, Resistor, Capacitor, ConstantPhaseElement, Warburg
    if kind == "open":
        return None
    if kind == "short":
        return Series([])
    s = (lambda lo, hi: float(10 ** rng.uniform(math.log10(lo), math.log10(hi)))) if variant > 0 else None
    if slot == "X_1":
        return Series([Resistor(R=s(0.1, 100) if s else 2.0)])
    if slot == "X_2":
        if variant == 2:
            return Series([Resistor(R=s(0.1, 100)), Parallel([Resistor(R=s(1, 10)), Capacitor(C=s(1e-6, 1e-3))])])
        return Series([Resistor(R=s(0.1, 100) if s else 0.5)])
    if slot == "Z_A":
        return Series([Parallel([Resistor(R=s(1, 1e3) if s else 30.0), Capacitor(C=s(1e-7, 1e-3) if s else 2e-5)])])
    if slot == "Z_B":
        if variant == 2:
            return Parallel([Resistor(R=s(1, 1e3)), Warburg(Y=s(1e-4, 1e-1))])
        return Series([Resistor(R=s(1, 1e3) if s else 7.0), Capacitor(C=s(1e-7, 1e-3) if s else 1e-4)])
    if slot == "Zeta":
        if variant == 2:
            return Series([Parallel([Resistor(R=s(1, 1e3)), ConstantPhaseElement(Y=s(1e-5, 1e-2), n=float(rng.uniform(0.5, 1.0)))])])
        return Series([ConstantPhaseElement(Y=s(1e-5, 1e-2) if s else 5e-3, n=float(rng.uniform(0.5, 1.0)) if s else 0.8)])
    raise AssertionError(slot)


def compare_object(obj, label, fn_name, keyprefix, base_key):
    """numeric impedance of obj against obj.to_sympy(substitute=True) at the 7 frequencies.
    returns (cases, fails{key: (fn, what, repro)}, worst, trivial-counts, outcome)"""
    F = [float(f) for f in freqs()]
    cases, fails, trivial, worst = [], {}, {}, 0.0
    src = py_src(obj)
    numeric = [numeric_point(obj, f) for f in F]
    for z, exc, ex in numeric:
        if exc is not None and exc.startswith("unexpected:"):
            fails.setdefault(f"{keyprefix}:numeric:{exc}", (fn_name, f"{label}: get_impedances raised {exc[11:]}: {ex}", fill(OBJECT_REPRO, src=src, f=F[0], tol=RTOL)))
    num_ni = all(exc == "NotImplementedError" for _, exc, _ in numeric)
    if not num_ni and any(exc == "NotImplementedError" for _, exc, _ in numeric):
        raise AssertionError("harness: NotImplementedError depends on the frequency")
    expr = sym_exc = sym_ex = None
    try:
        expr = obj.to_sympy(substitute=True)
    except NotImplementedError:
        sym_exc = "NotImplementedError"
    except Exception as ex:  # noqa
        sym_exc, sym_ex = type(ex).__name__, ex
    if num_ni != (sym_exc == "NotImplementedError"):
        fails.setdefault(f"{keyprefix}:NotImplementedError-parity", (fn_name, f"{label}: _impedance -> {'NotImplementedError' if num_ni else 'no NotImplementedError'}, to_sympy -> {sym_exc or 'expression'}", fill(PARITY_REPRO, src=src)))
        return [(base_key, True)], fails, worst, trivial, "parity-violated"
    if num_ni:
        return [(base_key, True)], fails, worst, trivial, "NotImplementedError in both"
    if fails:
        return [(base_key, True)], fails, worst, trivial, "unexpected exception"
    if sym_exc is not None:
        good = [f for f, (z, exc, _) in zip(F, numeric) if finite(z)]
        if good:
            fails.setdefault(f"{keyprefix}:to_sympy-raises-{sym_exc}-where-numeric-finite", ("Container.to_sympy", f"{label}: to_sympy(substitute=True) raised {sym_exc} ({sym_ex}) although get_impedances returns finite values", fill(SYMPY_RAISES_REPRO, src=src, f=good[0])))
            return [(base_key, True)], fails, worst, trivial, "symbolic raises"
        return [(base_key, True)], fails, worst, trivial, f"undefined in both (numeric {numeric[0][1]}, symbolic {sym_exc})"
    if not {s.name for s in expr.free_symbols} <= {"f"}:
        fails.setdefault(f"{keyprefix}:symbolic-free-symbols-left", ("Container.to_sympy", f"{label}: to_sympy(substitute=True) still contains {expr.free_symbols}", fill(OBJECT_REPRO, src=src, f=F[0], tol=RTOL)))
        return [(base_key, True)], fails, worst, trivial, "free symbols"
    bad_f = None
    for f, (z, exc, _) in zip(F, numeric):
        verdict, ref, d = judge(z, expr, {"f": f})
        cases.append((base_key + (f,), not verdict.startswith("trivial")))
        if verdict.startswith("trivial"):
            trivial[verdict[8:]] = trivial.get(verdict[8:], 0) + 1
        elif verdict == "pass":
            worst = max(worst, d)
        elif verdict == "mismatch":
            bad_f = bad_f or f
            fails.setdefault(f"{keyprefix}:impedance!=to_sympy", (fn_name, f"{label} at f={f}: get_impedances={z}, to_sympy(substitute=True)={ref} (relative {d:.3g} > {RTOL})", fill(OBJECT_REPRO, src=src, f=f, tol=RTOL)))
        else:
            bad_f = bad_f or f
            fails.setdefault(f"{keyprefix}:impedance-not-finite-where-to_sympy-is", (fn_name, f"{label} at f={f}: get_impedances raises {exc} although to_sympy(substitute=True) = {ref} is evaluated without leaving the double range", fill(OBJECT_REPRO, src=src, f=f, tol=RTOL)))
    return cases, fails, worst, trivial, "evaluated" if bad_f is None else ("differs", bad_f)


def run_tlm(args):
    config, variant, L, seed = args
    import numpy as np
    import pyimpspec  # noqa
    from pyimpspec.circuit.registry import get_elements
    Tlm = get_elements(private=True)["Tlm"]
    rng = np.random.default_rng([seed, variant, sum(i * 3 ** n for n, i in enumerate(map(("open", "short", "finite").index, config)))])
    tlm = Tlm(L=L, **{slot: tlm_subcircuit(kind, slot, variant, rng) for slot, kind in zip(SLOTS, config)})
    cfg = "/".join(f"{s}={k}" for s, k in zip(SLOTS, config))
    cases, fails, worst, trivial, outcome = compare_object(tlm, f"Tlm[{cfg}, L={L}]", "TransmissionLineModel._impedance", "Tlm", ("tlm", config, variant))
    if isinstance(outcome, tuple):
        outcome = "differs"
    return "tlm", outcome, cases, [(k,) + v for k, v in fails.items()], [{"Tlm": cfg, "L": L, "outcome": outcome, "worst_rel": worst}], worst, trivial


# ------------------------------------------------------------------ part C: circuits
def random_circuit(rng, syms, classes, max_leaves):
    from pyimpspec import Series, Parallel
    from pyimpspec.circuit.base import Container

    def leaf():
        sym = syms[int(rng.integers(len(syms)))]
        cls = classes[sym]
        p = {}
        for k, (kind, a, b) in param_ranges(cls).items():
            d = cls.get_default_value(k)
            if kind == "exp":
                p[k] = float(rng.uniform(0.3, 1.0))
            else:
                p[k] = float(d * 10 ** rng.uniform(-1.5, 1.5)) if d != 0 else 1.0
                lo, hi = cls.get_default_lower_limit(k), cls.get_default_upper_limit(k)
                p[k] = min(max(p[k], lo), hi)
        if issubclass(cls, Container):
            cfg = [("short", "finite"), ("finite", "finite"), ("finite", "short")][int(rng.integers(3))]
            ab = [("open", "open"), ("open", "finite"), ("finite", "open"), ("finite", "finite"), ("short", "open")][int(rng.integers(5))]
            kinds = dict(zip(SLOTS, cfg + ab + ("finite",)))
            return cls(**p, **{s: tlm_subcircuit(kinds[s], s, 1, rng) for s in SLOTS})
        return cls(**p)

    def tree(n, kind):
        if n == 1:
            return leaf()
        k = int(rng.integers(2, n + 1))
        cuts = sorted(rng.choice(range(1, n), size=k - 1, replace=False).tolist())
        sizes = [b - a for a, b in zip([0] + cuts, cuts + [n])]
        other = Parallel if kind is Series else Series
        return kind([tree(s, other) for s in sizes])
    n = int(rng.integers(1, max_leaves + 1))
    top = tree(n, Series if rng.integers(2) else Parallel)
    return top if isinstance(top, Series) else Series([top])


def run_circuit(args):
    index, seed, max_leaves = args
    import numpy as np
    import pyimpspec  # noqa
    from pyimpspec.circuit.registry import get_elements
    classes = get_elements(private=True)
    rng = np.random.default_rng([seed, 7, index])
    con = random_circuit(rng, sorted(classes), classes, max_leaves)
    basic = con.to_string()
    # the Circuit wrapper is what the property names; Series is its only state
    from pyimpspec import Circuit
    circuit = Circuit(con)
    cases, fails, worst, trivial, outcome = compare_object(_CircuitView(circuit, con), f"Circuit {con.to_string(6)}", "Connection.to_sympy", "circuit", ("circuit", index))
    out = []
    for key, (fn, what, repro) in fails.items():
        if isinstance(outcome, tuple) and key in ("circuit:impedance!=to_sympy", "circuit:impedance-not-finite-where-to_sympy-is"):
            # attribute the difference: which leaf disagrees with its own expression at that frequency?
            f = outcome[1]
            culprits = set()
            for e in con.get_elements(recursive=True):
                z, exc, _ = numeric_point(e, f)
                try:
                    verdict, _, _ = judge(z, e.to_sympy(substitute=True), {"f": f})
                except Exception:  # noqa
                    continue
                if verdict in ("mismatch", "not-finite"):
                    culprits.add(e.get_symbol())
            if culprits:
                for s in sorted(culprits):
                    out.append((f"{s}:{key.split(':', 1)[1].replace('to_sympy', 'equation')}:in-circuit", classes[s].__name__ + "._impedance", what + f"; element {s} differs from its own expression", repro))
                continue
            key += ":composition"
        out.append((key, fn, what, repro))
    if isinstance(outcome, tuple):
        outcome = "differs"
    return "circuit", outcome, cases, out, [{"circuit": basic, "outcome": outcome, "worst_rel": worst}], worst, trivial


# ------------------------------------------------------------------ part D: limits
LIMIT_REPRO = PRELUDE + """
e = E(@sym@)()
lim = complex(e.get_impedances(np.array([@f_lim@]))[0])
near = numeric(e, @f_near@)
scale = abs(numeric(e, 1.0))
if @to_zero@:
    assert abs(lim) <= @tol@ * scale, (lim, near)
else:
    assert abs(lim - near) <= @tol@ * abs(near), (lim, near)
"""


SCALAR_REPRO = PRELUDE + """
e = E(@sym@)()
fq = @f@
ref = complex(e.get_impedances(np.array([float(fq[0] if isinstance(fq, list) else fq)]))[0])
got = complex(np.asarray(e.get_impedances(fq)).ravel()[0])
assert abs(got - ref) <= 1e-12 * max(1.0, abs(ref)), (got, ref)
"""

MIXED_REPRO = PRELUDE + """
e = E(@sym@)()
f = np.array(@f@)
one = [complex(e.get_impedances(np.array([x]))[0]) for x in f]
many = [complex(z) for z in e.get_impedances(f)]
assert all(abs(a - b) <= 1e-12 * max(1.0, abs(b)) for a, b in zip(many, one)), (many, one)
"""


def run_mixed(args):
    """an array holding 0 Hz and infinite frequency among finite ones, in several orders: every entry is the value of ITS frequency
    (the limits are evaluated separately and written back by index)"""
    sym, = args
    import numpy as np
    import pyimpspec  # noqa
    from pyimpspec.circuit.registry import get_elements
    cls = get_elements(private=True)[sym]
    e = cls()
    cases, fails = [], []
    # a single frequency given as a plain number / a list is the one-element array of that frequency
    for fq in (10.0, 3, [250.0]):
        key = ("scalar-frequency", sym, repr(fq))
        cases.append((key, True))
        src = fill(SCALAR_REPRO, sym=sym, f=repr(fq))
        try:
            ref = complex(e.get_impedances(np.array([float(fq[0] if isinstance(fq, list) else fq)]))[0])
        except Exception:  # noqa  - the array form itself does not evaluate: nothing to compare
            continue
        try:
            got = complex(np.asarray(e.get_impedances(fq)).ravel()[0])
        except Exception as ex:  # noqa
            fails.append((f"{sym}:scalar-frequency:raises {type(ex).__name__}", "Element.get_impedances", f"{sym}().get_impedances({fq!r}) raises {type(ex).__name__}: {str(ex)[:80]} although the one-element array evaluates", src))
            continue
        if not abs(got - ref) <= 1e-12 * max(1.0, abs(ref)):
            fails.append((f"{sym}:scalar-frequency:differs-from-array", "Element.get_impedances", f"{sym}().get_impedances({fq!r}) = {got}, with the one-element array: {ref}", src))
    try:
        for x in (0.0, INF):
            if not finite(complex(e.get_impedances(np.array([x]))[0])):
                raise ValueError
    except Exception:  # noqa  - a limit is not reported for this class: nothing to mix
        return "mixed", "a limit is not reported", cases + [(("mixed", sym), False)], fails, [], 0.0, {}
    for f in ([0.0, 1.0, 10.0, INF], [0.0, INF, 1.0, 10.0], [10.0, INF, 1.0, 0.0], [INF, 1.0, 0.0], [0.0, 0.0, INF, 2.0, INF]):
        key = ("mixed", sym, tuple(f))
        src = fill(MIXED_REPRO, sym=sym, f=repr(f).replace("inf", "float('inf')"))
        try:
            one = [complex(e.get_impedances(np.array([x]))[0]) for x in f]
            many = [complex(z) for z in e.get_impedances(np.array(f))]
        except Exception as ex:  # noqa
            cases.append((key, True))
            fails.append((f"{sym}:mixed-limits:raises {type(ex).__name__}", "_calculate_impedances", f"{sym}().get_impedances({f}) raises {type(ex).__name__}: {str(ex)[:80]} although every single frequency evaluates", src))
            continue
        cases.append((key, True))
        if not all(abs(a - b) <= 1e-12 * max(1.0, abs(b)) for a, b in zip(many, one)):
            fails.append((f"{sym}:mixed-limits:entries-differ-from-single-frequency-values", "_calculate_impedances", f"{sym}().get_impedances({f}) = {many}, one frequency at a time: {one}", src))
    return "mixed", "compared", cases, fails, [], 0.0, {}


def run_limit(args):
    sym, which = args
    import numpy as np
    import pyimpspec  # noqa
    from pyimpspec.circuit.registry import get_elements
    from pyimpspec.circuit.base import Container
    cls = get_elements(private=True)[sym]
    e = cls()
    f_lim = 0.0 if which == "0" else INF
    f_near = 1e-12 if which == "0" else 1e15
    key = ("limit", sym, which)
    try:
        lim = complex(e.get_impedances(np.array([f_lim]))[0])
    except Exception as ex:  # noqa  - nothing is reported: outside the clause "wherever a finite limit is reported"
        return "limit", "not reported: " + type(ex).__name__, [(key, False)], [], [], 0.0, {}
    if not finite(lim):
        return "limit", "reported", [(key, True)], [(f"{sym}:limit:f={which}:non-finite-returned", "_calculate_limit", f"{sym}().get_impedances([{f_lim}]) returned {lim}", "raise SystemExit(1)")], [], 0.0, {}
    expr = e.to_sympy(substitute=True) if issubclass(cls, Container) else equation_expr(cls)
    values = {} if issubclass(cls, Container) else e.get_values()
    import mpmath
    step = mpmath.mpf(10) ** (-12 if which == "0" else 15)
    z1, z2, z3 = (evaluate(expr, dict(values, f=step ** k))[0] for k in (1, 2, 3))
    scale = abs(evaluate(expr, dict(values, f=1.0))[0])
    near = numeric_point(e, f_near)[0]
    repro = lambda to_zero: fill(LIMIT_REPRO, sym=sym, f_lim="0.0" if which == "0" else "float('inf')", f_near=f_near, tol=LIMIT_RTOL, to_zero=to_zero)  # noqa: E731
    sample = [{"limit": sym, "f": which, "reported": str(lim), "near": str(near)}]
    fails = []
    if all(map(finite, (z1, z2, z3))) and abs(z3) <= 1e-3 * abs(z2) <= 1e-6 * abs(z1) and abs(z1) <= LIMIT_RTOL * scale:
        if not abs(lim) <= LIMIT_RTOL * scale:
            fails.append((f"{sym}:limit:f={which}:not-continuous-extension", "_calculate_limit", f"{sym}() at f->{f_lim}: reported {lim}, but the finite-frequency values tend to 0 ({z1}, {z2}, {z3})", repro(True)))
        return "limit", "reported, tends to 0", [(key, True)], fails, sample, abs(lim) / scale, {}
    if all(map(finite, (z1, z2, z3, near))) and abs(z2 - z3) <= 1e-7 * abs(z3) and abs(z1 - z3) <= 1e-7 * abs(z3):
        d = rel(lim, near)
        if not d <= LIMIT_RTOL:
            fails.append((f"{sym}:limit:f={which}:not-continuous-extension", "_calculate_limit", f"{sym}() at f->{f_lim}: reported {lim}, value at f={f_near} is {near} (relative {d:.3g} > {LIMIT_RTOL}); the expression converges to {z3}", repro(False)))
        return "limit", "reported, converged", [(key, True)], fails, sample, d, {}
    return "limit", "reported, not converged at 1e-12/1e15 (not compared)", [(key, False)], [], sample, 0.0, {}


def dispatch(task):
    part, args = task
    return {"element": run_element, "tlm": run_tlm, "circuit": run_circuit, "limit": run_limit, "mixed": run_mixed}[part](args)


def main(a):
    import pyimpspec  # noqa
    from pyimpspec.circuit.registry import get_elements
    from pyimpspec.circuit.base import Container
    classes = get_elements(private=True)
    thorough = a.tier != "quick"
    n_random = 1500 if thorough else 100
    n_circuits = 400 if thorough else 50
    max_leaves = 4 if thorough else 3
    variants = [(0, 1.0), (1, 0.3), (2, 2.5)] if thorough else [(0, 1.0)]
    chunks = 16 if thorough else 4
    tasks = []
    for sym, cls in classes.items():
        if issubclass(cls, Container):
            continue
        for c in range(chunks):
            tasks.append(("element", (sym, n_random, c, chunks, a.seed)))
    for config in itertools.product(("open", "short", "finite"), repeat=5):
        for variant, L in variants:
            tasks.append(("tlm", (config, variant, L, a.seed)))
    for i in range(n_circuits):
        tasks.append(("circuit", (i, a.seed, max_leaves)))
    for sym in classes:
        for which in ("0", "inf"):
            tasks.append(("limit", (sym, which)))
        tasks.append(("mixed", (sym,)))
    order = {"limit": 0, "mixed": 0, "circuit": 1, "element": 2, "tlm": 3}      # slow symbolic tasks first
    tasks.sort(key=lambda t: order[t[0]])
    n_el = sum(1 for c in classes.values() if not issubclass(c, Container))
    res = Result(
        "C02",
        f"{n_el} element classes x (all box corners + defaults + {n_random} log-uniform parameter vectors) x {N_FREQ} frequencies 1e-6..1e9 Hz; "
        f"Tlm in all 243 open/short/finite configurations of its 5 sub-circuits (contains the 36 with X_1, X_2 not open and Zeta finite) x {len(variants)} sub-circuit variants; "
        f"{n_circuits} random circuits <= {max_leaves} leaves over all {len(classes)} classes; f=0 and f=inf limits of all {len(classes)} classes at default parameters",
        "per class: corners of the finite sampling box (infinite limits replaced by 1e12, zero lower limits by 1e-12, exponents in [0.02, 1], unlimited parameters +-[1e-9, 1e9]) and seeded log-uniform draws; "
        f"reference = mpmath evaluation (precision doubled until stable) of the sympified `_equation` resp. of to_sympy(substitute=True), relative tolerance {RTOL}; a point is trivial when the double range is exhausted "
        f"(implementation not finite and the reference or one of its intermediate results outside [1e-300, 1e300]) or when the condition number of the expression exceeds {ILL_CONDITIONED:g}; "
        f"distinct = (class, parameter vector, frequency) / (Tlm configuration, variant, frequency) / (circuit, frequency); limits: compared with f=1e-12/1e15 where the expression has converged (relative {LIMIT_RTOL})")
    stats = {p: {"evaluations": 0, "nontrivial": 0, "worst_passing_relative_difference": 0.0, "trivial": {}, "outcomes": {}} for p in order}
    with mp.get_context("fork").Pool(16) as pool:
        for part, outcome, cases, fails, samples, worst, trivial in pool.imap_unordered(dispatch, tasks, chunksize=1):
            st = stats[part]
            for key, nontrivial in cases:
                res.case(key, nontrivial=nontrivial)
                st["evaluations"] += 1
                st["nontrivial"] += 1 if nontrivial else 0
            st["worst_passing_relative_difference"] = max(st["worst_passing_relative_difference"], worst)
            for k, v in trivial.items():
                st["trivial"][k] = st["trivial"].get(k, 0) + v
            if part != "element":
                st["outcomes"][outcome] = st["outcomes"].get(outcome, 0) + 1
            if samples and len(res.samples) < 12 and sum(1 for s in res.samples if next(iter(s)) == next(iter(samples[0]))) < 3:
                res.samples.append(samples[0])
            for key, fn, what, repro in fails:
                res.fail(key, fn, what, repro)
    for part, st in stats.items():
        res.part(part, **st)
    return res


if __name__ == "__main__":
    guarded(main)
