"""C02 bounded layer (Layer R): the numeric impedance of every registered element against its documented equation
(evaluated independently with mpmath), the general transmission line container in every open/short/finite
configuration against its symbolic export, whole circuits against `to_sympy(substitute=True)`, and the reported
0 Hz / infinite-frequency limits against the finite-frequency values.  BOUNDED - never counted as proved."""
import itertools
import math
import multiprocessing as mp
import sys

sys.path.insert(0, __file__.rsplit("/bounded/", 1)[0])
from bounded.common import Result, guarded  # noqa: E402

INF = float("inf")
RTOL = 1e-9
OVERFLOWS = (ZeroDivisionError, OverflowError, FloatingPointError)   # double-precision range exhausted (python floats raise instead of returning inf)
LIMIT_RTOL = 1e-6
N_FREQ = 7
DPS = 40


def freqs():
    import numpy as np
    return np.logspace(-6, 9, N_FREQ)


# ------------------------------------------------------------------ helpers
def param_ranges(cls):
    """finite sampling range per parameter, inside the class limits: ('exp', a, b) uniform, ('log', a, b) log-uniform,
    ('sym', a, b) log-uniform magnitude with either sign (parameters without a lower limit)"""
    lo, hi = cls.get_default_lower_limits(), cls.get_default_upper_limits()
    out = {}
    for k in lo:
        lower, upper = lo[k], hi[k]
        if lower == 0.0 and upper == 1.0:
            out[k] = ("exp", 0.02, 1.0)
        elif lower == -INF:
            out[k] = ("sym", 1e-9, 1e9 if upper == INF else upper)
        else:
            out[k] = ("log", lower if lower > 0.0 else 1e-12, 1e12 if upper == INF else upper)
        assert lower <= out[k][1] <= out[k][2] <= upper or out[k][0] == "sym"
    return out


def sample_params(rng, ranges):
    out = {}
    for k, (kind, a, b) in ranges.items():
        if kind == "exp":
            out[k] = float(rng.uniform(a, b))
        elif kind == "log":
            out[k] = float(10 ** rng.uniform(math.log10(a), math.log10(b)))
        else:
            out[k] = float(rng.choice([-1.0, 1.0]) * 10 ** rng.uniform(math.log10(a), math.log10(b)))
    return out


def corner_params(ranges):
    keys = list(ranges)
    opts = []
    for k in keys:
        kind, a, b = ranges[k]
        opts.append([a, b] if kind != "sym" else [-b, b])
    for combo in itertools.product(*opts):
        yield dict(zip(keys, map(float, combo)))


def equation_functions(cls):
    """(mpmath evaluator, numpy double evaluator) of the documented equation string, argument order keys + [f]"""
    import numpy as np
    import sympy
    expr = sympy.sympify(cls._equation)
    keys = list(cls.get_default_values())
    syms = [sympy.Symbol(k) for k in keys] + [sympy.Symbol("f")]
    if not expr.free_symbols <= set(syms):
        raise AssertionError(f"harness: unexpected symbols in the equation of {cls}: {expr.free_symbols}")
    f_mp = sympy.lambdify(syms, expr, modules="mpmath")
    f_np = sympy.lambdify(syms, expr, modules=[{"coth": lambda x: 1 / np.tanh(x)}, "numpy"])
    return keys, f_mp, f_np


def mp_eval(f_mp, keys, p, f):
    import mpmath
    mpmath.mp.dps = DPS
    try:
        return complex(f_mp(*[mpmath.mpf(p[k]) for k in keys], mpmath.mpf(float(f))))
    except (ZeroDivisionError, OverflowError, ValueError):
        return complex("nan")


def np_eval(f_np, keys, p, f):
    import numpy as np
    try:
        with np.errstate(all="ignore"):
            z = f_np(*[np.float64(p[k]) for k in keys], np.array([f], dtype=float))
        return complex(np.asarray(z, dtype=complex).ravel()[0])
    except (ZeroDivisionError, OverflowError, FloatingPointError):
        return complex("nan")


def finite(z):
    return math.isfinite(z.real) and math.isfinite(z.imag)


def rel(z, ref):
    return abs(z - ref) / abs(ref) if ref != 0 else abs(z)


ELEMENT_REPRO = """import numpy as np, sympy, mpmath
from pyimpspec.circuit.registry import get_elements
mpmath.mp.dps = 40
cls = get_elements(private=True)[{sym!r}]
p = {p!r}
f = {f!r}
z = complex(cls(**p).get_impedances(np.array([f]))[0])
keys = list(p)
fn = sympy.lambdify([sympy.Symbol(k) for k in keys] + [sympy.Symbol("f")], sympy.sympify(cls._equation), modules="mpmath")
ref = complex(fn(*[mpmath.mpf(p[k]) for k in keys], mpmath.mpf(f)))
assert abs(z - ref) <= {tol!r} * abs(ref), ("implementation", z, "equation", ref)
"""


# ------------------------------------------------------------------ part A: elements
def run_element(args):
    sym, n_random, seed = args
    import numpy as np
    import pyimpspec  # noqa
    from pyimpspec.circuit.registry import get_elements
    from pyimpspec.exceptions import ImpedanceError
    cls = get_elements(private=True)[sym]
    keys, f_mp, f_np = equation_functions(cls)
    ranges = param_ranges(cls)
    rng = np.random.default_rng([seed, sum(map(ord, sym))])
    F = freqs()
    points = [("corner", p) for p in corner_params(ranges)] + [("random", sample_params(rng, ranges)) for _ in range(n_random)]
    points.append(("default", cls.get_default_values()))
    cases, fails, samples, worst = [], [], [], 0.0
    for kind, p in points:
        e = cls(**p)
        try:
            Z = e.get_impedances(F)
            Zs = [complex(z) for z in Z]
        except OVERFLOWS + (ImpedanceError,):
            # evaluate point-wise so one overflowing frequency does not hide the others
            Zs = []
            for f in F:
                try:
                    Zs.append(complex(e.get_impedances(np.array([f]))[0]))
                except OVERFLOWS + (ImpedanceError,):
                    Zs.append(complex("nan"))
        for f, z in zip(F, Zs):
            f = float(f)
            key = (sym, kind, tuple(p.values()), f)
            if not finite(z):
                z_np = np_eval(f_np, keys, p, f)
                if not finite(z_np):
                    cases.append((key, False))      # overflow/NaN in double precision on both sides
                    continue
                cases.append((key, True))
                fails.append((f"{sym}:impedance-not-finite-where-equation-is", cls.__name__ + "._impedance",
                              f"{sym}(**{p}) at f={f}: get_impedances gives a non-finite value/raises, the equation evaluates to {z_np} in double precision",
                              ELEMENT_REPRO.format(sym=sym, p=p, f=f, tol=RTOL)))
                continue
            ref = mp_eval(f_mp, keys, p, f)
            if not finite(ref):
                z_np = np_eval(f_np, keys, p, f)
                cases.append((key, False))
                if finite(z_np):
                    raise AssertionError(f"harness: mpmath reference not finite for {sym} {p} {f}")
                continue
            d = rel(z, ref)
            cases.append((key, True))
            worst = max(worst, d) if d <= RTOL else worst
            if not d <= RTOL:
                fails.append((f"{sym}:impedance!=equation", cls.__name__ + "._impedance",
                              f"{sym}(**{p}) at f={f}: get_impedances={z} but the documented equation {cls._equation!r} evaluates to {ref} (relative difference {d:.3g} > {RTOL})",
                              ELEMENT_REPRO.format(sym=sym, p=p, f=f, tol=RTOL)))
            elif len(samples) < 1 and kind == "random":
                samples.append({"element": sym, "parameters": p, "f": f, "Z": str(z), "equation": str(ref), "rel": d})
    # keep the failure with the simplest input first (defaults/one-parameter deviations are not searched; first hit is enough)
    return "element", sym, cases, fails[:3], samples, worst


# ------------------------------------------------------------------ part B: Tlm configurations
def tlm_subcircuit(kind, slot, variant, rng):
    """kind in open/short/finite; returns None / Series([]) / a connection"""
    from pyimpspec import Series, Parallel, Resistor, Capacitor, ConstantPhaseElement, Warburg
    if kind == "open":
        return None
    if kind == "short":
        return Series([])
    s = (lambda lo, hi: float(10 ** rng.uniform(math.log10(lo), math.log10(hi)))) if variant > 0 else None
    if slot == "X_1":
        return Series([Resistor(R=s(0.1, 100) if s else 2.0)])
    if slot == "X_2":
        if variant == 2:
            return Series([Resistor(R=s(0.1, 100)), Parallel([Resistor(R=s(1, 10)), Capacitor(C=s(1e-6, 1e-3))])])
        return Series([Resistor(R=s(0.1, 100) if s else 0.5)])
    if slot == "Z_A":
        return Series([Parallel([Resistor(R=s(1, 1e3) if s else 30.0), Capacitor(C=s(1e-7, 1e-3) if s else 2e-5)])])
    if slot == "Z_B":
        if variant == 2:
            return Parallel([Resistor(R=s(1, 1e3)), Warburg(Y=s(1e-4, 1e-1))])
        return Series([Resistor(R=s(1, 1e3) if s else 7.0), Capacitor(C=s(1e-7, 1e-3) if s else 1e-4)])
    if slot == "Zeta":
        if variant == 2:
            return Series([Parallel([Resistor(R=s(1, 1e3)), ConstantPhaseElement(Y=s(1e-5, 1e-2), n=float(rng.uniform(0.5, 1.0)))])])
        return Series([ConstantPhaseElement(Y=s(1e-5, 1e-2) if s else 5e-3, n=float(rng.uniform(0.5, 1.0)) if s else 0.8)])
    raise AssertionError(slot)


SLOTS = ("X_1", "X_2", "Z_A", "Z_B", "Zeta")

TLM_REPRO = """import numpy as np, sympy, mpmath, pyimpspec
mpmath.mp.dps = 40
c = pyimpspec.parse_cdc({cdc!r})
tlm = c.get_elements(recursive=False)[0]
F = np.logspace(-6, 9, 7)
def outcome(fn):
    try:
        return ("ok", fn())
    except NotImplementedError:
        return ("NotImplementedError", None)
num = outcome(lambda: tlm.get_impedances(F))
symb = outcome(lambda: tlm.to_sympy(substitute=True))
assert num[0] == symb[0], ("numeric", num[0], "symbolic", symb[0])
if num[0] == "ok":
    fn = sympy.lambdify([sympy.Symbol("f")], symb[1], modules="mpmath")
    for f, z in zip(F, num[1]):
        ref = complex(fn(mpmath.mpf(float(f))))
        assert abs(complex(z) - ref) <= {tol!r} * abs(ref), (f, z, ref)
"""


def classify_exception(ex):
    from pyimpspec.exceptions import ImpedanceError
    if isinstance(ex, NotImplementedError):
        return "NotImplementedError"
    if isinstance(ex, ImpedanceError):
        return type(ex).__name__
    return "unexpected:" + type(ex).__name__


def run_tlm(args):
    config, variant, L, seed = args
    import numpy as np
    import sympy
    import mpmath
    import pyimpspec  # noqa
    from pyimpspec import Series, Circuit
    from pyimpspec.circuit.registry import get_elements
    mpmath.mp.dps = DPS
    Tlm = get_elements(private=True)["Tlm"]
    rng = np.random.default_rng([seed, variant, sum(i * 3 ** n for n, i in enumerate(map(("open", "short", "finite").index, config)))])
    subs = {slot: tlm_subcircuit(kind, slot, variant, rng) for slot, kind in zip(SLOTS, config)}
    tlm = Tlm(L=L, **subs)
    cdc = Circuit(Series([tlm])).serialize(17)
    F = freqs()
    key = ("tlm", config, variant, L)
    cfg = "/".join(f"{s}={k}" for s, k in zip(SLOTS, config))
    fails = []
    num_exc = sym_exc = None
    Z = expr = None
    try:
        Z = tlm.get_impedances(F)
    except Exception as ex:  # noqa
        num_exc = classify_exception(ex)
    try:
        expr = tlm.to_sympy(substitute=True)
    except Exception as ex:  # noqa
        sym_exc = classify_exception(ex)
    repro = TLM_REPRO.format(cdc=cdc, tol=RTOL)
    fn_name = "TransmissionLineModel._impedance"
    if (num_exc == "NotImplementedError") != (sym_exc == "NotImplementedError"):
        fails.append(("Tlm:NotImplementedError-parity", fn_name, f"Tlm {cfg}: _impedance -> {num_exc or 'value'}, to_sympy -> {sym_exc or 'expression'}", repro))
        return "tlm", cfg, [(key, True)], fails, [], 0.0
    if num_exc == "NotImplementedError":
        return "tlm", cfg, [(key, True)], fails, [{"Tlm": cfg, "outcome": "NotImplementedError in both"}], 0.0
    for which, exc in (("numeric", num_exc), ("symbolic", sym_exc)):
        if exc is not None and exc.startswith("unexpected:"):
            fails.append((f"Tlm:{which}:{exc}", fn_name if which == "numeric" else "TransmissionLineModel._sympy", f"Tlm {cfg}: {which} evaluation raised {exc}", repro))
    if fails:
        return "tlm", cfg, [(key, True)], fails, [], 0.0
    if sym_exc is not None:
        fails.append((f"Tlm:symbolic-raises-{sym_exc}", "TransmissionLineModel._sympy", f"Tlm {cfg}: to_sympy raised {sym_exc}, numeric {'raised ' + num_exc if num_exc else 'returned values'}", repro))
        return "tlm", cfg, [(key, True)], fails, [], 0.0
    free = expr.free_symbols
    if not free <= {sympy.Symbol("f")}:
        fails.append(("Tlm:symbolic-free-symbols-left", "Container.to_sympy", f"Tlm {cfg}: to_sympy(substitute=True) still contains {free}", repro))
        return "tlm", cfg, [(key, True)], fails, [], 0.0
    fn = sympy.lambdify([sympy.Symbol("f")], expr, modules="mpmath")
    refs = []
    for f in F:
        try:
            refs.append(complex(fn(mpmath.mpf(float(f)))))
        except (ZeroDivisionError, OverflowError, ValueError, TypeError):
            refs.append(complex("nan"))
    if num_exc is not None:
        # numeric evaluation refused with an impedance error: the symbolic value must not be finite either
        if all(finite(r) for r in refs):
            fails.append((f"Tlm:numeric-{num_exc}-where-symbolic-finite", fn_name,
                          f"Tlm {cfg}: get_impedances raised {num_exc} although to_sympy(substitute=True) evaluates to finite values {refs[:2]}...", repro))
        return "tlm", cfg, [(key, True)], fails, [], 0.0
    worst = 0.0
    for f, z, ref in zip(F, Z, refs):
        z = complex(z)
        if not finite(ref):
            fails.append(("Tlm:symbolic-not-finite-where-numeric-is", "TransmissionLineModel._sympy", f"Tlm {cfg} f={f}: numeric {z}, symbolic {ref}", repro))
            break
        d = rel(z, ref)
        if not d <= RTOL:
            fails.append(("Tlm:impedance!=to_sympy", fn_name, f"Tlm {cfg} L={L} f={f}: get_impedances={z}, to_sympy(substitute=True)={ref} (relative {d:.3g})", repro))
            break
        worst = max(worst, d)
    return "tlm", cfg, [(key, True)], fails, [{"Tlm": cfg, "L": L, "rel": worst}], worst


# ------------------------------------------------------------------ part C: circuits
def random_circuit(rng, syms, classes, max_leaves):
    from pyimpspec import Series, Parallel
    from pyimpspec.circuit.base import Container

    def leaf():
        sym = syms[int(rng.integers(len(syms)))]
        cls = classes[sym]
        p = {}
        for k, (kind, a, b) in param_ranges(cls).items():
            d = cls.get_default_value(k)
            if kind == "exp":
                p[k] = float(rng.uniform(0.3, 1.0))
            else:
                p[k] = float(d * 10 ** rng.uniform(-1.5, 1.5)) if d != 0 else 1.0
                lo, hi = cls.get_default_lower_limit(k), cls.get_default_upper_limit(k)
                p[k] = min(max(p[k], lo), hi)
        if issubclass(cls, Container):
            cfg = [("short", "finite"), ("finite", "finite"), ("finite", "short")][int(rng.integers(3))]
            ab = [("open", "open"), ("open", "finite"), ("finite", "open"), ("finite", "finite"), ("short", "open")][int(rng.integers(5))]
            kinds = dict(zip(SLOTS, cfg + ab + ("finite",)))
            return cls(**p, **{s: tlm_subcircuit(kinds[s], s, 1, rng) for s in SLOTS})
        return cls(**p)

    def tree(n, kind):
        if n == 1:
            return leaf()
        k = int(rng.integers(2, n + 1))
        cuts = sorted(rng.choice(range(1, n), size=k - 1, replace=False).tolist())
        sizes = [b - a for a, b in zip([0] + cuts, cuts + [n])]
        other = Parallel if kind is Series else Series
        return kind([tree(s, other) for s in sizes])
    n = int(rng.integers(1, max_leaves + 1))
    top = tree(n, Series if rng.integers(2) else Parallel)
    return top if isinstance(top, Series) else Series([top])


CIRCUIT_REPRO = """import numpy as np, sympy, mpmath, pyimpspec
mpmath.mp.dps = 40
c = pyimpspec.parse_cdc({cdc!r})
F = np.logspace(-6, 9, 7)
Z = c.get_impedances(F)
fn = sympy.lambdify([sympy.Symbol("f")], c.to_sympy(substitute=True), modules="mpmath")
for f, z in zip(F, Z):
    ref = complex(fn(mpmath.mpf(float(f))))
    assert abs(complex(z) - ref) <= {tol!r} * abs(ref), (f, z, ref)
"""


def run_circuit(args):
    index, seed, max_leaves = args
    import numpy as np
    import sympy
    import mpmath
    import pyimpspec  # noqa
    from pyimpspec import Circuit
    from pyimpspec.circuit.registry import get_elements
    from pyimpspec.exceptions import ImpedanceError
    mpmath.mp.dps = DPS
    classes = get_elements(private=True)
    syms = sorted(classes)
    rng = np.random.default_rng([seed, 7, index])
    circuit = Circuit(random_circuit(rng, syms, classes, max_leaves))
    cdc = circuit.serialize(17)
    basic = circuit.to_string()
    F = freqs()
    key = ("circuit", cdc)
    fails = []
    try:
        Z = circuit.get_impedances(F)
    except (ImpedanceError, NotImplementedError):
        return "circuit", basic, [(key, False)], fails, [], 0.0
    expr = circuit.to_sympy(substitute=True)
    if not expr.free_symbols <= {sympy.Symbol("f")}:
        fails.append(("circuit:symbolic-free-symbols-left", "Circuit.to_sympy", f"{cdc}: to_sympy(substitute=True) still contains {expr.free_symbols}", CIRCUIT_REPRO.format(cdc=cdc, tol=RTOL)))
        return "circuit", basic, [(key, True)], fails, [], 0.0
    fn = sympy.lambdify([sympy.Symbol("f")], expr, modules="mpmath")
    worst = 0.0
    for f, z in zip(F, Z):
        z = complex(z)
        ref = complex(fn(mpmath.mpf(float(f))))
        d = rel(z, ref)
        if d <= RTOL:
            worst = max(worst, d)
            continue
        # attribute the difference: which leaf disagrees with its own equation at this frequency?
        culprits = set()
        for e in circuit.get_elements(recursive=True):
            try:
                ze = complex(e.get_impedances(np.array([f]))[0])
                efn = sympy.lambdify([sympy.Symbol("f")], e.to_sympy(substitute=True), modules="mpmath")
                re_ = complex(efn(mpmath.mpf(float(f))))
            except Exception:  # noqa
                continue
            if not rel(ze, re_) <= RTOL:
                culprits.add(e.get_symbol())
        what = f"{cdc} at f={f}: get_impedances={z}, to_sympy(substitute=True)={ref} (relative {d:.3g})"
        if culprits:
            for s in sorted(culprits):
                fails.append((f"{s}:impedance!=equation:in-circuit", classes[s].__name__ + "._impedance", what + f"; element {s} differs from its own expression", CIRCUIT_REPRO.format(cdc=cdc, tol=RTOL)))
        else:
            fails.append(("circuit:impedance!=to_sympy:composition", "Connection.to_sympy", what, CIRCUIT_REPRO.format(cdc=cdc, tol=RTOL)))
        break
    return "circuit", basic, [(key, True)], fails, [{"circuit": basic, "rel": worst}], worst


# ------------------------------------------------------------------ part D: limits
LIMIT_REPRO = """import numpy as np, mpmath, sympy
from pyimpspec.circuit.registry import get_elements
e = get_elements(private=True)[{sym!r}]()
lim = complex(e.get_impedances(np.array([{f_lim}]))[0])
near = complex(e.get_impedances(np.array([{f_near!r}]))[0])
scale = abs(complex(e.get_impedances(np.array([1.0]))[0]))
if {to_zero!r}:
    assert abs(lim) <= {tol!r} * scale, (lim, near)
else:
    assert abs(lim - near) <= {tol!r} * abs(near), (lim, near)
"""


def run_limit(args):
    sym, which = args
    import numpy as np
    import mpmath
    import pyimpspec  # noqa
    from pyimpspec.circuit.registry import get_elements
    from pyimpspec.circuit.base import Container
    from pyimpspec.exceptions import ImpedanceError
    mpmath.mp.dps = DPS
    cls = get_elements(private=True)[sym]
    e = cls()
    f_lim = 0.0 if which == "0" else INF
    f_near = 1e-12 if which == "0" else 1e15
    key = ("limit", sym, which)
    try:
        lim = complex(e.get_impedances(np.array([f_lim]))[0])
    except (ImpedanceError, NotImplementedError):
        return "limit", sym, [(key, False)], [], [], 0.0
    if not finite(lim):
        return "limit", sym, [(key, True)], [(f"{sym}:limit:f={which}:non-finite-returned", "_calculate_limit", f"{sym}().get_impedances([{f_lim}]) returned {lim}", "raise SystemExit(1)")], [], 0.0
    # does the documented expression converge there?  evaluate it with mpmath far beyond double range
    if issubclass(cls, Container):
        import sympy
        fn = sympy.lambdify([sympy.Symbol("f")], e.to_sympy(substitute=True), modules="mpmath")
        ev = lambda f: complex(fn(f))  # noqa: E731
    else:
        keys, f_mp, _ = equation_functions(cls)
        p = e.get_values()
        ev = lambda f: complex(f_mp(*[mpmath.mpf(p[k]) for k in keys], f))  # noqa: E731
    step = mpmath.mpf(10) ** (-12 if which == "0" else 15)
    try:
        z1, z2, z3 = ev(step), ev(step ** 2), ev(step ** 3)
        scale = abs(ev(mpmath.mpf(1)))
    except (ZeroDivisionError, OverflowError, ValueError):
        return "limit", sym, [(key, False)], [], [], 0.0
    near = complex(e.get_impedances(np.array([f_near]))[0])
    repro = lambda to_zero: LIMIT_REPRO.format(sym=sym, f_lim="0.0" if which == "0" else "float('inf')", f_near=f_near, tol=LIMIT_RTOL, to_zero=to_zero)  # noqa: E731
    fails = []
    if abs(z3) <= 1e-3 * abs(z2) <= 1e-6 * abs(z1) and abs(z1) <= LIMIT_RTOL * scale:
        # tends to zero
        if not abs(lim) <= LIMIT_RTOL * scale:
            fails.append((f"{sym}:limit:f={which}:not-continuous-extension", "_calculate_limit", f"{sym}() at f->{f_lim}: reported {lim}, finite-frequency values tend to 0 ({z1}, {z2}, {z3})", repro(True)))
        return "limit", sym, [(key, True)], fails, [{"limit": sym, "f": which, "reported": str(lim), "near": str(near)}], abs(lim) / scale
    if finite(z2) and finite(z3) and abs(z2 - z3) <= 1e-7 * abs(z3) and abs(z1 - z3) <= 1e-7 * abs(z3):
        d = rel(lim, near)
        if not d <= LIMIT_RTOL:
            fails.append((f"{sym}:limit:f={which}:not-continuous-extension", "_calculate_limit", f"{sym}() at f->{f_lim}: reported {lim}, value at f={f_near} is {near} (relative {d:.3g}); the expression converges to {z3}", repro(False)))
        return "limit", sym, [(key, True)], fails, [{"limit": sym, "f": which, "reported": str(lim), "near": str(near)}], d
    # the expression does not converge at this scale (slow convergence): outside the comparison's validity
    return "limit", sym, [(key, False)], [], [], 0.0


def dispatch(task):
    part, args = task
    return {"element": run_element, "tlm": run_tlm, "circuit": run_circuit, "limit": run_limit}[part](args)


def main(a):
    import pyimpspec  # noqa
    from pyimpspec.circuit.registry import get_elements
    from pyimpspec.circuit.base import Container
    classes = get_elements(private=True)
    thorough = a.tier != "quick"
    n_random = 1500 if thorough else 100
    n_circuits = 400 if thorough else 50
    variants = [(0, 1.0), (1, 0.3), (2, 2.5)] if thorough else [(0, 1.0)]
    chunks = 10 if thorough else 1
    tasks = []
    for sym, cls in classes.items():
        if issubclass(cls, Container):
            continue
        for c in range(chunks):
            tasks.append(("element", (sym, n_random // chunks, a.seed * 1000 + c)))
    for config in itertools.product(("open", "short", "finite"), repeat=5):
        for variant, L in variants:
            tasks.append(("tlm", (config, variant, L, a.seed)))
    for i in range(n_circuits):
        tasks.append(("circuit", (i, a.seed, 4 if thorough else 3)))
    for sym in classes:
        for which in ("0", "inf"):
            tasks.append(("limit", (sym, which)))
    # heavy symbolic tasks first
    order = {"limit": 0, "circuit": 1, "element": 2, "tlm": 3}
    tasks.sort(key=lambda t: order[t[0]])
    res = Result(
        "C02",
        f"{sum(1 for c in classes.values() if not issubclass(c, Container))} element classes x (all box corners + {n_random} log-uniform parameter vectors + defaults) x {N_FREQ} frequencies 1e-6..1e9 Hz; "
        f"Tlm in all 243 open/short/finite configurations of its 5 sub-circuits x {len(variants)} sub-circuit variants; {n_circuits} random circuits <= {4 if thorough else 3} leaves over all {len(classes)} classes; "
        f"f=0 and f=inf limits of all {len(classes)} classes at default parameters",
        "per class: corners of the finite sampling box (infinite limits replaced by 1e12, zero lower limits by 1e-12, exponents in [0.02, 1]) and seeded log-uniform draws; reference = mpmath (40 digits) evaluation of the "
        f"sympified `_equation`, relative tolerance {RTOL}; a point is trivial when both the implementation and the double-precision equation overflow; distinct = (class, parameter vector, frequency); Tlm: distinct = configuration x variant; "
        f"limits: compared with f=1e-12/1e15 where the expression has converged (relative {LIMIT_RTOL})")
    stats = {"element": [0, 0, 0.0], "tlm": [0, 0, 0.0], "circuit": [0, 0, 0.0], "limit": [0, 0, 0.0]}
    tlm_outcomes = {"NotImplementedError in both": 0, "evaluated": 0}
    with mp.get_context("fork").Pool(16) as pool:
        for part, name, cases, fails, samples, worst in pool.imap_unordered(dispatch, tasks, chunksize=1):
            for key, nontrivial in cases:
                res.case(key, nontrivial=nontrivial)
                stats[part][0] += 1
                stats[part][1] += 1 if nontrivial else 0
            stats[part][2] = max(stats[part][2], worst)
            if len(res.samples) < 12 and samples and (part != "element" or len(res.samples) < 6):
                res.samples.append(samples[0])
            if part == "tlm" and samples:
                tlm_outcomes["NotImplementedError in both" if "outcome" in samples[0] else "evaluated"] += 1
            for key, fn, what, repro in fails:
                res.fail(key, fn, what, repro)
    for part, (n, nt, worst) in stats.items():
        res.part(part, evaluations=n, nontrivial=nt, worst_passing_relative_difference=worst)
    res.part("tlm_outcomes", **tlm_outcomes)
    return res


if __name__ == "__main__":
    guarded(main)
