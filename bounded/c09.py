"""C09 bounded layer (Layer R): Kramers-Kronig results (fixed num_RC, fixed extension) under Z -> c*Z, f -> c*f and reversed
point order: relative residuals and pseudo chi-squared unchanged, fitted R/C/L/time constants rescaled accordingly.
BOUNDED - never counted as proved."""
import sys

import numpy as np

sys.path.insert(0, __file__.rsplit("/bounded/", 1)[0])
from bounded.common import Result, guarded  # noqa: E402
from bounded.c07_util import LINEAR_TESTS, pmap  # noqa: E402

TOL_RES = 1e-4        # frozen (DESIGN.md C09): max |delta residual|, absolute
TOL_CHI = 1e-4        # frozen: |delta log10 pseudo_chisqr|
TOL_PAR = 1e-2        # own tolerance (measured 1.87e-4 at f x 1e3, x100 margin): change of every element's immittance contribution relative to |X_total| at each point
TOL_TAU = 1e-9        # time constants scale exactly (relative)
# key: <zscale|fscale|reversed>=<c>:<columns>:<test>:<Z|Y>:<observable>.  The known lstsq/pinv rank truncation (frequencies scaled by >= 1e4
# or <= 1e-6 with a capacitance and/or inductance column) is matched by ^fscale=(1e4|1e6|1e-6):(C-column|L-column|C\+L-columns): ; every
# |log10 c| <= 3, every zscale, every no-C-no-L case and "reversed" stay outside that pattern.
CNAME = {1e-6: "1e-6", 1e-3: "1e-3", 1e3: "1e3", 1e4: "1e4", 1e6: "1e6", 1.0: "1"}

MOCKS_QUICK = (("CIRCUIT_1", 9), ("CIRCUIT_2", 7), ("CIRCUIT_6", 11))
MOCKS_THOROUGH = (("CIRCUIT_1", 9), ("CIRCUIT_2", 7), ("CIRCUIT_3", 8), ("CIRCUIT_4", 12), ("CIRCUIT_6", 11), ("CIRCUIT_13", 9))


def ladder(seed, i):
    """random RC ladder R0-(R1 C1)-...-(Rk Ck) with 0.05 % noise; f_max <= 1e4 Hz like the mock spectra"""
    rng = np.random.default_rng([seed, 77, i])
    log_max = float(rng.choice([2.0, 3.0, 4.0]))
    decades = int(rng.choice([4, 5]))
    f = np.logspace(log_max, log_max - decades, decades * 8 + 1)
    k = int(rng.integers(2, 6))
    w = 2 * np.pi * f
    Z = np.full(f.shape, 10 ** rng.uniform(0, 2), dtype=complex)
    desc = [f"R0={Z[0].real:.4g}"]
    for _ in range(k):
        R = 10 ** rng.uniform(0, 3)
        tau = 10 ** rng.uniform(-np.log10(w.max()), -np.log10(w.min()))
        Z = Z + R / (1 + 1j * w * tau)
        desc.append(f"(R={R:.4g},tau={tau:.4g})")
    noise = 5e-4 * np.abs(Z)
    Z = Z + noise * rng.standard_normal(f.size) + 1j * noise * rng.standard_normal(f.size)
    return f"ladder{i}", f, Z, 2 * decades + 1, f"np.random.default_rng([{seed}, 77, {i}]) ladder " + "".join(desc)


def datasets(seed, thorough):
    import pyimpspec
    out = []
    for ident, n in (MOCKS_THOROUGH if thorough else MOCKS_QUICK):
        d = pyimpspec.generate_mock_data(ident, noise=5e-2, seed=seed + 42)[0]
        out.append((ident, d.get_frequencies().copy(), d.get_impedances().copy(), n,
                    f"pyimpspec.generate_mock_data({ident!r}, noise=5e-2, seed={seed + 42})[0]"))
    for i in range(4 if thorough else 2):
        out.append(ladder(seed, i))
    return out


def unit_spectra():
    """seed-independent spectra far from the ohm range (the property is about units): two high-impedance 'coating' spectra (parallel 1e9 ohm,
    (RC) elements of 1e7..1e9 ohm with pF..nF) and a milli-ohm cell; 0.05 % noise from a fixed generator"""
    out = []
    rng = np.random.default_rng(20260929)

    def noisy(Z):
        s = 5e-4 * np.abs(Z)
        return Z + s * rng.standard_normal(Z.size) + 1j * s * rng.standard_normal(Z.size)
    f = np.logspace(4, -2, 49)
    w = 2 * np.pi * f
    for name, R0, Rp, rcs in (("coating1", 1e5, 1e9, ((1e7, 1e-11), (1e8, 1e-10), (1e9, 1e-9))),
                              ("coating2", 3e4, 1e9, ((3e7, 5e-12), (5e8, 2e-11), (8e8, 3e-9), (2e7, 1e-9)))):
        Zs = R0 + sum(R / (1 + 1j * w * R * C) for R, C in rcs)
        Z = 1 / (1 / Zs + 1 / Rp)
        out.append((name, f, noisy(Z), 13, f"{name}: [{R0:g} ohm + " + " + ".join(f"({R:g} ohm || {C:g} F)" for R, C in rcs) + f"] || {Rp:g} ohm, 49 points 1e4..1e-2 Hz, 0.05 % noise (fixed)",
                    (True,), [("zscale", 1e-6), ("zscale", 1e-3), ("zscale", 1e3)]))
    f = np.logspace(3, -2, 41)
    w = 2 * np.pi * f
    rcs = ((2e-3, 10.0), (5e-3, 100.0), (1e-3, 0.5))
    Z = 1e-3 + sum(R / (1 + 1j * w * R * C) for R, C in rcs)
    out.append(("milliohm-cell", f, noisy(Z), 11, "milliohm-cell: 1e-3 ohm + " + " + ".join(f"({R:g} ohm || {C:g} F)" for R, C in rcs) + ", 41 points 1e3..1e-2 Hz, 0.05 % noise (fixed)",
                (False, True), [("zscale", 1e3), ("zscale", 1e6)]))
    return out


def transforms(thorough):
    zs = (1e-6, 1e-3, 1e3, 1e6) if thorough else (1e-3, 1e3)
    fs = (1e-6, 1e-3, 1e3, 1e4, 1e6) if thorough else (1e-3, 1e3)
    return [("zscale", c) for c in zs] + [("fscale", c) for c in fs] + [("reversed", 1.0)]


def contributions(result, f, adm):
    """per element: its impedance (series model) or admittance (parallel model) over f; an element the library reports as open
    (InfiniteImpedance, e.g. the parallel resistance when its fitted conductance is exactly 0) has infinite impedance / zero admittance"""
    from pyimpspec.exceptions import InfiniteImpedance
    rows = []
    for e in result.circuit.get_elements(recursive=True):
        try:
            Ze = np.asarray(e.get_impedances(f), dtype=complex)
        except InfiniteImpedance:
            Ze = np.full(len(f), complex(np.inf, 0.0))
        with np.errstate(all="ignore"):
            rows.append(1 / Ze if adm else Ze)
    return np.array(rows)


def observe(call, ff, ZZ, adm):
    """ALL library calls of one run (the test itself and reading its result); raises whatever the library raises"""
    r = call(ff, ZZ)
    if adm is None:
        adm = bool(r.admittance)
    return {"admittance": bool(r.admittance), "residuals": np.asarray(r.residuals), "pseudo_chisqr": float(r.pseudo_chisqr), "frequencies": np.asarray(r.frequencies),
            "time_constants": np.asarray(r.time_constants), "contributions": contributions(r, r.frequencies, adm)}


def arr(x):
    return "np.array([" + ", ".join(repr(complex(v)) if np.iscomplexobj(x) else repr(float(v)) for v in x) + "])"


def repro_src(f, Z, kind, c, kw, observable):
    return f'''import sys
import numpy as np, pyimpspec
from pyimpspec.exceptions import InfiniteImpedance
f = {arr(f)}
Z = {arr(Z)}
kw = dict({", ".join(f"{k}={v!r}" for k, v in kw.items())}, num_F_ext_evaluations=0, num_procs=1)
adm = kw["admittance"]
def contributions(r, ff):
    rows = []
    for e in r.circuit.get_elements(recursive=True):
        try:
            Ze = np.asarray(e.get_impedances(ff), dtype=complex)
        except InfiniteImpedance:
            Ze = np.full(len(ff), complex(np.inf, 0.0))
        with np.errstate(all="ignore"):
            rows.append(1 / Ze if adm else Ze)
    return np.array(rows)
def run(ff, ZZ):
    r = pyimpspec.perform_kramers_kronig_test(pyimpspec.DataSet(ff, ZZ), **kw)
    global adm
    if adm is None:
        adm = bool(r.admittance)      # admittance=None: the library picks the representation; the pick of the reference run is the reference
    return r, np.asarray(r.residuals), float(r.pseudo_chisqr), np.asarray(r.time_constants), contributions(r, r.frequencies)
try:
    base, rb, chib, taub, cb = run(f, Z)
except Exception as ex:
    print("the reference run itself raises", type(ex).__name__, ex, "- nothing to compare")
    sys.exit(0)
f2, Z2 = {{"zscale": (f, {c!r} * Z), "fscale": ({c!r} * f, Z), "reversed": (f[::-1], Z[::-1])}}[{kind!r}]
other, ro, chio, tauo, co = run(f2, Z2)      # an exception here reproduces the violation: the reference run completed
assert bool(other.admittance) == bool(base.admittance), f"representation picked: admittance={{base.admittance}} for the original, {{other.admittance}} for the transformed spectrum"
d = ro - rb
dres = max(np.abs(d.real).max(), np.abs(d.imag).max())
dchi = abs(np.log10(chio) - np.log10(chib))
exp = cb * (({c!r} ** (-1 if adm else 1)) if {kind!r} == "zscale" else 1.0)
with np.errstate(all="ignore"):
    dpar = (np.where(np.isinf(co) & (co == exp), 0.0, np.abs(co - exp)) / np.abs(exp.sum(axis=0))).max()
dtau = np.abs(tauo * ({c!r} if {kind!r} == "fscale" else 1.0) / taub - 1).max()
print("delta residual", dres, " delta log10 chi2", dchi, " parameter contributions", dpar, " time constants", dtau)
assert dres <= {TOL_RES!r} and dchi <= {TOL_CHI!r} and dpar <= {TOL_PAR!r} and dtau <= {TOL_TAU!r}, {observable!r}
'''


def run_variant(arg):
    import pyimpspec
    name, f, Z, n, desc, test, adm, addC, addL, lf, tfs = arg
    kw = dict(test=test, num_RC=n, log_F_ext=lf, admittance=adm, add_capacitance=addC, add_inductance=addL)
    cols = {(False, False): "no-C-no-L", (True, False): "C-column", (False, True): "L-column", (True, True): "C+L-columns"}[(addC, addL)]
    xy = "auto" if adm is None else ("Y" if adm else "Z")
    cfg = f"{desc}; test={test!r}, admittance={adm}, add_capacitance={addC}, add_inductance={addL}, num_RC={n}, log_F_ext={lf}"
    recs = []

    def call(ff, ZZ):
        return pyimpspec.perform_kramers_kronig_test(pyimpspec.DataSet(ff, ZZ), num_F_ext_evaluations=0, num_procs=1, **kw)
    try:
        base = observe(call, f, Z, adm)
    except Exception as ex:  # noqa  -- the reference run itself fails: not this property's subject (C18); nothing to compare
        return [{"key": (name, test, adm, addC, addL, lf, "reference"), "nontrivial": False, "fails": [], "m": None,
                 "note": f"reference run raised {type(ex).__name__}: {str(ex)[:120]}"}]
    cb = base["contributions"]
    nontrivial = bool(np.abs(base["residuals"]).max() > 1e-9)
    if adm is None:
        # the library picks the representation: only spectra where the two candidates are clearly apart are asserted (a near tie
        # may legitimately go either way within rounding)
        try:
            chis = [float(pyimpspec.perform_kramers_kronig_test(pyimpspec.DataSet(f, Z), num_F_ext_evaluations=0, num_procs=1, **dict(kw, admittance=x)).pseudo_chisqr) for x in (False, True)]
        except Exception:  # noqa
            chis = [1.0, 1.0]
        if abs(np.log10(chis[0]) - np.log10(chis[1])) < 1e-2:
            return [{"key": (name, test, adm, addC, addL, lf, "near-tie"), "nontrivial": False, "fails": [], "m": None, "note": f"pseudo chi-squared of Z and Y within 2 %: {chis}"}]
        adm = base["admittance"]
    for kind, c in tfs:
        rec = {"key": (name, test, adm, addC, addL, lf, kind, c), "nontrivial": nontrivial, "fails": [], "m": None, "kind": kind, "c": c,
               "variant": (test, xy, cols)}
        label = f"{kind}={CNAME[c]}"
        f2, Z2 = {"zscale": (f, c * Z), "fscale": (c * f, Z), "reversed": (f[::-1].copy(), Z[::-1].copy())}[kind]
        how = {"zscale": f"impedances multiplied by {c:g}", "fscale": f"frequencies multiplied by {c:g}", "reversed": "points supplied in the opposite order"}[kind]
        fn = "matrix_inversion._test_wrapper" if test.endswith("-inv") else "least_squares._test_wrapper"
        try:
            other = observe(call, f2, Z2, adm)
        except Exception as ex:  # noqa  -- the verdict depends on the units: the reference run completed, this one raises
            rec["fails"].append((f"{label}:{cols}:{test}:{xy}:raises {type(ex).__name__}", "perform_kramers_kronig_test",
                                 f"{cfg}: with {how} the test (or reading its result) raised {type(ex).__name__}: {str(ex)[:300]}, while the untransformed spectrum ran to completion",
                                 repro_src(f, Z, kind, c, kw, f"raises {type(ex).__name__}")))
            recs.append(rec)
            continue
        if other["admittance"] != base["admittance"]:
            rec["fails"].append((f"{label}:{cols}:{test}:{xy}:representation", "perform_kramers_kronig_test",
                                 f"{cfg}: with {how} the test reports the {'admittance' if other['admittance'] else 'impedance'} representation (pseudo_chisqr {other['pseudo_chisqr']:.4e}) "
                                 f"while the untransformed spectrum is reported on the {'admittance' if base['admittance'] else 'impedance'} representation (pseudo_chisqr {base['pseudo_chisqr']:.4e})",
                                 repro_src(f, Z, kind, c, kw, "representation")))
            recs.append(rec)
            continue
        with np.errstate(all="ignore"):
            d = other["residuals"] - base["residuals"] if other["residuals"].shape == base["residuals"].shape else None
            dres = float(max(np.abs(d.real).max(), np.abs(d.imag).max())) if d is not None else float("inf")
            dchi = float(abs(np.log10(other["pseudo_chisqr"]) - np.log10(base["pseudo_chisqr"])))
            co = other["contributions"]
            exp = cb * ((c ** (-1 if adm else 1)) if kind == "zscale" else 1.0)
            dpar = float((np.where(np.isinf(co) & (co == exp), 0.0, np.abs(co - exp)) / np.abs(exp.sum(axis=0))).max()) if co.shape == exp.shape else float("inf")
            tb, to = base["time_constants"], other["time_constants"]
            dtau = float(np.abs(to * (c if kind == "fscale" else 1.0) / tb - 1).max()) if tb.shape == to.shape else float("inf")
        rec["m"] = (dres, dchi, dpar, dtau)
        bad = None
        if not dres <= TOL_RES:
            bad = ("residuals", f"relative residuals change by {dres:.3e} (allowed {TOL_RES:g}); pseudo_chisqr {base['pseudo_chisqr']:.4e} -> {other['pseudo_chisqr']:.4e}")
        elif not dchi <= TOL_CHI:
            bad = ("pseudo_chisqr", f"log10 pseudo_chisqr changes by {dchi:.3e} (allowed {TOL_CHI:g}): {base['pseudo_chisqr']:.6e} -> {other['pseudo_chisqr']:.6e}")
        elif not dpar <= TOL_PAR:
            bad = ("parameters", f"fitted R/C/L do not rescale: an element's immittance changes by {dpar:.3e} of the total (allowed {TOL_PAR:g})")
        elif not dtau <= TOL_TAU:
            bad = ("time-constants", f"time constants do not scale with 1/c: relative deviation {dtau:.3e}")
        if bad is not None:
            key = f"{label}:{cols}:{test}:{xy}:{bad[0]}"
            rec["fails"].append((key, fn, f"{cfg}: with {how}, {bad[1]}", repro_src(f, Z, kind, c, kw, bad[0])))
        recs.append(rec)
    return recs


def main(a):
    import pyimpspec
    thorough = a.tier != "quick"
    data = datasets(a.seed, thorough)
    tfs = transforms(thorough)
    lfs = (0.0, 0.5) if thorough else (0.0,)
    args = []
    for (name, f, Z, n, desc) in data:
        for test in LINEAR_TESTS:
            for adm in (False, True):
                for addC in (False, True):
                    for addL in ((True,) if test.endswith("-inv") else (False, True)):
                        for lf in lfs:
                            args.append((name, f, Z, n, desc, test, adm, addC, addL, lf, tfs))
    # admittance=None with a fixed number of RC elements: the library tests both representations and reports one of them
    for (name, f, Z, n, desc) in data:
        for test in (("complex", "real-inv") if not thorough else LINEAR_TESTS):
            args.append((name, f, Z, n, desc, test, None, True, True, 0.0, tfs))
    units = unit_spectra()      # both tiers, seed-independent: no C/L columns (the -inv tests cannot run without the inductance column)
    for (name, uf, uZ, n, desc, adms, utfs) in units:
        for test in LINEAR_TESTS:
            for adm in adms:
                args.append((name, uf, uZ, n, desc, test, adm, False, test.endswith("-inv"), 0.0, utfs))
    probe = ("; plus fixed unit probes without C/L columns: " + ", ".join(f"{u[0]} ({'Y' if u[5] == (True,) else 'Z,Y'}) x Z x {[c for _, c in u[6]]}" for u in units))
    if not thorough:
        # seed-independent probe of the open known finding (lstsq/pinv rank truncation at f x 1e4 with C and L columns): same contract,
        # tolerances and keys as the thorough tier, so that the quick tier exercises ^fscale=(1e4|1e6|1e-6):(C-column|L-column|C\+L-columns): too
        d = pyimpspec.generate_mock_data("CIRCUIT_1", noise=5e-2, seed=42)[0]
        pf, pZ = d.get_frequencies().copy(), d.get_impedances().copy()
        for test in ("complex", "imaginary"):
            for adm in (False, True):
                args.append(("CIRCUIT_1-probe", pf, pZ, 9, "pyimpspec.generate_mock_data('CIRCUIT_1', noise=5e-2, seed=42)[0] (fixed known-finding probe)",
                             test, adm, True, True, 0.0, [("fscale", 1e4)]))
        probe += "; plus a fixed probe: CIRCUIT_1 (seed 42) x {complex, imaginary} x {Z,Y} x C+L columns x frequencies x 1e4"
    res = Result("C09", f"{len(data)} spectra ({', '.join(d[0] for d in data)}; f_max <= 1e4 Hz, 0.05 % noise) x 6 linear tests x {{Z,Y}} x add_capacitance x add_inductance "
                        f"x fixed num_RC (~2/decade) x log_F_ext in {list(lfs)} x transformations {[(k, c) for k, c in tfs]}{probe}",
                 "full cross product; each case compares the run on the transformed spectrum with the run on the original one (two-run relation); "
                 "distinct = distinct (spectrum, options, transformation); non-trivial = the original fit has non-zero residuals")
    worst, notes = {}, []
    for recs in pmap(run_variant, args, chunksize=2):
        for rec in recs:
            if rec.get("note"):
                notes.append(str(rec["key"]) + ": " + rec["note"])
            sample = None
            if rec["m"] is not None:
                sample = {"case": str(rec["key"]), "d_residual": rec["m"][0], "d_log10_chisqr": rec["m"][1], "d_parameters": rec["m"][2], "d_tau": rec["m"][3]}
            res.case(rec["key"], nontrivial=rec["nontrivial"], sample=sample)
            for fl in rec["fails"]:
                res.fail(*fl)
            if rec["m"] is None:
                continue
            test, xy, cols = rec["variant"]
            for k in ((f"{rec['kind']}x{rec['c']:g}", "all"), (f"{rec['kind']}x{rec['c']:g}", f"{test}:{xy}:{cols}")):
                w = worst.setdefault(k, [0.0, 0.0, 0.0, 0.0, 0])
                for i in range(4):
                    w[i] = max(w[i], rec["m"][i])
                w[4] += 1
    for (t, v), w in sorted(worst.items()):
        if v == "all" or w[0] > TOL_RES / 100 or w[1] > TOL_CHI / 100 or w[2] > TOL_PAR / 100:
            res.part(f"measured:{t}:{v}", n=w[4], max_d_residual=w[0], max_d_log10_chisqr=w[1], max_d_parameters=w[2], max_d_tau=w[3])
    if notes:
        res.part("reference-runs-that-raised", count=len(notes), cases=notes[:20])
    return res


if __name__ == "__main__":
    guarded(main)
