"""Operation alphabet and observers of the C15 bounded check (registry and class defaults).  The source text of this
module is embedded verbatim into the reproducers of bounded/c15.py so that they are self-contained."""
import numpy as np
import pyimpspec
from pyimpspec import Element, ElementDefinition, ParameterDefinition, Resistor, get_elements, parse_cdc, register_element
from pyimpspec.circuit.registry import remove_elements, reset, reset_default_parameter_values

inf = float("inf")


class UserA(Element):
    def _impedance(self, f, R, X):
        return R + X * 1j * f


class UserB(Element):
    def _impedance(self, f, G):
        return 1 / G + 0j * f


class UserInconsistent(Element):
    def _impedance(self, f, R):
        return 2 * R + 0j * f           # contradicts the declared equation "R"


class UserDuplicate(Element):
    def _impedance(self, f, R):
        return R + 0j * f


def _p(symbol, value, lower=0.0, upper=inf):
    return ParameterDefinition(symbol=symbol, unit="ohm", description="parameter " + symbol, value=value, lower_limit=lower, upper_limit=upper, fixed=False)


def definition(which, symbol=None):
    if which == "A":
        return ElementDefinition(Class=UserA, symbol=symbol or "Rx", name="User element A", description="A user-defined element.", equation="R + X*I*f", parameters=[_p("R", 5.0), _p("X", -5.0, -10.0, 10.0)])
    if which == "B":
        return ElementDefinition(Class=UserB, symbol=symbol or "U", name="User element B", description="Another user-defined element.", equation="1/G", parameters=[_p("G", 0.25, 1e-12)])
    if which == "inconsistent":
        return ElementDefinition(Class=UserInconsistent, symbol="Ux", name="Inconsistent element", description="_impedance returns twice the equation.", equation="R", parameters=[_p("R", 3.0)])
    if which == "duplicate":
        return ElementDefinition(Class=UserDuplicate, symbol="R", name="Shadow resistor", description="Tries to take the symbol of the built-in resistor.", equation="R", parameters=[_p("R", 7.0)])
    if which == "builtin":
        return ElementDefinition(Class=Resistor, symbol=symbol or "Zz", name="Renamed resistor", description="The built-in resistor class under another symbol.", equation="R", parameters=[_p("R", 77.0)])
    raise KeyError(which)


OPS = {
    "register(A)": lambda: register_element(definition("A")),
    "register(A,private=True)": lambda: register_element(definition("A"), private=True),
    "register(B)": lambda: register_element(definition("B")),
    "register(B,private=True)": lambda: register_element(definition("B"), private=True),
    "register(inconsistent)": lambda: register_element(definition("inconsistent")),
    "register(inconsistent,private=True)": lambda: register_element(definition("inconsistent"), private=True),
    "register(duplicate-of-R)": lambda: register_element(definition("duplicate")),
    "register(duplicate-of-R,private=True)": lambda: register_element(definition("duplicate"), private=True),
    "register(A,symbol='RX')": lambda: register_element(definition("A", "RX")),
    "register(A,symbol='1r')": lambda: register_element(definition("A", "1r")),
    "register(A,symbol='')": lambda: register_element(definition("A", " ")),
    "register(A,symbol='rx')": lambda: register_element(definition("A", "rx")),
    "register(Resistor-as-Zz)": lambda: register_element(definition("builtin")),
    "register(Resistor-as-Zz,private=True)": lambda: register_element(definition("builtin"), private=True),
    "remove(A)": lambda: remove_elements(UserA),
    "remove(B)": lambda: remove_elements(UserB),
    "remove([A,B])": lambda: remove_elements([UserA, UserB]),
    "remove(Resistor)": lambda: remove_elements(Resistor),
    "remove([A,Resistor])": lambda: remove_elements([UserA, Resistor]),
    "reset()": lambda: reset(),
    "reset(default_parameters=False)": lambda: reset(elements=True, default_parameters=False),
    "reset(elements=False)": lambda: reset(elements=False, default_parameters=True),
    "reset(elements=False,default_parameters=False)": lambda: reset(elements=False, default_parameters=False),
    "Resistor.set_default_values(R=123)": lambda: Resistor.set_default_values(R=123.0),
    "reset_default_parameter_values()": lambda: reset_default_parameter_values(),
    "reset_default_parameter_values(Resistor)": lambda: reset_default_parameter_values(Resistor),
}

PROBES = ("R", "L", "La", "Ls", "RLaLs", "Rx", "U", "RxR", "URx", "Ux", "Zz", "RX")
FLAGS = ((False, False), (False, True), (True, False), (True, True))


def run(names):
    """apply the operations; exceptions of refused operations are swallowed (their type is returned)"""
    outcomes = []
    for name in names:
        try:
            OPS[name]()
            outcomes.append(None)
        except Exception as ex:
            outcomes.append(type(ex).__name__)
    return outcomes


def probe(text):
    """('ok', [(class name, class symbol, values)], serialisation, impedances) or ('rejected', exception type)"""
    try:
        c = parse_cdc(text)
    except Exception as ex:
        return ("rejected", type(ex).__name__)
    try:
        elements = c.get_elements()
        return ("ok", [(type(e).__name__, type(e).get_symbol(), tuple(e.get_values().items())) for e in elements], c.serialize(),
                [complex(z) for z in c.get_impedances(np.array([1.0, 1e3]))])
    except Exception as ex:  # a parsed circuit that cannot be listed / serialised / simulated is an observation, not a harness failure
        return ("parsed-but-unusable", type(ex).__name__, str(ex)[:120])


def listings():
    return {flags: [(k, v.__name__) for k, v in get_elements(default_only=flags[0], private=flags[1]).items()] for flags in FLAGS}


def builtin_state():
    out = {}
    for symbol, cls in get_elements(default_only=True, private=True).items():
        out[symbol] = (cls.__name__, cls.get_symbol(), cls._name, cls._equation, tuple(cls.get_default_values().items()), tuple(cls.get_default_lower_limits().items()),
                       tuple(cls.get_default_upper_limits().items()), tuple(cls.are_fixed_by_default().items()), tuple(sorted(cls._valid_kwargs_keys)), cls.get_description())
    return out


def observe():
    """everything a user can see of the registry: listings, built-in classes, parsing of the probe strings"""
    return {"listings": listings(), "builtins": builtin_state(), "probes": {p: probe(p) for p in PROBES}}


def internal():
    """the module-level registry state (class names instead of classes)"""
    import pyimpspec.circuit.registry as registry
    return ({k: v.__name__ for k, v in registry._ELEMENTS.items()}, {k: v.__name__ for k, v in registry._DEFAULT_ELEMENTS.items()},
            {k: v.__name__ for k, v in registry._PRIVATE_ELEMENTS.items()}, {k: dict(v) for k, v in registry._DEFAULT_ELEMENT_PARAMETERS.items()})
