"""C19 bounded layer (Layer R): run the command-line interface in-process (pyimpspec.cli.main with patched argv, Agg backend) and compare
every number it prints or writes with the corresponding API call: parse (files and mock specifiers x output formats x filters),
circuit --simulate, fit and drt reports.  The per-case evaluation lives in bounded/c19_lib.py (embedded verbatim in the repro scripts).
BOUNDED - never counted as proved."""
import concurrent.futures
import inspect
import itertools
import math
import multiprocessing as mp
import sys

sys.path.insert(0, __file__.rsplit("/bounded/", 1)[0])
from bounded.common import Result, guarded  # noqa: E402
from bounded import c06, c19_lib  # noqa: E402

FORMATS = ["csv", "json", "md", "markdown", "tex", "latex"]
FUNCTION = {"parse": "cli.parse.command", "circuit": "cli.circuit.simulate_spectra", "fit": "cli.fit.command", "drt": "cli.drt.individual_plots"}


# ---------------------------------------------------------------------------------------------------------------------
# inputs
def mock_input(ident, kind, **kwargs):
    spec = ident + (":" + ",".join(f"{k}={v!r}" if isinstance(v, float) else f"{k}={v}" for k, v in kwargs.items()) if kwargs else "")
    return {"mock": f"<{spec}>", "id": ident, "kwargs": kwargs, "kind": kind}


def table_input(name, rng, kind, layout, points, sweeps, **conv):
    c = dict({"layout": layout, "alias_f": "f", "alias_a": "z'" if layout == "cartesian" else "|z|", "alias_b": "z''" if layout == "cartesian" else "phase",
              "case": "title", "marker_a": "", "marker_b": "-", "suffix": "", "sep": ",", "decimal": ".", "numfmt": "r", "order": "desc", "columns": 0,
              "sweeps": sweeps, "points": points, "ext": ".csv", "grid": "random"}, **conv)
    spectra = c06.gen_spectrum(rng, points, sweeps, c["order"], "random")
    return {"file": name + c["ext"], "text": c06.table_text(c, spectra), "kind": kind}, [sorted((f for f, _ in s), reverse=True) for s in spectra]


def instrument_input(name, rng, kind, layout, points, sweeps):
    c = {"layout": layout, "points": points, "sweeps": sweeps, "order": "desc", "decimal": ".", "numfmt": "e", "grid": "random", "ext": c06.INSTRUMENTS[layout][0]}
    spectra = c06.gen_spectrum(rng, points, sweeps, "desc", "random")
    extra = None
    n = sweeps
    if layout == "dta-driftcor":
        extra = [[(f, z * 1.01) for f, z in spectra[0]]]
        n = 2
    return {"file": name + c["ext"], "text": c06.instrument_text(c, spectra, extra), "kind": kind}, [sorted((f for f, _ in spectra[0]), reverse=True)] * n


def mock_frequencies(inp):
    import pyimpspec
    return [sorted((float(f) for f in d.get_frequencies(masked=None)), reverse=True) for d in pyimpspec.generate_mock_data(inp["id"], **inp["kwargs"])]


def parse_inputs(rng):
    """name -> (list of inputs, frequencies of every resulting data set, True when all data sets share one frequency grid)"""
    out = {}
    t1, f1 = table_input("single", rng, "table-1-sweep", "cartesian", 6, 1)
    t2, f2 = table_input("polar", rng, "table-polar-1-sweep", "polar", 5, 1, sep=";", decimal=",", order="asc", suffix="(u)", case="upper", marker_b="", numfmt="e", ext=".txt")
    t3, f3 = table_input("sweeps", rng, "table-3-sweeps", "cartesian", 4, 3, sep="\t", alias_f="freq", alias_a="real", alias_b="imaginary", marker_b="")
    i1, g1 = instrument_input("biologic", rng, "mpt-2-sweeps", "mpt", 4, 2)
    i2, g2 = instrument_input("gamry", rng, "dta-driftcor", "dta-driftcor", 4, 1)
    out["table-1-sweep"] = ([t1], f1, True)
    out["table-polar-1-sweep"] = ([t2], f2, True)
    out["table-3-sweeps"] = ([t3], f3, True)
    out["mpt-2-sweeps"] = ([i1], g1, True)
    out["dta-driftcor"] = ([i2], g2, True)
    mocks = {
        "mock": mock_input("CIRCUIT_1", "mock", num_per_decade=2),
        "mock-noise": mock_input("CIRCUIT_2", "mock-noise", noise=0.5, seed=7, num_per_decade=3),
        "mock-all-keys": mock_input("CIRCUIT_4_INVALID", "mock-all-keys", noise=0.25, num_per_decade=2, log_max_f=3.0, log_min_f=-1.0, seed=11, drift=2.0),
        "mock-wildcard": mock_input("CIRCUIT_7*", "mock-wildcard", num_per_decade=1),
        "mock-seed-zero": mock_input("CIRCUIT_1", "mock-seed-zero", noise=5.0, seed=0, num_per_decade=2),
        "mock-cdc": mock_input("R{R=10}(R{R=20}C{C=1e-4:cdl})", "mock-cdc", log_max_f=3.0, log_min_f=0.0, num_per_decade=2),
    }
    for name, m in mocks.items():
        out[name] = ([m], mock_frequencies(m), True)
    out["table+mock"] = ([t1, mocks["mock"]], f1 + mock_frequencies(mocks["mock"]), False)
    out["mock+mock-noise"] = ([mocks["mock"], mocks["mock-noise"]], mock_frequencies(mocks["mock"]) + mock_frequencies(mocks["mock-noise"]), False)
    return out


def filter_variants(freqs, shared_grid, has_file):
    f = freqs[0]
    n = len(f)
    lp, hp = math.sqrt(f[0] * f[1]), math.sqrt(f[-1] * f[-2])
    v = {
        "none": {},
        "low-pass": {"low_pass": lp},
        "low-pass-at-a-frequency": {"low_pass": f[1]},
        "high-pass": {"high_pass": hp},
        "high-pass-at-a-frequency": {"high_pass": f[-2]},
        "low+high-pass": {"low_pass": lp, "high_pass": hp},
        "exclude": {"exclude": [0, 2]},
        "exclude-out-of-range": {"exclude": [n - 1, n + 3]},
        "low+high-pass+exclude": {"low_pass": lp, "high_pass": hp, "exclude": [2]},
        "everything-masked": {"low_pass": f[-1] / 10},
    }
    if len(freqs) > 1 and has_file:
        v["nth"] = {"nth": [1]}
        v["nth+exclude"] = {"nth": [0, len(freqs) - 1], "exclude": [1]}
    if len(freqs) > 1 and shared_grid:
        v["average"] = {"average": True}
        v["average+low-pass"] = {"average": True, "low_pass": lp}
    return v


def parse_cases(rng):
    cases = []
    for name, (inputs, freqs, shared) in parse_inputs(rng).items():
        has_file = any("file" in i for i in inputs)
        for fname, filt in filter_variants(freqs, shared, has_file).items():
            for fmt in FORMATS:
                for indices, digits, to_file in itertools.product((False, True), (None, 3, 10), (False, True)):
                    cases.append(dict({"cmd": "parse", "inputs": inputs, "format": fmt, "indices": indices, "digits": digits, "to_file": to_file,
                                       "label": f"parse {name} [{fname}]"}, **filt))
    return cases


def circuit_cases(tier):
    cdc_sets = [["R{R=10}C{C=1e-3}"], ["R(RC)(RW)"], ["R{R=5}(R{R=10}Q{Y=1e-4,n=0.8})", "RL"], ["<CIRCUIT_1>"], ["Tlm"], ["<CIRCUIT_15>", "R{R=1:a}La"]]
    ranges = [(1.0, 100.0), (1e-2, 1e5), (10.0, 1e4)]
    cases = []
    for k, (cdcs, (lo, hi), npd, fmt) in enumerate(itertools.product(cdc_sets, ranges, (1, 3, 10), ("csv", "json", "md", "tex"))):
        cases.append({"cmd": "circuit", "cdcs": cdcs, "min_f": lo, "max_f": hi, "num_per_decade": npd, "format": fmt, "indices": bool(k % 2),
                      "label": f"circuit --simulate {' '.join(cdcs)}"})
    limits = [{"cmd": "circuit", "cdcs": cdcs, "limits": True, "format": "csv", "label": f"circuit --simulate (limits) {' '.join(cdcs)}"}
              for cdcs in (["R{R=10}C{C=1e-3}"], ["R", "RL", "(RC)"], ["R{R=3}(R{R=7}C)"], ["(R{R=50}L)", "W"], ["R{R=2:a}(Q{n=0.8:b}R{R=7})"])]
    if tier == "quick":
        cases = cases[::9]
    return cases + limits


def fit_cases(tier, rng):
    import numpy as np
    import pyimpspec
    rc = mock_input("R{R=100}(R{R=200}C{C=0.8e-6})", "mock-cdc", log_max_f=5.0, log_min_f=1.0, num_per_decade=3)
    rq = mock_input("CIRCUIT_2", "mock", num_per_decade=3)
    # a two-sweep file of noise-free RC data
    f = np.logspace(4, 1, 10)
    spectra = [list(zip(f.tolist(), [complex(z) for z in pyimpspec.parse_cdc(cdc).get_impedances(f)])) for cdc in ("R{R=50}(R{R=100}C{C=1e-5})", "R{R=60}(R{R=90}C{C=2e-5})")]
    c = {"layout": "cartesian", "alias_f": "f", "alias_a": "z'", "alias_b": "z''", "case": "upper", "marker_a": "", "marker_b": "-", "suffix": "", "sep": ",", "decimal": ".",
         "numfmt": "r", "order": "desc", "columns": 0, "sweeps": 2, "points": 10, "ext": ".csv", "grid": "random"}
    two = {"file": "two.csv", "text": c06.table_text(c, spectra), "kind": "table-2-sweeps"}
    cases = []
    base = [("R{R=90}(R{R=180}C{C=1e-6})", [rc]), ("R{R=100}(R{R=400}Q{Y=1e-4,n=0.9})", [rq]), ("R{R=40}(R{R=80}C{C=3e-5})", [two])]
    methods = ["least_squares", "leastsq", "powell"] if tier == "quick" else ["least_squares", "leastsq", "powell", "lbfgsb", "nelder"]
    weights = ["modulus", "proportional", "unity", "boukamp"]
    k = 0
    for (cdc, inputs), method, weight in itertools.product(base, methods, weights):
        k += 1
        if tier == "quick" and k % 3 != 1:
            continue
        cases.append({"cmd": "fit", "cdc": cdc, "inputs": inputs, "method": method, "weight": weight, "format": ["csv", "md", "json", "tex"][k % 4],
                      "indices": k % 5 == 0, "to_file": k % 7 == 0 and len(inputs) == 1 and "file" in inputs[0], "label": f"fit {cdc} {method}/{weight}"})
    extras = [dict(refinements=1, running=True), dict(max_nfev=30), dict(low_pass=5e3, exclude=[1]), dict(nth=[1], high_pass=20.0), dict(digits=3, format="md"),
              dict(running=True, format="md", indices=True)]
    for e in (extras if tier != "quick" else extras[:4]):
        for cdc, inputs in (base[:1] + base[2:]):
            if "nth" in e and "file" not in inputs[0]:
                continue
            cases.append(dict({"cmd": "fit", "cdc": cdc, "inputs": inputs, "method": "least_squares", "weight": "boukamp", "format": "csv",
                               "label": f"fit {cdc} least_squares/boukamp {sorted(e)}"}, **e))
    return cases


def drt_cases(tier):
    d1 = mock_input("CIRCUIT_1", "mock", num_per_decade=5)
    d5 = mock_input("CIRCUIT_5", "mock", num_per_decade=4)
    settings = [
        {"method": "tr-nnls", "lambda_value": 1e-3},
        {"method": "tr-nnls", "mode": "real", "lambda_value": 1e-2},
        {"method": "tr-nnls", "mode": "imaginary", "lambda_value": -1.0},
        {"method": "tr-nnls", "mode": "complex", "lambda_value": -1.0, "cross_validation": "gcv"},
        {"method": "lm", "model_order": 3},
        {"method": "lm", "model_order": 0, "model_order_method": "pseudo_chisqr"},
        {"method": "tr-rbf", "lambda_value": 1e-3, "rbf_type": "cauchy", "derivative_order": 2, "rbf_shape": "factor", "shape_coeff": 0.75, "inductance": True},
    ]
    if tier != "quick":
        settings += [{"method": "mrq-fit", "circuit": "R(RC)(RC)", "gaussian_width": 0.2, "num_per_decade": 20},
                     {"method": "tr-nnls", "mode": "real", "lambda_value": 1e-4}, {"method": "lm", "model_order": 5}]
    cases = []
    for k, (s, inp) in enumerate(itertools.product(settings, (d1, d5))):
        if s["method"] == "mrq-fit" and inp is d5:
            continue
        for fmt, thr in ((("csv", 0.1), ("md", None)) if tier == "quick" else (("csv", 0.1), ("md", None), ("json", 0.5), ("tex", 0.0))):
            cases.append({"cmd": "drt", "inputs": [inp], "settings": s, "threshold": thr, "format": fmt, "indices": bool(k % 2) and fmt != "json",
                          "label": f"drt {inp['mock']} {s}"})
    cases.append({"cmd": "drt", "inputs": [d1], "settings": settings[0], "threshold": 0.2, "format": "csv", "low_pass": 3e3, "exclude": [0, 1], "to_file": True,
                  "label": "drt with filters, written to files"})
    return cases


# ---------------------------------------------------------------------------------------------------------------------
NEUTRAL = [("format", "csv"), ("indices", False), ("digits", None), ("to_file", False), ("low_pass", None), ("high_pass", None), ("exclude", None), ("nth", None),
           ("average", False), ("refinements", None), ("running", False), ("max_nfev", None), ("threshold", None), ("num_per_decade", 1)]
VALUE_IN_KEY = ("format",)


def attempt(case):
    """None when the command line agrees with the API, else (kind, text).  Other exceptions are errors of this harness."""
    try:
        argv, refused = c19_lib.evaluate_case(case)
        return None, argv, refused
    except c19_lib.Mismatch as m:
        return (m.kind, m.what), None, False
    except SystemExit as ex:
        raise RuntimeError(f"argparse rejected the generated command line of {case.get('label')}: {ex}")


def minimise(case, kind):
    """put one dimension after the other to its neutral value while the same kind of mismatch persists; what cannot be neutralised names the failure"""
    cur, relevant = dict(case), []
    for dim, neutral in NEUTRAL:
        if dim not in cur or cur[dim] == neutral or (dim == "num_per_decade" and cur["cmd"] != "circuit"):
            continue
        trial = dict(cur)
        trial[dim] = neutral
        bad = attempt(trial)[0]
        if bad is not None and bad[0] == kind:
            cur = trial
        else:
            relevant.append(dim)
    for field in ("inputs", "cdcs"):
        if field in cur and len(cur[field]) > 1:
            for single in cur[field]:
                trial = dict(cur)
                trial[field] = [single]
                bad = attempt(trial)[0]
                if bad is not None and bad[0] == kind:
                    cur = trial
                    break
    if cur["cmd"] == "drt":
        for k in list(cur["settings"]):
            if k != "method":
                trial = dict(cur, settings={a: b for a, b in cur["settings"].items() if a != k})
                bad = attempt(trial)[0]
                if bad is not None and bad[0] == kind:
                    cur = trial
    return cur, relevant


def failure_key(case, relevant, kind):
    parts = [case["cmd"]]
    if case["cmd"] == "circuit" and case.get("limits"):
        parts.append("limits")
    if "inputs" in case:
        parts.append("inputs=" + "+".join(i["kind"] for i in case["inputs"]))
    if case["cmd"] == "fit":
        parts.append(f"{case['method']}/{case['weight']}")
    if case["cmd"] == "drt":
        parts.append("+".join(f"{k}={v}" if k in ("method", "mode") else k for k, v in case["settings"].items()))
    for dim in relevant:
        parts.append(f"{dim}={case[dim]}" if dim in VALUE_IN_KEY else dim)
    return ":".join(parts + [kind])


def repro_source(case):
    slim = {k: v for k, v in case.items() if k != "label"}
    return (inspect.getsource(c19_lib) + f"\n\ncase = {slim!r}\ntry:\n    evaluate_case(case)\nexcept Mismatch as m:\n    raise SystemExit('CLI != API: ' + str(m))\n")


def run_case(args):
    index, case = args
    bad, argv, refused = attempt(case)
    if bad is None:
        return index, None, refused, " ".join(str(a) for a in argv)
    small, relevant = minimise(case, bad[0])
    bad2 = attempt(small)[0]
    if bad2 is None or bad2[0] != bad[0]:
        small, bad2 = case, bad
    key = failure_key(small, relevant, bad2[0])
    what = f"{small.get('label', small['cmd'])}, options {{{', '.join(f'{k}={small[k]!r}' for k in sorted(small) if k not in ('inputs', 'label', 'cmd', 'cdcs', 'settings') and small[k] not in (None, False, [], 0))}}}: {bad2[1]}"
    return index, (key, FUNCTION[case["cmd"]], what, repro_source(small)), False, ""


def main(a):
    import numpy as np
    import pyimpspec  # noqa
    rng = np.random.default_rng(a.seed)
    parse_all = parse_cases(rng)
    order = rng.permutation(len(parse_all))
    n_parse = 1600 if a.tier == "quick" else len(parse_all)
    parse_sel = [parse_all[i] for i in sorted(order[:n_parse])]
    circuits, fits, drts = circuit_cases(a.tier), fit_cases(a.tier, rng), drt_cases(a.tier)
    cases = fits + drts + circuits + parse_sel          # the slow ones first
    res = Result("C19", f"{len(parse_sel)} of {len(parse_all)} `parse` invocations ({{12 inputs: generated tables (cartesian/polar, 1 and 3 sweeps), .mpt with 2 sweeps, drift corrected .dta, "
                 "mock specifiers with every keyword, a wildcard, a CDC with a label, two inputs at once}} x {up to 14 filter settings: low-/high-pass between and exactly at a "
                 "frequency, exclusion (also out of range), combinations, nth data set, average, everything masked} x {csv, json, md, markdown, tex, latex} x "
                 f"{{indices}} x {{3 digit settings}} x {{stdout, files}}); {len(circuits)} `circuit --simulate` runs (6 code lists x 3 ranges x {{1, 3, 10}} per decade x 4 formats, "
                 f"and f->0/inf limits); {len(fits)} `fit` reports (3 circuit/data pairs x methods x weights x formats, refinements, max-nfev, running count, filters); "
                 f"{len(drts)} `drt` reports (tr-nnls, lm, tr-rbf{'' if a.tier == 'quick' else ', mrq-fit'} settings x 2 spectra x formats x peak threshold)",
                 "every invocation runs pyimpspec.cli.main() in-process with patched argv (Agg backend, user configuration ignored) and is compared cell by cell, to the precision "
                 "printed, with tables computed through the API (parse_data/generate_mock_data + low_pass/high_pass/set_mask/average, simulate_spectrum(parse_cdc), "
                 "fit_circuit/calculate_drt with the same settings -> to_*_dataframe); a refusal by both sides counts as agreement (trivial); distinct = distinct invocations; "
                 "quick tier: seeded random subset of the parse product")
    refusals, refused_labels = 0, []
    # ProcessPoolExecutor workers are not daemonic: some analyses (lm with model_order_method="pseudo_chisqr") start a pool of their own
    with concurrent.futures.ProcessPoolExecutor(max_workers=16, mp_context=mp.get_context("fork")) as pool:
        for index, failure, refused, argv in pool.map(run_case, list(enumerate(cases)), chunksize=1):
            c = cases[index]
            refusals += bool(refused)
            res.case((c["cmd"], index), nontrivial=not refused, sample={"invocation": argv[:300]})
            if refused:
                refused_labels.append(c["label"])
            if failure is not None:
                res.fail(*failure)
    res.part("invocations", parse=len(parse_sel), circuit=len(circuits), fit=len(fits), drt=len(drts), refused_by_both_sides=refusals, refused=sorted(set(refused_labels))[:20])
    res.failures.sort(key=lambda f: f["key"])
    return res


if __name__ == "__main__":
    guarded(main)
