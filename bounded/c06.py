"""C06 bounded layer (Layer R): write real files in every documented convention (delimited text tables, the simple instrument
layouts, the table printed by the CLI `parse` command), parse them with pyimpspec.parse_data and compare with what was written.
BOUNDED - never counted as proved."""
import ast
import cmath
import contextlib
import inspect
import io
import itertools
import math
import multiprocessing as mp
import os
import shutil
import sys
import tempfile
import textwrap

sys.path.insert(0, __file__.rsplit("/bounded/", 1)[0])
from bounded.common import Result, guarded  # noqa: E402

RTOL = 1e-9
FALLBACK_ALIASES = {
    "frequency": ["frequency", "freq", "f"],
    "imaginary": ['z"', "z''", "z im", "z_im", "zim", "imaginary", "imag", "im"],
    "real": ["z'", "z re", "z_re", "zre", "real", "re"],
    "magnitude": ["|z|", "z", "magnitude", "modulus", "mag", "mod"],
    "phase": ["phase", "phz", "phi"],
}
SEP_NAME = {",": "comma", "\t": "tab", ";": "semicolon", " ": "space"}
UNIT = {"frequency": "Hz", "real": "ohm", "imaginary": "ohm", "magnitude": "ohm", "phase": "deg"}
MINUS = "−"


def alias_table():
    """the alias table is a local of _detect_columns: read it from the source of the tree under test"""
    from pyimpspec.data import data_set
    try:
        tree = ast.parse(textwrap.dedent(inspect.getsource(data_set._detect_columns)))
        for node in ast.walk(tree):
            if isinstance(node, ast.Dict):
                try:
                    d = ast.literal_eval(node)
                except Exception:  # noqa
                    continue
                if isinstance(d, dict) and set(d) == set(FALLBACK_ALIASES) and all(isinstance(v, list) and v for v in d.values()):
                    return {k: list(v) for k, v in d.items()}, "source"
    except (OSError, SyntaxError):
        pass
    return {k: list(v) for k, v in FALLBACK_ALIASES.items()}, "fallback"


# ---------------------------------------------------------------------------------------------------------------------
# delimited text tables
def table_dims(aliases, layout):
    a_role, b_role = ("real", "imaginary") if layout == "cartesian" else ("magnitude", "phase")
    return [
        ("alias_f", aliases["frequency"]),
        ("alias_a", aliases[a_role]),
        ("alias_b", aliases[b_role]),
        ("case", ["lower", "upper", "title"]),
        ("marker_a", ["", "-"] if layout == "cartesian" else [""]),
        ("marker_b", ["", "-", MINUS]),
        ("suffix", ["", "(u)", "/u", " (u)"]),
        ("sep", [",", "\t", ";", " "]),
        ("decimal", [".", ","]),
        ("numfmt", ["e", "r", "g"]),
        ("order", ["desc", "asc"]),
        ("sweeps", [1, 2, 3]),
        ("points", [1, 2, 3, 4]),
        ("ext", [".csv", ".txt"]),
        ("columns", [0, 1, 2]),
        ("grid", ["random", "whole"]),
    ]


def repair(c):
    """enforce the generator obligations of the property; returns the (possibly changed) case"""
    c = dict(c)
    header_space = c["suffix"].startswith(" ") or any(" " in c[k] for k in ("alias_f", "alias_a", "alias_b"))
    if header_space and c["sep"] in (" ", ";"):
        c["sep"] = [",", "\t"][(len(c["alias_a"]) + len(c["alias_b"]) + c["points"]) % 2]   # header text never contains the separator
    if c["sep"] == "," and c["decimal"] == ",":
        c["decimal"] = "."                                                                  # decimal comma only with non-comma separators
    if c["points"] == 1:
        c["sweeps"] = 1                                                                     # a sweep boundary is a reversal of monotonicity
    return c


def decode(dims, index):
    c = {}
    for name, values in dims:
        index, k = divmod(index, len(values))
        c[name] = values[k]
    return c


def table_cases(aliases, n_strided, rng):
    cases, seen = [], set()

    def add(c):
        c = repair(c)
        key = tuple(sorted(c.items()))
        if key not in seen:
            seen.add(key)
            cases.append(c)
            return c
        return None

    for layout, share in (("cartesian", 0.6), ("polar", 0.4)):
        dims = table_dims(aliases, layout)
        total = math.prod(len(v) for _, v in dims)
        count = int(n_strided * share)
        stride = max(1, total // count) | 1
        while any(stride % len(v) == 0 for _, v in dims if len(v) > 1):
            stride += 2
        start = int(rng.integers(0, total))
        for k in range(count):
            c = decode(dims, (start + k * stride) % total)
            c["layout"] = layout
            add(c)
        # pairwise completion: every valid pair of values of two dimensions occurs in at least one case
        covered = set()
        for c in cases:
            if c["layout"] == layout:
                items = [(n, c[n]) for n, _ in dims]
                covered.update(itertools.combinations(items, 2))
        for (n1, v1s), (n2, v2s) in itertools.combinations(dims, 2):
            for v1 in v1s:
                for v2 in v2s:
                    if ((n1, v1), (n2, v2)) in covered:
                        continue
                    for _ in range(20):
                        c = {n: vs[int(rng.integers(0, len(vs)))] for n, vs in dims}
                        c.update({n1: v1, n2: v2, "layout": layout})
                        r = repair(c)
                        if r[n1] == v1 and r[n2] == v2:
                            got = add(r)
                            if got is not None:
                                items = [(n, got[n]) for n, _ in dims]
                                covered.update(itertools.combinations(items, 2))
                            break
    return cases


def gen_spectrum(rng, n, sweeps, order, grid, same=False):
    """list of sweeps, each a list of (f, Z) in file order; all sweeps cover the same frequencies in the same direction
    (same=True: the sweeps also repeat the same impedances -- a stable sample measured several times)"""
    import numpy as np
    if grid == "whole":
        e0 = int(rng.integers(0, 4))
        f = [10.0 ** (e0 + k) for k in range(n)]          # whole-number frequencies
    else:
        f = []
        while len(f) < n:
            x = float(10.0 ** rng.uniform(-3, 7))
            if all(abs(math.log10(x / y)) > 1e-3 for y in f):
                f.append(x)
    f = sorted(f, reverse=(order == "desc"))
    out = []
    for _ in range(sweeps):
        z = []
        for k in range(n):
            if grid == "whole" and k % 2 == 0:
                re = float(rng.choice([-1, 1])) * float(rng.integers(1, 1000))        # whole numbers (written without a decimal mark by %g) in every other row
                im = float(rng.choice([-1, 1])) * float(rng.integers(1, 1000))
            else:
                re = float(rng.choice([-1, 1])) * float(10.0 ** rng.uniform(-6, 6))
                im = float(rng.choice([-1, 1])) * float(10.0 ** rng.uniform(-6, 6))
            if grid == "whole" and n >= 3 and k == 1:
                # a point whose real or imaginary part is exactly zero (a resonance, an ideal capacitor): a measured point like any other
                re, im = (0.0, im) if (n + len(out)) % 2 == 0 else (re, 0.0)
            z.append(complex(re, im))
        out.append(list(zip(f, z)))
    if same:
        out = [list(out[0]) for _ in out]
    return out


def fmt_number(x, numfmt, decimal):
    s = {"e": "%.15e" % x, "r": repr(float(x)), "g": "%.16g" % x}[numfmt]
    return s.replace(".", decimal)


def cased(s, how):
    return {"lower": s.lower(), "upper": s.upper(), "title": s.title()}[how]


def table_text(c, sweeps):
    a_role, b_role = ("real", "imaginary") if c["layout"] == "cartesian" else ("magnitude", "phase")

    def header(role, alias, marker):
        suffix = c["suffix"].replace("u", UNIT[role])
        return marker + cased(alias, c["case"]) + suffix
    heads = [header("frequency", c["alias_f"], ""), header(a_role, c["alias_a"], c["marker_a"]), header(b_role, c["alias_b"], c["marker_b"])]
    rows = []
    for sweep in sweeps:
        for f, z in sweep:
            if c["layout"] == "cartesian":
                a, b = z.real, z.imag
            else:
                a, b = abs(z), math.degrees(cmath.phase(z))
            if c["marker_a"]:
                a = -a
            if c["marker_b"]:
                b = -b
            rows.append([fmt_number(v, c["numfmt"], c["decimal"]) for v in (f, a, b)])
    perm = [(0, 1, 2), (1, 2, 0), (2, 0, 1)][c["columns"]]
    lines = [c["sep"].join(heads[i] for i in perm)]
    lines += [c["sep"].join(r[i] for i in perm) for r in rows]
    return "\n".join(lines) + "\n"


# ---------------------------------------------------------------------------------------------------------------------
# instrument layouts: one emitter per parser, written from what the parser expects (and the sample files of the repository)
def emit_mpt(sweeps, num):
    # third column is -Im(Z)
    lines = ["EC-Lab ASCII FILE", "Nb header lines : 6", "", "Potentio Electrochemical Impedance Spectroscopy", "",
             "freq/Hz\tRe(Z)/Ohm\t-Im(Z)/Ohm\t|Z|/Ohm\tPhase(Z)/deg\ttime/s"]
    for sweep in sweeps:
        for f, z in sweep:
            lines.append("\t".join(num(v) for v in (f, z.real, -z.imag, abs(z), math.degrees(cmath.phase(z)), 0.0)))
    return "\n".join(lines) + "\n"


def emit_i2b(sweeps, num):
    # five non-empty metadata lines, then "f re im" separated by one space; third column is +Im(Z)
    (sweep,) = sweeps
    lines = ["Some metadata", "can be stored", "here in the first", "few lines", "", str(len(sweep))]
    lines += [" ".join(num(v) for v in (f, z.real, z.imag)) for f, z in sweep]
    return "\n".join(lines) + "\n"


def emit_p00(sweeps, num):
    # header line starting with f/Hz, the number of points, then six tab-separated columns; third column is -Z''
    (sweep,) = sweeps
    lines = ["Procedure : Some title", "DD.MM.YYYY HH:MM:SS - DD.MM.YYYY HH:MM:SS i(init)= 183.1nA - i(end)= 7.88nA", "Description", "t =  736.4 s",
             " f/Hz       \t Z'/Ohm     \t -Z''/Ohm   \t time/s    \t Edc/V     \t Idc/A     \t", f" {len(sweep)} "]
    for f, z in sweep:
        lines.append(" " + "\t ".join(num(v) for v in (f, z.real, -z.imag, 59.3, 0.30981, 1.8311e-07)) + "\t")
    return "\n".join(lines) + "\n"


def emit_dfr(sweeps, num):
    # VERSIONx.y, number of points, one more line, then nine lines per point: f, Z', -Z'', six more
    (sweep,) = sweeps
    lines = ["VERSION8.0", f" {len(sweep)}", " 1"]
    for f, z in sweep:
        lines += [" " + num(v) for v in (f, z.real, -z.imag)] + [" 0.0"] * 6
    return "\n".join(lines) + "\n"


def emit_dta(sweeps, num, drift=None):
    # ZCURVE table: Pt Time Freq Zreal Zimag Zsig Zmod Zphz [ZrealDrCor ZimagDrCor ZmodDrCor ZphzDrCor] Idc Vdc IERange; +Im(Z)
    (sweep,) = sweeps
    lines = ["EXPLAIN", "TAG\tEISPOT", "TITLE\tLABEL\tPotentiostatic EIS\tTest &Identifier", "\t", "PSTAT\tPSTAT\tREFxxx-yyyyy\tPotentiostat",
             f"DRIFTCOR\tSELECTOR\t{1 if drift else 0}\t&Drift Correction", "ZGUESS\tQUANT\t1,00000E+002\tE&stimated Z (ohms)",
             # (the instrument software writes the number of rows after TABLE; files exported by other tools leave it out: both occur here)
             "ZCURVE\tTABLE" + (f"\t{len(sweep)}" if len(sweep) % 2 == 0 else "")]
    if drift:
        lines.append("\tPt\tTime\tFreq\tZreal\tZimag\tZsig\tZmod\tZphz\tZrealDrCor\tZimagDrCor\tZmodDrCor\tZphzDrCor\tIdc\tVdc\tIERange")
        lines.append("\t#\ts\tHz\tohm\tohm\tV\tohm\t°\tohm\tohm\tohm\t°\tA\tV\t#")
    else:
        lines.append("\tPt\tTime\tFreq\tZreal\tZimag\tZsig\tZmod\tZphz\tIdc\tVdc\tIERange")
        lines.append("\t#\ts\tHz\tohm\tohm\tV\tohm\t°\tA\tV\t#")
    for i, (f, z) in enumerate(sweep):
        cells = [str(i), str(2 * i), num(f), num(z.real), num(z.imag), "1", num(abs(z)), num(math.degrees(cmath.phase(z)))]
        if drift:
            zc = drift[0][i][1]
            cells += [num(zc.real), num(zc.imag), num(abs(zc)), num(math.degrees(cmath.phase(zc)))]
        cells += [num(8.08e-08), num(-4.54e-05), "8"]
        lines.append("\t" + "\t".join(cells))
    return "\n".join(lines) + "\n"


def emit_z(sweeps, num):
    # header line containing Freq(Hz), "End Comments", tab-separated rows; Z''(b) is +Im(Z)
    (sweep,) = sweeps
    lines = ["ZPLOT2 ASCII", "  Measured Data, Software:    1.0.0", "  Freq(Hz)\tAmpl\tBias\tTime(Sec)\tZ'(a)\tZ''(b)\tGD\tErr\tRange", "End Comments"]
    for f, z in sweep:
        lines.append("\t".join([num(f), num(0.0), num(0.0), num(0.0), num(z.real), num(z.imag), num(0.0), "0", "0"]))
    return "\n".join(lines) + "\n"


INSTRUMENTS = {
    # name: (extension, emitter, max sweeps, decimal comma supported by the parser (helpers._parse_string_as_float), responsible function)
    "mpt": (".mpt", emit_mpt, 2, True, "parse_mpt"),
    "i2b": (".i2b", emit_i2b, 1, True, "parse_i2b"),
    "p00": (".P00", emit_p00, 1, True, "parse_p00"),
    "dfr": (".dfr", emit_dfr, 1, True, "parse_dfr"),
    "dta": (".dta", emit_dta, 1, True, "parse_dta"),
    "dta-driftcor": (".dta", emit_dta, 1, True, "parse_dta"),
    "z": (".z", emit_z, 1, False, "parse_z"),
}


def instrument_cases(reps):
    cases = []
    for name, (ext, _, max_sweeps, comma, _) in INSTRUMENTS.items():
        for points in (1, 2, 3, 4):
            for order in ("desc", "asc"):
                for sweeps in range(1, (max_sweeps if points > 1 else 1) + 1):    # one-point sweeps have no detectable boundary (a boundary is a reversal of monotonicity)
                    for decimal in ((".", ",") if comma else (".",)):
                        for numfmt in ("e", "r", "E"):
                            for rep in range(reps):
                                cases.append({"layout": name, "points": points, "order": order, "sweeps": sweeps, "decimal": decimal, "numfmt": numfmt,
                                              "grid": ["random", "whole"][rep % 2], "rep": rep, "ext": ext})
    return cases


def instrument_text(c, sweeps, extra):
    def num(x):
        s = {"e": "%.15e" % x, "E": "%.15E" % x, "r": repr(float(x))}[c["numfmt"]]
        return s.replace(".", c["decimal"])
    emit = INSTRUMENTS[c["layout"]][1]
    if c["layout"] == "dta-driftcor":
        return emit(sweeps, num, drift=extra)
    return emit(sweeps, num)


# ---------------------------------------------------------------------------------------------------------------------
def compare(parsed, expected, polar):
    """expected: list of sweeps [(f, Z)] in file order.  Returns (kind, text) or None"""
    if len(parsed) != len(expected):
        return "sweep-count", f"{len(parsed)} data sets for {len(expected)} sweeps"
    for k, (d, sweep) in enumerate(zip(parsed, expected)):
        want = sorted(sweep, key=lambda p: -p[0])       # a data set presents its points in descending order of frequency
        f = [float(x) for x in d.get_frequencies(masked=None)]
        z = [complex(x) for x in d.get_impedances(masked=None)]
        if len(f) != len(want):
            return "point-count", f"sweep {k + 1}: {len(f)} points parsed, {len(want)} written"
        for (fw, zw), fg, zg in zip(want, f, z):
            if not abs(fg - fw) <= RTOL * abs(fw):
                return "frequency", f"sweep {k + 1}: frequency {fg!r} parsed, {fw!r} written"
            def close(g):
                if polar:
                    return abs(g - zw) <= RTOL * abs(zw)
                return abs(g.real - zw.real) <= RTOL * abs(zw.real) and abs(g.imag - zw.imag) <= RTOL * abs(zw.imag)
            if not close(zg):
                at = f"sweep {k + 1} at {fw!r} Hz: Z = {zg!r} parsed, {zw!r} written"
                if close(zg.conjugate()):
                    return "sign-of-imaginary", at + " (imaginary part has the wrong sign)"
                if close(-zg.conjugate()):
                    return "sign-of-real", at + " (real part has the wrong sign)"
                if close(-zg):
                    return "sign-of-both", at + " (both parts have the wrong sign)"
                return "impedance", at
    return None


REPRO = '''import os, shutil, tempfile
import pyimpspec
text = {text!r}
expected = {expected!r}   # one list of (f, Re, Im) per sweep, in file order
polar = {polar!r}
tmp = tempfile.mkdtemp()
try:
    path = os.path.join(tmp, {name!r})
    with open(path, "w", encoding="utf-8") as fp:
        fp.write(text)
    parsed = pyimpspec.parse_data(path)
finally:
    shutil.rmtree(tmp)
assert len(parsed) == len(expected), (len(parsed), len(expected))
for d, sweep in zip(parsed, expected):
    want = sorted(sweep, key=lambda p: -p[0])
    f, Z = d.get_frequencies(masked=None), d.get_impedances(masked=None)
    assert len(f) == len(want), (len(f), len(want))
    for (fw, re, im), fg, zg in zip(want, f, Z):
        zw = complex(re, im)
        assert abs(fg - fw) <= 1e-9 * abs(fw), (fg, fw)
        if polar:
            assert abs(zg - zw) <= 1e-9 * abs(zw), (zg, zw)
        else:
            assert abs(zg.real - re) <= 1e-9 * abs(re) and abs(zg.imag - im) <= 1e-9 * abs(im), (zg, zw)
'''


def describe(c):
    if "alias_f" in c:
        return (f"{c['layout']} table{c['ext']}: headers {c['alias_f']!r}/{c['marker_a'] + c['alias_a']!r}/{c['marker_b'] + c['alias_b']!r} ({c['case']} case, suffix {c['suffix']!r}, "
                f"column order {c['columns']}), separator {SEP_NAME[c['sep']]}, decimal {c['decimal']!r}, numbers %{c['numfmt']}, {c['order']}ending rows, "
                f"{c['sweeps']} sweep(s) x {c['points']} point(s), {c['grid']}-number values")
    return (f"{c['layout']} file{c['ext']}: decimal {c['decimal']!r}, numbers %{c['numfmt']}, {c['order']}ending rows, {c['sweeps']} sweep(s) x {c['points']} point(s)")


NEUTRAL_TABLE = [("points", 2), ("sweeps", 1), ("decimal", "."), ("numfmt", "e"), ("grid", "random"), ("sep", (",", "\t")), ("case", "lower"), ("marker_a", ""),
                 ("marker_b", ""), ("suffix", ""), ("columns", 0), ("order", "desc"), ("ext", ".csv"), ("alias_f", "frequency"),
                 ("alias_a", {"cartesian": "real", "polar": "magnitude"}), ("alias_b", {"cartesian": "imaginary", "polar": "phase"})]
NEUTRAL_INSTRUMENT = [("points", 2), ("sweeps", 1), ("decimal", "."), ("numfmt", "e"), ("grid", "random"), ("order", "desc")]


def evaluate(c, seed, index, tmp):
    """write the file of case c, parse it, compare.  Returns (bad or None, responsible function, text, expected, polar, file name)"""
    import numpy as np
    import pyimpspec
    rng = np.random.default_rng([seed, index])
    sweeps = gen_spectrum(rng, c["points"], c["sweeps"], c["order"], c["grid"], same=(c["sweeps"] > 1 and c.get("rep", 0) % 3 == 2))
    expected = sweeps
    polar = c["layout"] == "polar"
    if "alias_f" in c:
        text = table_text(c, sweeps)
        fn = "parse_csv"
    else:
        extra = None
        if c["layout"] == "dta-driftcor":
            extra = gen_spectrum(rng, c["points"], 1, c["order"], "random")
            extra = [[(f, z) for (f, _), (_, z) in zip(sweeps[0], extra[0])]]
            expected = [extra[0], sweeps[0]]       # the drift corrected spectrum first, the uncorrected one second
        text = instrument_text(c, sweeps, extra)
        fn = INSTRUMENTS[c["layout"]][4]
    name = f"case{index}{c['ext']}"
    path = os.path.join(tmp, name)
    with open(path, "w", encoding="utf-8") as fp:
        fp.write(text)
    try:
        parsed = pyimpspec.parse_data(path)
    except Exception as ex:  # noqa - the property demands that every such file parses
        bad = (f"raises {type(ex).__name__}", f"parse_data raised {type(ex).__name__}: {str(ex)[:160]}")
        tb, inner = ex.__traceback__, None
        while tb is not None:
            if os.sep + "pyimpspec" + os.sep in tb.tb_frame.f_code.co_filename:
                inner = tb.tb_frame.f_code.co_name
            tb = tb.tb_next
        fn = inner or fn
    else:
        bad = compare(parsed, expected, polar)
    finally:
        os.remove(path)
    return bad, fn, text, expected, polar, name


def minimise(c, kind, seed, index, tmp):
    """delta debugging over the dimensions of the case: a dimension is RELEVANT when putting it to (each of) its neutral value(s) makes
    the failure (same kind) disappear.  The failure key is built from the relevant dimensions only, so one root cause gets one key."""
    table = "alias_f" in c
    cur, relevant = dict(c), []
    for dim, neutral in (NEUTRAL_TABLE if table else NEUTRAL_INSTRUMENT):
        if isinstance(neutral, dict):
            neutral = neutral[c["layout"]]
        candidates = neutral if isinstance(neutral, tuple) else (neutral,)
        if cur[dim] in candidates:
            continue
        for value in candidates:
            trial = dict(cur)
            trial[dim] = value
            if table and repair(trial) != trial:
                continue                   # not a case the generator obligations allow
            bad = evaluate(trial, seed, index, tmp)[0]
            if bad is not None and bad[0] == kind:
                cur = trial
                break
        else:
            relevant.append(dim)
    return cur, relevant


def key_of(c, relevant, kind):
    def show(dim):
        v = c[dim]
        if dim == "sep":
            v = SEP_NAME[v]
        elif dim == "decimal":
            v = "comma" if v == "," else "point"
        elif dim in ("marker_a", "marker_b"):
            v = {"-": "hyphen", MINUS: "U+2212"}.get(v, v)
        elif dim == "numfmt":
            v = "%" + v
        return f"{dim}={v}"
    prefix = f"table:{c['layout']}" if "alias_f" in c else c["layout"]
    if "alias_f" in c and not any(d in relevant for d in ("alias_a", "alias_b", "marker_a", "marker_b")):
        prefix = "table"
    return ":".join([prefix] + [show(d) for d in relevant] + [kind])


KNOWN = []


def run_cases(args):
    """worker: evaluate a chunk of cases; returns list of (index, failure or None)"""
    tmp, seed, chunk = args
    out, known = [], KNOWN        # KNOWN lives as long as the worker process
    for index, c in chunk:
        bad, fn, text, expected, polar, name = evaluate(c, seed, index, tmp)
        if bad is None:
            out.append((index, None))
            continue
        for kind, layout, rel, key in known:
            # same kind of failure with the same values of the relevant dimensions: same key, no new minimisation
            if kind == bad[0] and layout in (None, c["layout"]) and all(c[d] == v for d, v in rel.items()):
                break
        else:
            c, relevant = minimise(c, bad[0], seed, index, tmp)
            key = key_of(c, relevant, bad[0])
            generic = "alias_f" in c and not any(d in relevant for d in ("alias_a", "alias_b", "marker_a", "marker_b"))     # as in key_of
            known.append((bad[0], None if generic else c["layout"], {d: c[d] for d in relevant}, key))
            bad, fn, text, expected, polar, name = evaluate(c, seed, index, tmp)        # report the minimised file
        exp = [[(f, z.real, z.imag) for f, z in s] for s in expected]
        out.append((index, (key, fn, f"{describe(c)}: {bad[1]}; file content: {text[:300]!r}", REPRO.format(text=text, expected=exp, polar=polar, name=name))))
    return out


# ---------------------------------------------------------------------------------------------------------------------
def cli_parse_csv(argv):
    from pyimpspec.cli import main as cli_main
    import pyimpspec.cli.config as config
    config._IGNORE_USER_CONFIG = True
    buf = io.StringIO()
    old = sys.argv
    sys.argv = ["pyimpspec"] + argv
    try:
        with contextlib.redirect_stdout(buf):
            cli_main()
    finally:
        sys.argv = old
    return buf.getvalue()


CLI_REPRO = '''import contextlib, io, os, shutil, sys, tempfile
import pyimpspec
import pyimpspec.cli.config as config
from pyimpspec.cli import main
config._IGNORE_USER_CONFIG = True
tmp = tempfile.mkdtemp()
try:
    source = {source!r}
    if {text!r} is not None:
        source = os.path.join(tmp, {name!r})
        open(source, "w", encoding="utf-8").write({text!r})
        original = pyimpspec.parse_data(source)[0]
    else:
        original = pyimpspec.generate_mock_data(*{mock!r}[:1], **{mock!r}[1])[0]
    buf = io.StringIO()
    sys.argv = ["pyimpspec", "parse", source, "--output-format", "csv"] + {extra!r}
    with contextlib.redirect_stdout(buf):
        main()
    out = os.path.join(tmp, "printed.csv")
    open(out, "w").write(buf.getvalue())
    again = pyimpspec.parse_data(out)
finally:
    shutil.rmtree(tmp)
assert len(again) == 1
f0, Z0 = original.get_frequencies(), original.get_impedances()
f1, Z1 = again[0].get_frequencies(), again[0].get_impedances()
assert len(f0) == len(f1)
assert all(abs(a - b) <= 1e-9 * abs(a) for a, b in zip(f0, f1)), (f0, f1)
assert all(abs(a.real - b.real) <= 1e-9 * abs(a.real) and abs(a.imag - b.imag) <= 1e-9 * abs(a.imag) for a, b in zip(Z0, Z1)), (Z0, Z1)
'''


def run_cli_cases(args):
    """the table printed by `pyimpspec parse --output-format csv`, written to a file, parses back to the same spectrum"""
    tmp, seed, chunk = args
    import numpy as np
    import pyimpspec
    out = []
    for index, c in chunk:
        rng = np.random.default_rng([seed, 7, index])
        text = mock = None
        name = f"cli{index}{c.get('ext', '')}"
        try:
            if c["kind"] == "file":
                sweeps = gen_spectrum(rng, c["points"], 1, c["order"], c["grid"])
                text = table_text(c, sweeps)
                source = os.path.join(tmp, name)
                with open(source, "w", encoding="utf-8") as fp:
                    fp.write(text)
                original = pyimpspec.parse_data(source)[0]
            else:
                mock = (c["id"], c["kwargs"])
                source = "<" + c["id"] + (":" + ",".join(f"{k}={v}" for k, v in c["kwargs"].items()) if c["kwargs"] else "") + ">"
                original = pyimpspec.generate_mock_data(c["id"], **c["kwargs"])[0]
        except Exception:  # noqa - that side is the business of the table cases / of C19
            out.append((index, "skipped"))
            continue
        extra = ["--output-indices"] if c["indices"] else []
        bad = None
        try:
            printed = cli_parse_csv(["parse", source, "--output-format", "csv"] + extra)
            path = os.path.join(tmp, f"printed{index}.csv")
            with open(path, "w") as fp:
                fp.write(printed)
            again = pyimpspec.parse_data(path)
            os.remove(path)
        except Exception as ex:  # noqa
            bad = (f"raises {type(ex).__name__}", f"{type(ex).__name__}: {str(ex)[:160]}")
        else:
            expected = [list(zip([float(x) for x in original.get_frequencies()], [complex(x) for x in original.get_impedances()]))]
            bad = compare(again, expected, False)
        if bad is None:
            out.append((index, None))
        else:
            out.append((index, (f"cli-table:{c['kind']}{':indices' if c['indices'] else ''}:{bad[0]}", "format_text",
                                f"`pyimpspec parse {source} --output-format csv {' '.join(extra)}` written to a .csv file and parsed: {bad[1]}",
                                CLI_REPRO.format(source=source, text=text, name=name, mock=mock, extra=extra))))
    return out


def cli_cases(aliases, n_files, rng):
    cases = []
    tables = [c for c in table_cases(aliases, max(100, 2 * n_files), rng) if c["points"] >= 2][:n_files]
    for k, c in enumerate(tables):
        # the input side is the business of the table cases: use the plainest number format there; one sweep = one printed table
        c = dict(c, kind="file", sweeps=1, numfmt="e", grid="random", indices=bool(k % 2))
        cases.append(c)
    for k, (ident, kwargs) in enumerate([("CIRCUIT_1", {}), ("CIRCUIT_2", {"noise": 0.5, "seed": 3}), ("CIRCUIT_5", {"num_per_decade": 2}),
                                         ("CIRCUIT_8", {"log_max_f": 4.0, "log_min_f": -1.0, "num_per_decade": 3}), ("CIRCUIT_1_INVALID", {"num_per_decade": 2})]):
        cases.append({"kind": "mock", "id": ident, "kwargs": kwargs, "indices": bool(k % 2)})
    return cases


# ---------------------------------------------------------------------------------------------------------------------
def chunks(indexed, size):
    return [indexed[i:i + size] for i in range(0, len(indexed), size)]


def main(a):
    import numpy as np
    import pyimpspec  # noqa
    rng = np.random.default_rng(a.seed)
    aliases, alias_source = alias_table()
    if a.tier == "quick":
        n_strided, reps, n_cli = 4000, 2, 60
    else:
        n_strided, reps, n_cli = 150000, 30, 800
    tables = table_cases(aliases, n_strided, rng)
    instruments = instrument_cases(reps)
    clis = cli_cases(aliases, n_cli, rng)
    res = Result("C06", f"{len(tables)} delimited text files (.csv/.txt) sampled from {{every header alias of _detect_columns ({sum(map(len, aliases.values()))} aliases, read from {alias_source})}} x "
                 "{lower, UPPER, Title} x {no marker, '-', U+2212 on imaginary/phase; '-' on real} x {cartesian, polar in degrees} x {',', tab, ';', ' '} x "
                 "{decimal point, decimal comma} x {%.15e, repr, %.16g} x {ascending, descending} x {1..3 sweeps} x {1..4 points} x {unit suffix '', '(u)', '/u', ' (u)'} x "
                 f"{{3 column orders}} x {{random, whole-number values}}; {len(instruments)} instrument files (.mpt, .i2b, .P00, .dfr, .dta with and without drift correction, .z) of 2..4 points; "
                 f"{len(clis)} tables printed by the CLI parse command; values over 12 decades with both signs of Re and Im, relative tolerance 1e-9",
                 "strided walk through the mixed-radix index of the cross product (stride coprime to every radix) completed greedily until every valid PAIR of dimension values occurs; "
                 "generator obligations of the property enforced (header never contains the separator, decimal comma only with non-comma separators, sweeps share the frequency grid); "
                 "a case is one written file parsed by parse_data and compared point by point (one DataSet per sweep, in order); distinct = distinct case descriptions")
    tmp = tempfile.mkdtemp(prefix="c06-")
    try:
        all_cases = list(enumerate(tables + instruments))
        work = [(tmp, a.seed, ch) for ch in chunks(all_cases, 50)]
        with mp.get_context("fork").Pool(16) as pool:
            results = [r for part in pool.imap(run_cases, work) for r in part]
            cli_results = [r for part in pool.imap(run_cli_cases, [(tmp, a.seed, ch) for ch in chunks(list(enumerate(clis)), 8)]) for r in part]
    finally:
        shutil.rmtree(tmp, ignore_errors=True)
    lookup = dict(all_cases)
    counts = {}
    for index, failure in results:
        c = lookup[index]
        res.case(("file", tuple(sorted((k, str(v)) for k, v in c.items()))), nontrivial=True, sample={"case": describe(c)})
        if failure is not None:
            counts[failure[0]] = counts.get(failure[0], 0) + 1
            res.fail(*failure)
    skipped = 0
    for index, failure in cli_results:
        if failure == "skipped":
            skipped += 1
            continue
        c = clis[index]
        res.case(("cli", index), nontrivial=True, sample={"case": "cli parse -> csv -> parse_data: " + (describe(c) if c["kind"] == "file" else c["id"])})
        if failure is not None:
            counts[failure[0]] = counts.get(failure[0], 0) + 1
            res.fail(*failure)
    res.part("files", tables=len(tables), instruments=len(instruments), cli=len(clis) - skipped, cli_skipped_because_the_input_itself_fails=skipped,
             alias_table=alias_source, failing_cases_per_key=counts)
    return res


if __name__ == "__main__":
    guarded(main)
