"""C14 bounded layer (Layer R): every call sequence of length <= L over the element API on registered classes,
compared step by step with a dictionary reference model.  BOUNDED - never counted as proved."""
import copy as _copy
import itertools
import math
import multiprocessing as mp
import sys

sys.path.insert(0, __file__.rsplit("/bounded/", 1)[0])
from bounded.common import Result, guarded  # noqa: E402

INF = float("inf")


class Model:
    def __init__(self, cls):
        self.cls = cls
        self.dv, self.dl, self.du, self.df = (cls.get_default_values(), cls.get_default_lower_limits(), cls.get_default_upper_limits(), cls.are_fixed_by_default())
        self.v, self.lo, self.up, self.fx = dict(self.dv), dict(self.dl), dict(self.du), dict(self.df)
        self.label = ""

    def clone(self):
        m = Model.__new__(Model)
        m.__dict__.update({k: (dict(v) if isinstance(v, dict) else v) for k, v in self.__dict__.items()})
        return m

    def state(self):
        return (self.v, self.lo, self.up, self.fx, self.label)


def _prints_exactly(x):
    return math.isinf(x) or float("%.12E" % x) == x


def elem_state(e):
    return (e.get_values(), e.get_lower_limits(), e.get_upper_limits(), e.are_fixed(), e.get_label())


def same(a, b):
    for x, y in zip(a, b):
        if isinstance(x, dict):
            if x.keys() != y.keys():
                return False
            for k in x:
                if not (x[k] == y[k] or (isinstance(x[k], float) and math.isnan(x[k]) and math.isnan(y[k]))):
                    return False
        elif x != y:
            return False
    return True


def ops_for(cls, key, tier):
    dv, dl, du = cls.get_default_value(key), cls.get_default_lower_limit(key), cls.get_default_upper_limit(key)
    vals = sorted({-INF, -5.0, -1.0, 0.0, dv / 2 if dv else 0.5, dv, dv * 2 if dv else 1.0, 2e3, 3e3, INF} | ({dl, du} if tier == "thorough" else set()))
    ops = []
    for v in vals:
        ops.append(("set_values", "kw", key, v))
        ops.append(("set_lower_limits", "kw", key, v))
        ops.append(("set_upper_limits", "kw", key, v))
    ops.append(("set_lower_limits", "pos", key, 0.0))
    ops.append(("set_upper_limits", "pos", key, 2e3))
    ops.append(("set_values", "pos", key, dv))
    ops.append(("set_values", "kw", "no_such_key", 1.0))
    ops.append(("set_lower_limits", "odd", key, 1.0))
    ops.append(("set_upper_limits", "dup", key, 1.0))
    ops += [("set_fixed", "kw", key, True), ("set_fixed", "kw", key, False), ("set_fixed", "kw", "no_such_key", True)]
    ops += [("set_label", "", "", "abc"), ("set_label", "", "", " x1 "), ("set_label", "", "", "123"), ("set_label", "", "", ""), ("set_label", "", "", " 12 ")]
    ops += [("reset_parameter", "", key, None), ("reset_parameters", "", "", None)]
    keys = sorted(cls.get_default_values().keys())
    if len(keys) > 1:
        k2 = keys[1]
        d2 = cls.get_default_value(k2)
        ops += [("set_values", "kw", k2, d2 * 2 if d2 else 0.5), ("set_fixed", "kw", k2, not cls.is_fixed_by_default(k2)),
                ("reset_parameters", "mixed", (key, k2), None), ("reset_parameters", "pos", (key,), None), ("reset_parameters", "kwonly", (k2,), None)]
    ops += [("copy", "", "", None), ("deepcopy", "", "", None), ("roundtrip", "", "", None)]
    return ops


def apply_model(m: Model, op):
    """returns expected exception class name or None; mutates m"""
    name, form, key, v = op
    if name in ("set_values", "set_lower_limits", "set_upper_limits", "set_fixed"):
        if form == "odd":
            return "ValueError"
        if form == "dup":
            return "KeyError"
        if key not in m.v:
            return "KeyError"
        if name == "set_values":
            m.v[key] = float(v)
        elif name == "set_lower_limits":
            if v >= m.up[key]:
                return "ValueError"
            m.lo[key] = float(v)
            m.v[key] = max(m.v[key], float(v))
        elif name == "set_upper_limits":
            if v <= m.lo[key]:
                return "ValueError"
            m.up[key] = float(v)
            m.v[key] = min(m.v[key], float(v))
        else:
            m.fx[key] = v
        return None
    if name == "set_label":
        s = v.strip()
        if s != "" and s.isdigit():
            return "ValueError"
        m.label = s
        return None
    if name == "reset_parameter":
        m.v[key], m.lo[key], m.up[key], m.fx[key] = m.dv[key], m.dl[key], m.du[key], m.df[key]
        return None
    if name == "reset_parameters":
        if form in ("mixed", "pos", "kwonly"):
            for k in key:
                m.v[k], m.lo[k], m.up[k], m.fx[k] = m.dv[k], m.dl[k], m.du[k], m.df[k]
            return None
        m.v, m.lo, m.up, m.fx = dict(m.dv), dict(m.dl), dict(m.du), dict(m.df)
        return None
    return None


def apply_real(e, op):
    name, form, key, v = op
    if name in ("set_values", "set_lower_limits", "set_upper_limits", "set_fixed"):
        f = getattr(e, name)
        if form == "kw":
            return f(**{key: v})
        if form == "pos":
            return f(key, v)
        if form == "odd":
            return f(key, v, key)
        if form == "dup":
            return f(key, v, **{key: v})
    if name == "set_label":
        return e.set_label(v)
    if name == "reset_parameter":
        return e.reset_parameter(key)
    if name == "reset_parameters":
        if form == "mixed":
            return e.reset_parameters(key[0], **{key[1]: True})
        if form == "pos":
            return e.reset_parameters(*key)
        if form == "kwonly":
            return e.reset_parameters(**{k: None for k in key})
        return e.reset_parameters()
    if name == "copy":
        return _copy.copy(e)
    if name == "deepcopy":
        return _copy.deepcopy(e)
    if name == "roundtrip":
        # to_string + parse (the extended description code carries values, limits, fixed flags and the label)
        from pyimpspec import parse_cdc
        got = parse_cdc(e.to_string(12)).get_elements(recursive=True)
        if len(got) < 1 or type(got[0]) is not type(e):
            raise AssertionError(f"parsed {got!r}")
        return got[0]


def repro_src(cls, seq):
    lines = ["import copy, pyimpspec", f"from pyimpspec.circuit.registry import get_elements", f"e = get_elements(private=True)[{cls.get_symbol()!r}]()"]
    for op in seq:
        name, form, key, v = op
        val = "float('inf')" if v == INF else ("float('-inf')" if v == -INF else repr(v))
        if name in ("set_values", "set_lower_limits", "set_upper_limits", "set_fixed"):
            call = {"kw": f"e.{name}(**{{{key!r}: {val}}})", "pos": f"e.{name}({key!r}, {val})", "odd": f"e.{name}({key!r}, {val}, {key!r})", "dup": f"e.{name}({key!r}, {val}, **{{{key!r}: {val}}})"}[form]
        elif name == "set_label":
            call = f"e.set_label({v!r})"
        elif name == "reset_parameter":
            call = f"e.reset_parameter({key!r})"
        elif name == "reset_parameters":
            call = {"mixed": f"e.reset_parameters({key[0]!r}, **{{{key[1] if len(key) > 1 else key[0]!r}: True}})" if isinstance(key, tuple) else "", "pos": f"e.reset_parameters(*{key!r})", "kwonly": f"e.reset_parameters(**{{k: None for k in {key!r}}})"}.get(form, "e.reset_parameters()")
        elif name == "roundtrip":
            call = ("c = pyimpspec.parse_cdc(e.to_string(12)).get_elements(recursive=True)[0]; "
                    "assert (c.get_values(), c.get_lower_limits(), c.get_upper_limits(), c.are_fixed(), c.get_label()) == (e.get_values(), e.get_lower_limits(), e.get_upper_limits(), e.are_fixed(), e.get_label())")
        else:
            call = f"c = copy.{name}(e); assert (c.get_values(), c.get_lower_limits(), c.get_upper_limits(), c.are_fixed(), c.get_label()) == (e.get_values(), e.get_lower_limits(), e.get_upper_limits(), e.are_fixed(), e.get_label())"
        lines.append(call)
    return "\n".join(lines)


def run_class(args):
    sym, tier, L = args
    import pyimpspec  # noqa
    from pyimpspec.circuit.registry import get_elements
    cls = get_elements(private=True)[sym]
    key = sorted(cls.get_default_values().keys())[0]
    ops = ops_for(cls, key, tier)
    evals, distinct, fails, samples = 0, 0, [], []
    defaults0 = (cls.get_default_values(), cls.get_default_lower_limits(), cls.get_default_upper_limits(), cls.are_fixed_by_default())
    bystander = cls()
    by0 = elem_state(bystander)

    def rec(e, m, seq, depth):
        nonlocal evals, distinct
        if depth == L:
            return
        for op in ops:
            e2 = _copy_elem(e, m)
            if e2 is None:
                continue
            m2 = m.clone()
            exp = apply_model(m2, op)
            seq2 = seq + [op]
            got, res = None, None
            pre_in_limits = all(m.lo[k] <= m.v[k] <= m.up[k] for k in m.v)
            try:
                res = apply_real(e2, op)
            except Exception as ex:  # noqa
                got = type(ex).__name__
            evals += 1
            distinct += 1
            what = None
            if op[0] == "roundtrip" and not (pre_in_limits and all(math.isfinite(x) for x in m.v.values()) and all(_prints_exactly(x) for d_ in (m.v, m.lo, m.up) for x in d_.values())):
                continue            # infinite values are a recorded finding of C01/C04; numbers must survive 12 decimals
            if op[0] in ("copy", "deepcopy", "roundtrip"):
                if not pre_in_limits:
                    continue        # outside the property's quantifier
                if got is not None:
                    what = f"{op[0]} raised {got}"
                elif not same(elem_state(res), m.state()):
                    what = f"{op[0]} differs from original"
                else:
                    # independence
                    try:
                        k0 = key
                        res.set_fixed(**{k0: not m.fx[k0]})
                        res.set_label("zz")
                        if not same(elem_state(e2), m.state()):
                            what = f"{op[0]} not independent"
                    except Exception as ex:  # noqa
                        what = f"mutating the {op[0]} raised {type(ex).__name__}"
                if what:
                    fails.append((f"{op[0]}:{what}", "Parser.element" if op[0] == "roundtrip" else f"Element.__{op[0]}__", f"{sym}: {what} after {seq2}", repro_src(cls, seq2)))
                continue
            if got != exp:
                what = f"expected {exp or 'no exception'} got {got or 'no exception'}"
            elif not same(elem_state(e2), m2.state()):
                what = "state differs from reference model"
            if what:
                fails.append((f"{op[0]}:{what}", f"Element.{op[0]}", f"{sym}: {op} after {seq}: {what}; real={elem_state(e2)} model={m2.state()}", repro_src(cls, seq2) + f"\nassert (e.get_values(), e.get_lower_limits(), e.get_upper_limits(), e.are_fixed(), e.get_label()) == {m2.state()!r}"))
                continue
            if len(samples) < 2 and depth == L - 1:
                samples.append({"class": sym, "sequence": [str(o) for o in seq2], "state": str(m2.state())})
            if got is None or True:
                rec(e2, m2, seq2, depth + 1)

    def _copy_elem(e, m):
        # rebuild the element state without using the API under test for copying: replay on a fresh instance
        n = cls()
        n._parameter_value.update(m.v)
        n._parameter_lower_limit.update(m.lo)
        n._parameter_upper_limit.update(m.up)
        n._parameter_fixed.update(m.fx)
        n._label = m.label
        return n
    rec(cls(), Model(cls), [], 0)
    # other instances and the class defaults never change
    after = (cls.get_default_values(), cls.get_default_lower_limits(), cls.get_default_upper_limits(), cls.are_fixed_by_default())
    if after != defaults0:
        fails.append(("class-defaults-changed", "Element", f"{sym}: class defaults changed by instance operations", "raise SystemExit(1)"))
    if not same(elem_state(bystander), by0):
        fails.append(("bystander-changed", "Element", f"{sym}: another instance changed", "raise SystemExit(1)"))
    return sym, evals, distinct, fails[:40], samples


def label_contract_part(res, prop="C14"):
    """Element.set_label over EVERY string of length <= 4 over the alphabet {' ', '1', '7', 'a', '_', '\t'} (exhaustive, bounded):
    accepted iff the stripped label is not digits-only (and ASCII); stored stripped; a refused label leaves the old one."""
    import itertools
    from pyimpspec import Resistor
    alphabet = [" ", "1", "7", "a", "_", "\t"]
    n = 0
    for L in range(0, 5):
        for tup in itertools.product(alphabet, repeat=L):
            lab = "".join(tup)
            e = Resistor()
            e.set_label("keep")
            stripped = lab.strip()
            should_refuse = stripped != "" and stripped.isdigit()
            try:
                e.set_label(lab)
                got = None
            except ValueError:
                got = "ValueError"
            n += 1
            res.case(("label", lab), nontrivial=True)
            if should_refuse and (got is None or e.get_label() != "keep"):
                res.fail("set_label:digits-only-after-strip:accepted", "Element.set_label", f"set_label({lab!r}) was accepted and stored {e.get_label()!r}; a label that is only digits (after stripping) must be refused so that names like R_1 stay unambiguous",
                         f"from pyimpspec import Resistor\ne = Resistor()\ntry:\n    e.set_label({lab!r})\nexcept ValueError:\n    raise SystemExit(0)\nraise SystemExit('accepted: ' + repr(e.get_label()))")
            elif not should_refuse and (got is not None or e.get_label() != stripped):
                res.fail("set_label:valid-label:refused-or-not-stripped", "Element.set_label", f"set_label({lab!r}) -> {got or e.get_label()!r}, expected stored label {stripped!r}",
                         f"from pyimpspec import Resistor\ne = Resistor().set_label({lab!r})\nassert e.get_label() == {stripped!r}")
    res.part("set_label_contract", strings=n, alphabet=alphabet, max_length=4)


def container_ownership_part(res):
    """every container class: two instances made with default sub-circuits (and the class defaults) share no connection or element
    object; changing an element inside one instance's default sub-circuit changes neither the other instance nor the class default"""
    from pyimpspec.circuit.base import Container
    from pyimpspec.circuit.registry import get_elements
    n = 0
    for sym, cls in sorted(get_elements(private=True).items()):
        if not (isinstance(cls, type) and issubclass(cls, Container)):
            continue
        a, b = cls(), cls()
        for key, dflt in cls.get_default_subcircuits().items():
            n += 1
            res.case(("ownership", sym, key), nontrivial=dflt is not None)
            sa, sb = a.get_subcircuits()[key], b.get_subcircuits()[key]
            if dflt is None:
                continue
            repro = (f"from pyimpspec.circuit.registry import get_elements\ncls = get_elements(private=True)[{sym!r}]\na, b = cls(), cls()\n"
                     f"sa, sb, d = a.get_subcircuits()[{key!r}], b.get_subcircuits()[{key!r}], cls.get_default_subcircuits()[{key!r}]\n"
                     f"assert sa is not sb and sa is not d and sb is not d, 'default sub-circuit object shared'\n"
                     f"ids = lambda c: {{id(e) for e in c.get_elements(recursive=True)}}\nassert not (ids(sa) & ids(sb)) and not (ids(sa) & ids(d)), 'elements shared'")
            if sa is sb or sa is dflt or sb is dflt:
                res.fail(f"container-ownership:{sym}:{key}:shared-connection", "Container.__init__", f"{sym}(): the default sub-circuit {key} is the same object in two instances / in the class default", repro)
                continue
            ids = lambda c: {id(e) for e in c.get_elements(recursive=True)}     # noqa: E731
            if ids(sa) & ids(sb) or ids(sa) & ids(dflt):
                res.fail(f"container-ownership:{sym}:{key}:shared-elements", "Container.__init__", f"{sym}(): elements of the default sub-circuit {key} are shared between instances / with the class default", repro)
    res.part("container_ownership", pairs=n)


CIRCUIT_COPY_SRC = '''import copy
from pyimpspec import Circuit, Series, Parallel
from pyimpspec.circuit.base import Connection, Container
from pyimpspec.circuit.registry import get_elements
E = get_elements(private=True)
INF = float("inf")


def build(which):
    r = E["R"](R=0.1 + 0.2).set_label("a")                                   # a value that needs 17 significant digits
    c = E["C"](C=1e-6 / 3).set_fixed(C=True)
    q = E["Q"](Y=2.0 ** -20, n=0.7).set_lower_limits(Y=-INF).set_upper_limits(n=INF)
    w = E["W"](Y=1 / 7)
    if which == "flat":
        return Circuit(Series([r, c]))
    if which == "nested":
        return Circuit(Series([r, Parallel([c, Series([q, w])])]))
    t = E["Tlm"](X_1=Series([E["R"](R=2 / 3).set_label("ion")]), Zeta=Series([Parallel([E["R"](R=1 / 9), E["C"](C=1e-5 / 7)])]))
    return Circuit(Series([r, Parallel([c, t])]))


def sig(x):
    """structure + the complete state of every element, compared exactly"""
    if isinstance(x, Circuit):
        return ("Circuit", sig(x._elements))
    if isinstance(x, Connection):
        return (type(x).__name__, tuple(sig(i) for i in x._elements))
    st = (type(x).__name__, tuple(sorted(x.get_values().items())), tuple(sorted(x.get_lower_limits().items())), tuple(sorted(x.get_upper_limits().items())),
          tuple(sorted(x.are_fixed().items())), x.get_label())
    if isinstance(x, Container):
        st += (tuple((k, None if v is None else sig(v)) for k, v in sorted(x.get_subcircuits().items())),)
    return st


def objects(x, out):
    out.append(x)
    if isinstance(x, Circuit):
        objects(x._elements, out)
    elif isinstance(x, Connection):
        for i in x._elements:
            objects(i, out)
    elif isinstance(x, Container):
        for v in x.get_subcircuits().values():
            if v is not None:
                objects(v, out)
    return out
'''


def circuit_copy_part(res):
    """copy.copy / copy.deepcopy of whole circuits, of their connections and of container elements: the copy has the same
    structure and every element in it has EXACTLY the state of the original (values incl. ones that need 17 digits, infinite limits,
    fixed flags, labels), shares no element or connection object with it, and the original is left as it was"""
    env = {}
    exec(CIRCUIT_COPY_SRC, env)
    n = 0
    for which in ("flat", "nested", "container"):
        for how in ("copy", "deepcopy"):
            circuit = env["build"](which)
            targets = [("circuit", circuit), ("top-level connection", circuit._elements)] + [(f"{type(o).__name__} inside", o) for o in env["objects"](circuit, [])[2:] if not isinstance(o, (env["Circuit"],)) and (isinstance(o, (env["Connection"], env["Container"])))]
            for name, obj in targets:
                n += 1
                res.case(("circuit-copy", which, how, name), nontrivial=True)
                before = env["sig"](obj)
                repro = CIRCUIT_COPY_SRC + f"\ncircuit = build({which!r})\nobj = [o for o in objects(circuit, []) if type(o).__name__ == {type(obj).__name__!r}][0]\nbefore = sig(obj)\nc = copy.{how}(obj)\nassert sig(c) == before, (sig(c), before)\nassert sig(obj) == before\nassert not ({{id(o) for o in objects(c, [])}} & {{id(o) for o in objects(obj, [])}})\n"
                try:
                    c = getattr(_copy, how)(obj)
                except Exception as ex:  # noqa
                    res.fail(f"circuit-copy:{how}:{which}:{name}:raises {type(ex).__name__}", f"{type(obj).__name__}.__{how}__", f"copy.{how} of the {name} of the {which} circuit raised {type(ex).__name__}: {str(ex)[:200]}", repro)
                    continue
                after = env["sig"](c)
                if after != before:
                    res.fail(f"circuit-copy:{how}:{which}:{name}:state-differs", f"{type(obj).__name__}.__{how}__", f"copy.{how} of the {name} of the {which} circuit differs from the original: {after} vs {before}", repro)
                elif env["sig"](obj) != before:
                    res.fail(f"circuit-copy:{how}:{which}:{name}:original-changed", f"{type(obj).__name__}.__{how}__", f"copy.{how} changed the original", repro)
                elif {id(o) for o in env["objects"](c, [])} & {id(o) for o in env["objects"](obj, [])}:
                    res.fail(f"circuit-copy:{how}:{which}:{name}:shared-objects", f"{type(obj).__name__}.__{how}__", f"the {how} of the {name} shares element / connection objects with the original", repro)
    res.part("circuit_copies", cases=n)


def main(a):
    import pyimpspec  # noqa
    from pyimpspec.circuit.registry import get_elements
    syms = sorted(get_elements(private=True).keys())
    if a.tier == "quick":
        L, chosen = 3, [s for s in ("R", "C", "Q", "Ls", "Tlm", "Ky", "W", "Zarc") if s in syms]
    else:
        L, chosen = 3, syms
    res = Result("C14", f"all call sequences of length <= {L} over a {len(ops_for(get_elements(private=True)['R'], 'R', a.tier))}-operation alphabet (one key per class) on {len(chosen)} classes",
                 "depth-first enumeration of operation sequences; every step compared with a dict reference model; distinct = distinct (class, sequence) pairs")
    with mp.get_context("fork").Pool(min(16, len(chosen))) as pool:
        for sym, evals, distinct, fails, samples in pool.imap_unordered(run_class, [(s, a.tier, L) for s in chosen]):
            res.evaluations += evals
            res.distinct.update((sym, i) for i in range(distinct))
            res.samples += samples[:1]
            for key, fn, what, repro in fails:
                res.fail(key, fn, what, repro)
    label_contract_part(res)
    container_ownership_part(res)
    circuit_copy_part(res)
    return res


if __name__ == "__main__":
    guarded(main)
