"""C11 bounded layer (Layer R): Z-HIT reconstructs the modulus from the phase.  Constant-phase spectra (R, C, L, Q, W) x
every smoothing x interpolation x {Z, Y} x num_points/polynomial_order x weights x grids must be reconstructed to 1e-3;
RC/RQ ladders to 5 %; scaling law; zero-weight points do not influence the result; the smoothing filters reproduce
constant and linear data; named windows.  BOUNDED - never counted as proved."""
import multiprocessing as mp
import sys

import numpy as np

sys.path.insert(0, __file__.rsplit("/bounded/", 1)[0])
from bounded.common import Result, guarded  # noqa: E402

# Thresholds.  A threshold is a property of this check, not of the code: frozen from the maxima MEASURED with this
# generator on the current tree (thorough tier, seeds 0 and 1) with a margin large enough that it cannot flip between
# seeds on an unchanged tree.  MEASURED is documentation (re-measure with --tier thorough and read parts.measured_maxima).
MEASURED = {
    "constant phase, custom weights": 6.3e-5,       # floor = tolerance of the lmfit offset fit, not the quadrature
    "constant phase, named windows": 6.5e-5,
    "ladders, >= 10 points/decade": 3.81e-2,                      # custom unit weights and named windows alike
    "ladders, 5 points/decade (information only)": 3.9e-2,     # 5.1e-2 seen once with akima in a spike
    "scaling: |rec(cZ)| / (c |rec(Z)|) - 1": 6.2e-5,           # the fitted offset is only accurate to the minimiser's tolerance
    "scaling: frequency dependence of that ratio": 5.3e-15,
    "zero-weight points": 5.9e-13,                                 # rounding of angle(factor * Z) vs angle(Z), not the offset fit
    "filters on constant/linear data (savgol odd num_points, whithend order >= 2, modsinc, lowess)": 7.9e-10,
}
_FROZEN = {
    "constant_phase": 1e-3,
    "ladder": 0.05,             # at >= 10 points/decade; 5 points/decade is recorded for information only
    "scaling_ratio": 5e-3,      # limited by the lmfit offset fit
    "scaling_shape": 1e-12,     # rec(cZ)/rec(Z) constant over frequency: pins the algebra of the reconstruction
    "zero_weight": 1e-10,        # 100 x measured, rounded up
    "smoothing": 1e-6,
}
CONST_TOL, LADDER_TOL, SCALE_TOL = _FROZEN["constant_phase"], _FROZEN["ladder"], _FROZEN["scaling_ratio"]
SHAPE_TOL, ZERO_W_TOL, SMOOTH_TOL = _FROZEN["scaling_shape"], _FROZEN["zero_weight"], _FROZEN["smoothing"]

SMOOTHINGS = ["none", "lowess", "modsinc", "savgol", "whithend"]
INTERPOLATIONS = ["akima", "makima", "cubic", "pchip"]

HEAD = """import numpy as np, pyimpspec
from pyimpspec import parse_cdc, perform_zhit, DataSet
f = np.logspace({hi!r}, {lo!r}, {N})
lf = np.log10(f)
Z = parse_cdc({cdc!r}).get_impedances(f)
w = {wsrc}
"""
WEIGHT_SRC = {
    "ones": "np.ones(len(f))",
    "box": "((lf >= 0.0) & (lf <= 3.0)).astype(float)",
    "hann": "np.where(np.abs(lf - 1.5) <= 1.5, np.cos(np.pi * (lf - 1.5) / 3.0) ** 2, 0.0)",
    "box-low": "((lf >= -1.0) & (lf <= 1.0)).astype(float)",
}


def grid_of(g):
    hi, lo, n = g
    return np.logspace(hi, lo, n)


def weights_of(kind, f):
    lf = np.log10(f)  # noqa: F841 (used by eval)
    return eval(WEIGHT_SRC[kind], {"np": np, "lf": lf, "f": f})


def head(cdc, g, wkind):
    return HEAD.format(hi=g[0], lo=g[1], N=g[2], cdc=cdc, wsrc=WEIGHT_SRC[wkind])


def call_src(sm, ip, npts, po, adm, data="Z"):
    return (f"perform_zhit(DataSet(frequencies=f, impedances={data}), smoothing={sm!r}, interpolation={ip!r}, window='boxcar', num_points={npts}, "
            f"polynomial_order={po}, weights=w, admittance={adm}, num_procs=1)")


def zhit(f, Z, w, sm, ip, npts, po, adm):
    from pyimpspec import perform_zhit, DataSet
    r = perform_zhit(DataSet(frequencies=f, impedances=Z), smoothing=sm, interpolation=ip, window="boxcar", num_points=npts, polynomial_order=po, weights=w, admittance=adm, num_procs=1)
    if not np.array_equal(r.frequencies, f):
        raise AssertionError("harness: frequencies reordered")
    return r


# --------------------------------------------------------------------------------------------------- constant phase
def run_const(job):
    import pyimpspec  # noqa
    from pyimpspec import parse_cdc
    cdc, g, wkind, npts, po, combos = job
    f = grid_of(g)
    Z = parse_cdc(cdc).get_impedances(f)
    w = weights_of(wkind, f)
    sym = cdc.split("{")[0]
    cases, fails, metrics = [], [], {}
    for sm, ip, adm in combos:
        ckey = ("const", cdc, g, wkind, npts, po, sm, ip, adm)
        src = head(cdc, g, wkind) + "r = " + call_src(sm, ip, npts, po, adm) + "\n"
        where = f"{cdc}, {g[2]} points 1e{g[1]}..1e{g[0]} Hz, weights {wkind}, smoothing={sm}, interpolation={ip}, num_points={npts}, polynomial_order={po}, admittance={adm}"
        try:
            r = zhit(f, Z, w, sm, ip, npts, po, adm)
        except Exception as ex:  # noqa
            cases.append((ckey, True, None))
            fails.append((f"const-phase:{sm}:{ip}:raises {type(ex).__name__}", "perform_zhit", f"{where}: {type(ex).__name__}: {str(ex)[:120]}", src))
            continue
        err = float(np.max(np.abs(np.abs(r.impedances) / np.abs(Z) - 1)))
        if not np.isfinite(err):
            err = float("inf")
        k = f"const-phase:{sym}:{sm}"
        metrics[k] = max(metrics.get(k, 0.0), err)
        cases.append((ckey, True, {"cdc": cdc, "smoothing": sm, "interpolation": ip, "admittance": adm, "weights": wkind, "num_points": npts, "polynomial_order": po, "rel_err": err}))
        if not (err <= CONST_TOL):
            fails.append((f"const-phase:{sym}:{sm}:{ip}:{'Y' if adm else 'Z'}:error-exceeds-1e-3", "perform_zhit", f"{where}: max relative modulus error {err:.3g} > {CONST_TOL}",
                          src + f"assert np.max(np.abs(np.abs(r.impedances) / np.abs(Z) - 1)) <= {CONST_TOL}\n"))
    return cases, fails, metrics


# ----------------------------------------------------------------------------------------------------------- ladders
def r6(x):
    return float(f"{x:.6g}")


def make_ladder(rng):
    n = int(rng.integers(1, 4))
    scale = 10 ** rng.uniform(-2, 3)
    cdc = f"R{{R={r6(scale * 10 ** rng.uniform(0, 2))!r}}}"
    for lt in np.sort(rng.uniform(-3.5, 0.5, n)):
        R, tau = r6(scale * 10 ** rng.uniform(0, 2)), 10 ** lt
        if rng.random() < 0.5:
            cdc += f"(R{{R={R!r}}}C{{C={r6(tau / R)!r}}})"
        else:
            nn = round(float(rng.uniform(0.7, 1.0)), 3)
            cdc += f"(R{{R={R!r}}}Q{{Y={r6(tau ** nn / R)!r},n={nn!r}}})"
    return cdc


def run_ladder(job):
    import pyimpspec  # noqa
    from pyimpspec import parse_cdc
    cdc, g, wkind, sm, ip, adm, contract = job
    f = grid_of(g)
    Z = parse_cdc(cdc).get_impedances(f)
    w = weights_of(wkind, f)
    ckey = ("ladder", cdc, g, wkind, sm, ip, adm)
    src = head(cdc, g, wkind) + "r = " + call_src(sm, ip, 3, 2, adm) + "\n"
    where = f"{cdc}, {g[2]} points 1e{g[1]}..1e{g[0]} Hz, weights {wkind}, smoothing={sm}, interpolation={ip}, admittance={adm}"
    try:
        r = zhit(f, Z, w, sm, ip, 3, 2, adm)
    except Exception as ex:  # noqa
        return [(ckey, True, None)], [(f"ladder:{sm}:{ip}:raises {type(ex).__name__}", "perform_zhit", f"{where}: {type(ex).__name__}: {str(ex)[:120]}", src)], {}
    err = float(np.max(np.abs(np.abs(r.impedances) / np.abs(Z) - 1)))
    fails = []
    if contract and not (err <= LADDER_TOL):
        fails.append((f"ladder:{sm}:{ip}:{'Y' if adm else 'Z'}:error-exceeds-5-percent", "perform_zhit", f"{where}: max relative modulus error {err:.3g} > {LADDER_TOL}",
                      src + f"assert np.max(np.abs(np.abs(r.impedances) / np.abs(Z) - 1)) <= {LADDER_TOL}\n"))
    tag = f"ladder:{ip}:{wkind}" if contract else f"info-only:ladder-5-points-per-decade:{ip}"
    return [(ckey, True, {"cdc": cdc, "smoothing": sm, "interpolation": ip, "admittance": adm, "rel_err": err})], fails, {tag: err, f"ladder:smoothing={sm}" if contract else tag: err}


# ------------------------------------------------------------------------------------- scaling / zero-weight points
def run_scaling(job):
    import pyimpspec  # noqa
    from pyimpspec import parse_cdc
    cdc, g, wkind, sm, ip, adm, c = job
    f = grid_of(g)
    Z = parse_cdc(cdc).get_impedances(f)
    w = weights_of(wkind, f)
    ckey = ("scaling", cdc, g, wkind, sm, ip, adm, c)
    src = head(cdc, g, wkind) + f"c = {c!r}\nr1 = " + call_src(sm, ip, 3, 2, adm) + "\nr2 = " + call_src(sm, ip, 3, 2, adm, data="c * Z") + "\nratio = np.abs(r2.impedances) / np.abs(r1.impedances) / c\n"
    where = f"{cdc}, {g[2]} points, weights {wkind}, smoothing={sm}, interpolation={ip}, admittance={adm}, c={c!r}"
    try:
        r1 = zhit(f, Z, w, sm, ip, 3, 2, adm)
        r2 = zhit(f, c * Z, w, sm, ip, 3, 2, adm)
    except Exception as ex:  # noqa
        return [(ckey, True, None)], [(f"scaling:raises {type(ex).__name__}", "perform_zhit", f"{where}: {type(ex).__name__}: {str(ex)[:120]}", src)], {}
    ratio = np.abs(r2.impedances) / np.abs(r1.impedances) / c
    e_ratio = float(np.max(np.abs(ratio - 1)))
    e_shape = float(np.max(np.abs(ratio / ratio[0] - 1)))
    e_phase = float(np.max(np.abs(np.angle(r2.impedances / r1.impedances))))
    fails = []
    if not (e_shape <= SHAPE_TOL and e_phase <= SHAPE_TOL):
        fails.append(("scaling:shape-changes", "_reconstruct", f"{where}: |rec(cZ)|/|rec(Z)| varies over frequency by {e_shape:.3g}, phase differs by {e_phase:.3g}",
                      src + f"assert np.max(np.abs(ratio / ratio[0] - 1)) <= {SHAPE_TOL}\n"))
    if not (e_ratio <= SCALE_TOL):
        fails.append((f"scaling:ratio-deviates-more-than-{SCALE_TOL:g}", "_calculate_modulus_offset",
                      f"{where}: |rec(cZ)| / (c |rec(Z)|) deviates from 1 by {e_ratio:.3g} > {SCALE_TOL} (constant over frequency to {e_shape:.1g}: the fitted offset is only accurate to the minimiser's tolerance)",
                      src + f"assert np.max(np.abs(ratio - 1)) <= {SCALE_TOL}, np.max(np.abs(ratio - 1))\n"))
    return [(ckey, True, {"cdc": cdc, "c": c, "ratio_dev": e_ratio, "shape_dev": e_shape})], fails, {"scaling:ratio": e_ratio, "scaling:shape": e_shape}


def run_zero_weight(job):
    import pyimpspec  # noqa
    from pyimpspec import parse_cdc
    cdc, g, wkind, sm, ip, adm, seed = job
    f = grid_of(g)
    Z = parse_cdc(cdc).get_impedances(f)
    w = weights_of(wkind, f)
    rng = np.random.default_rng(seed)
    factor = np.where(w == 0.0, 10 ** rng.uniform(-1, 1, len(f)), 1.0)
    ckey = ("zero-weight", cdc, g, wkind, sm, ip, adm, seed)
    src = head(cdc, g, wkind) + f"factor = np.where(w == 0.0, 10 ** np.random.default_rng({seed}).uniform(-1, 1, len(f)), 1.0)\nr1 = " + call_src(sm, ip, 3, 2, adm) + "\nr2 = " + \
        call_src(sm, ip, 3, 2, adm, data="factor * Z") + "\n"
    where = f"{cdc}, {g[2]} points, weights {wkind} ({int(np.sum(w == 0))} zero-weight points rescaled by 0.1..10), smoothing={sm}, interpolation={ip}, admittance={adm}"
    try:
        r1 = zhit(f, Z, w, sm, ip, 3, 2, adm)
        r2 = zhit(f, factor * Z, w, sm, ip, 3, 2, adm)
    except Exception as ex:  # noqa
        return [(ckey, True, None)], [(f"zero-weight:raises {type(ex).__name__}", "perform_zhit", f"{where}: {type(ex).__name__}: {str(ex)[:120]}", src)], {}
    dev = float(np.max(np.abs(r2.impedances / r1.impedances - 1)))
    fails = []
    if not (dev <= ZERO_W_TOL):
        fails.append(("zero-weight:points-outside-the-window-change-the-result", "_calculate_modulus_offset", f"{where}: reconstruction changes by {dev:.3g} (relative)",
                      src + f"assert np.max(np.abs(r2.impedances / r1.impedances - 1)) <= {ZERO_W_TOL}\n"))
    return [(ckey, int(np.sum(w == 0)) > 0, {"cdc": cdc, "zero_weight_points": int(np.sum(w == 0)), "dev": dev})], fails, {"zero-weight:dev": dev}


# -------------------------------------------------------------------------------------------------- smoothing filters
def run_smoothing(job):
    import pyimpspec  # noqa
    from pyimpspec.analysis.zhit.smoothing import _smooth_phase
    n, combos = job
    f = np.logspace(5, -2, n)
    lnw = np.log(2 * np.pi * f)
    datasets = {"constant": np.full(n, -0.7), "linear": 0.05 * lnw - 0.5}
    dsrc = {"constant": "np.full(n, -0.7)", "linear": "0.05 * lnw - 0.5"}
    cases, fails, metrics = [], [], {}
    for sm, npts, po in combos:
        for name, data in datasets.items():
            ckey = ("smooth", n, sm, npts, po, name)
            src = (f"import numpy as np, pyimpspec\nfrom pyimpspec.analysis.zhit.smoothing import _smooth_phase\nn = {n}\nlnw = np.log(2 * np.pi * np.logspace(5, -2, n))\n"
                   f"data = {dsrc[name]}\nout = _smooth_phase({sm!r}, {npts}, {po}, 3, lnw, data.copy())\n")
            try:
                out = np.asarray(_smooth_phase(sm, npts, po, 3, lnw, data.copy()), dtype=float)
            except ValueError:
                cases.append((ckey, False, None))      # parameter combination rejected by the filter's own validation
                continue
            except Exception as ex:  # noqa
                cases.append((ckey, True, None))
                fails.append((f"smooth:{sm}:raises {type(ex).__name__}", "_smooth_phase", f"{sm}(num_points={npts}, polynomial_order={po}) on {name} data of {n} points: {type(ex).__name__}: {str(ex)[:100]}", src))
                continue
            d = np.abs(out - data)
            d[~np.isfinite(d)] = np.inf
            whole = float(d.max())
            k = max(2 * npts, 10)
            interior = float(d[k:-k].max()) if n > 2 * k + 1 else whole
            mk = f"smooth:{sm}:{name}:{'odd' if npts % 2 else 'even'}-num_points:{'even' if po % 2 == 0 else 'odd'}-order"
            metrics[mk] = max(metrics.get(mk, 0.0), whole)
            cases.append((ckey, True, {"filter": sm, "num_points": npts, "polynomial_order": po, "data": name, "n": n, "max_change": whole}))
            if not (whole <= SMOOTH_TOL):
                part = "edges-only" if interior <= SMOOTH_TOL else "interior"
                tags = (["even-num_points"] if npts % 2 == 0 else []) + (["order=1"] if po == 1 else [])
                if sm == "modsinc" and po > npts:
                    tags = [f"num_points={npts}:degree={po}"]          # degree above the half-width: each combination is its own case
                fails.append((f"smooth:{sm}:{name}-changed:{part}:{'+'.join(tags) if tags else f'num_points={npts}:order={po}'}", "_smooth_phase",
                              f"{sm}(num_points={npts}, polynomial_order={po}) changes {name} data of {n} points by {whole:.3g} (interior, {k} points from either end: {interior:.3g}) > {SMOOTH_TOL}",
                              src + f"assert np.max(np.abs(out - data)) <= {SMOOTH_TOL}, np.max(np.abs(out - data))\n"))
    return cases, fails, metrics


# ------------------------------------------------------------------------------ Whittaker-Henderson penalty matrix vs its definition
def run_whithend_matrix(job):
    """_make_D_prime_D_matrix(order, size) against D'D computed from the definition (D = the order-th difference matrix,
    (size - order) x size), band by band, exactly (integers), for every size down to the smallest accepted one"""
    import pyimpspec  # noqa
    from pyimpspec.analysis.zhit.smoothing.whittaker_henderson import _make_D_prime_D_matrix
    from math import comb
    order, sizes = job
    cases, fails, metrics = [], [], {}
    c = [(-1) ** (order - k) * comb(order, k) for k in range(order + 1)]
    for size in sizes:
        ckey = ("whithend-matrix", order, size)
        src = (f"from pyimpspec.analysis.zhit.smoothing.whittaker_henderson import _make_D_prime_D_matrix\nfrom math import comb\norder, size = {order}, {size}\n"
               "c = [(-1) ** (order - k) * comb(order, k) for k in range(order + 1)]\n"
               "D = [[(c[j - r] if 0 <= j - r <= order else 0) for j in range(size)] for r in range(size - order)]\n"
               "want = [[sum(D[r][i] * D[r][i + d] for r in range(size - order)) for i in range(size - d)] for d in range(order + 1)]\n"
               "got = _make_D_prime_D_matrix(order, size)\nassert [list(map(float, b)) for b in want] == [list(map(float, b)) for b in got], (want, got)\n")
        D = [[(c[j - r] if 0 <= j - r <= order else 0) for j in range(size)] for r in range(size - order)]
        want = [[float(sum(D[r][i] * D[r][i + d] for r in range(size - order))) for i in range(size - d)] for d in range(order + 1)]
        try:
            got = [list(map(float, b)) for b in _make_D_prime_D_matrix(order, size)]
        except Exception as ex:  # noqa
            cases.append((ckey, True, None))
            fails.append((f"whithend-matrix:order={order}:raises {type(ex).__name__}", "_make_D_prime_D_matrix", f"_make_D_prime_D_matrix({order}, {size}): {type(ex).__name__}: {str(ex)[:100]}", src))
            continue
        cases.append((ckey, True, {"order": order, "size": size, "bands": len(got)}))
        if got != want:
            small = "small" if size < 2 * (order + 1) else "regular"
            fails.append((f"whithend-matrix:order={order}:{small}-size:differs-from-D'D", "_make_D_prime_D_matrix",
                          f"_make_D_prime_D_matrix({order}, {size}) is not D'D of the order-{order} difference matrix (first differing band: {next(d for d in range(order + 1) if got[d] != want[d])})", src))
    return cases, fails, metrics


# ------------------------------------------------------------------------------------------------------ named windows
def run_windows(job):
    import pyimpspec  # noqa
    from pyimpspec import parse_cdc, perform_zhit, DataSet
    from pyimpspec.analysis.zhit import weights as W
    cdc, g, settings = job
    is_ladder = "(" in cdc
    tol = LADDER_TOL if is_ladder else CONST_TOL
    f = grid_of(g)
    lf = np.log10(f)
    Z = parse_cdc(cdc).get_impedances(f)
    cases, fails, metrics = [], [], {}
    if len(W._WINDOW_FUNCTIONS) == 0:
        W._initialize_window_functions()
    empty = len(W._WINDOW_FUNCTIONS) == 0
    pre = f"import numpy as np, pyimpspec\nfrom pyimpspec import parse_cdc, perform_zhit, DataSet\nf = np.logspace({g[0]!r}, {g[1]!r}, {g[2]})\nZ = parse_cdc({cdc!r}).get_impedances(f)\n"
    for window, center, width, custom in settings:
        ckey = ("window", cdc, g, window, center, width, custom)
        kws = f"window={window!r}, center={center!r}, width={width!r}, num_procs=1" + (", weights=np.ones(len(f))" if custom else "")
        src = pre + f"r = perform_zhit(DataSet(frequencies=f, impedances=Z), {kws})\nassert np.max(np.abs(np.abs(r.impedances) / np.abs(Z) - 1)) <= {tol}\n"
        where = f"perform_zhit({cdc}, {g[2]} points 1e{g[1]}..1e{g[0]} Hz, {kws})"
        try:
            r = perform_zhit(DataSet(frequencies=f, impedances=Z), window=window, center=center, width=width, num_procs=1, **({"weights": np.ones(len(f))} if custom else {}))
        except Exception as ex:  # noqa
            cases.append((ckey, True, None))
            if empty:
                fails.append(("zhit:no-window-functions", "_initialize_window_functions",
                              f"pyimpspec.analysis.zhit.weights._WINDOW_FUNCTIONS is empty after _initialize_window_functions() (no scipy.signal.windows function passes the signature filter), so {where} raises "
                              f"{type(ex).__name__}: {str(ex)[:80]}", "from pyimpspec.analysis.zhit import weights as W\nW._initialize_window_functions()\nassert len(W._WINDOW_FUNCTIONS) > 0\n" + src))
            else:
                fails.append((f"window:{'custom-weights+' if custom else ''}{window if window in ('auto', 'boxcar') else 'named'}:raises {type(ex).__name__}", "perform_zhit", f"{where}: {type(ex).__name__}: {str(ex)[:120]}", src))
            continue
        err = float(np.max(np.abs(np.abs(r.impedances) / np.abs(Z) - 1)))
        mk = "window:ladder" if is_ladder else "window:const-phase"
        metrics[mk] = max(metrics.get(mk, 0.0), err)
        cases.append((ckey, True, {"cdc": cdc, "window": window, "center": center, "width": width, "chosen": r.window, "rel_err": err}))
        if not (err <= tol):
            fails.append((f"window:{window if window in ('auto', 'boxcar') else 'named'}:{'ladder:error-exceeds-5-percent' if is_ladder else 'error-exceeds-1e-3'}", "perform_zhit", f"{where}: max relative modulus error {err:.3g} > {tol}", src))
    # the weights generated for every named window: in [0, 1], zero outside [center - width/2, center + width/2]
    for name in ([] if is_ladder else sorted(W._WINDOW_FUNCTIONS)):
        for window, center, width, custom in settings:
            if custom or window == "auto":
                continue
            ckey = ("weights", g, name, center, width)
            src = (f"import numpy as np, pyimpspec\nfrom pyimpspec.analysis.zhit import weights as W\nW._initialize_window_functions()\nlf = np.log10(np.logspace({g[0]!r}, {g[1]!r}, {g[2]}))\n"
                   f"w = W._generate_weights(lf, {name!r}, {center!r}, {width!r})\nassert np.all((w >= 0) & (w <= 1)) and np.all(w[(lf < {center!r} - {width!r} / 2) | (lf > {center!r} + {width!r} / 2)] == 0)\n")
            try:
                w = W._generate_weights(lf, name, center, width)
            except Exception as ex:  # noqa
                cases.append((ckey, True, None))
                fails.append((f"weights:raises {type(ex).__name__}", "_generate_weights", f"_generate_weights(window={name!r}, center={center}, width={width}): {type(ex).__name__}: {str(ex)[:100]}", src))
                continue
            cases.append((ckey, True, None))
            outside = (lf < center - width / 2) | (lf > center + width / 2)
            if not (np.all((w >= 0) & (w <= 1)) and np.all(w[outside] == 0) and len(w) == len(lf)):
                fails.append(("weights:outside-[0,1]-or-non-zero-outside-the-window", "_generate_weights", f"_generate_weights(window={name!r}, center={center}, width={width}) -> min {w.min()}, max {w.max()}, "
                              f"max outside the window {np.max(np.abs(w[outside])) if outside.any() else 0}", src))
    return cases, fails, metrics


# --------------------------------------------------------------------------------------------------------------- main
def dispatch(item):
    fn, job = item
    return fn, globals()[fn](job)


def main(a):
    quick = a.tier == "quick"
    rng = np.random.default_rng(a.seed)
    G71 = (5, -2, 71)
    grids = [G71] if quick else [G71, (5, -2, 36), (5, -2, 141), (6, -3, 91), (4, -1, 41)]
    spectra = ["R{R=0.01}", "R{R=100.0}", "R{R=1000000.0}", "C{C=1e-09}", "C{C=1e-05}", "L{L=1e-09}", "L{L=0.001}",
               "Q{Y=1e-06,n=0.5}", "Q{Y=0.0001,n=0.7}", "Q{Y=0.01,n=0.95}", "W{Y=0.0001}", "W{Y=0.01}"]
    if not quick:
        spectra += ["R{R=1.0}", "C{C=0.001}", "L{L=1e-06}", "Q{Y=0.001,n=0.6}", "Q{Y=1e-05,n=0.85}", "Q{Y=1.0,n=0.3}", "Q{Y=1e-08,n=1.0}", "W{Y=1.0}"]
    npos = [(3, 2), (9, 4)] if quick else [(3, 2), (4, 2), (5, 4), (9, 4), (11, 6), (21, 8)]
    wkinds = ["ones", "box", "hann"] if quick else ["ones", "box", "hann", "box-low"]
    all_combos = [(sm, ip, adm) for sm in SMOOTHINGS for ip in INTERPOLATIONS for adm in (False, True)]
    jobs = []
    # ladders first (slow: quad on a varying phase)
    nl = 3 if quick else 16
    ladders = [make_ladder(rng) for _ in range(nl)]
    pairs = [(sm, ip) for sm in SMOOTHINGS for ip in INTERPOLATIONS]
    for i, cdc in enumerate(ladders):
        for j, (sm, ip) in enumerate(pairs):
            for adm in ((bool((i + j) % 2),) if quick else (False, True)):
                jobs.append(("run_ladder", (cdc, G71, "ones", sm, ip, adm, True)))
    if not quick:
        for i, cdc in enumerate(ladders[:5]):
            for j, (sm, ip) in enumerate(pairs):
                jobs.append(("run_ladder", (cdc, (5, -2, 141), "ones", sm, ip, bool((i + j) % 2), True)))
                jobs.append(("run_ladder", (cdc, (5, -2, 36), "ones", sm, ip, bool((i + j) % 2), False)))    # measured, not under the 10-points-per-decade calibration
        for i, cdc in enumerate(ladders[5:10]):
            for j, (sm, ip) in enumerate(pairs):
                jobs.append(("run_ladder", (cdc, (6, -3, 91), "ones", sm, ip, bool((i + j) % 2), True)))
    # constant phase: full product
    for cdc in spectra:
        for g in grids:
            for wk in wkinds:
                for npts, po in npos:
                    if g != G71 and (wk not in ("ones", "box") or (npts, po) not in ((3, 2), (9, 4))):
                        continue
                    if g[2] > 100:
                        for part in range(4):
                            jobs.append(("run_const", (cdc, g, wk, npts, po, all_combos[part::4])))
                    else:
                        jobs.append(("run_const", (cdc, g, wk, npts, po, all_combos)))
    # smoothing="auto" / interpolation="auto" with custom weights
    for cdc in spectra[:: (3 if quick else 1)]:
        for adm in (False, True):
            jobs.append(("run_const", (cdc, G71, "box", 3, 2, [("auto", "auto", adm), ("auto", "makima", adm), ("modsinc", "auto", adm)])))
    # scaling and zero-weight points: constant phase + ladders with the (fast) cubic spline and a few others
    fast = [(sm, "cubic") for sm in SMOOTHINGS]
    for i, cdc in enumerate(spectra + ladders[: (2 if quick else 8)]):
        is_ladder = "(" in cdc
        for j, (sm, ip) in enumerate(fast if is_ladder else pairs[:: (4 if quick else 1)]):
            for c in (1e-3, 1e3):
                jobs.append(("run_scaling", (cdc, G71, ["ones", "box", "hann"][(i + j) % 3], sm, ip, bool((i + j) % 2), c)))
            for wk in (["box"] if quick else ["box", "hann", "box-low"]):
                jobs.append(("run_zero_weight", (cdc, G71, wk, sm, ip, bool((i + j + 1) % 2), int(rng.integers(2 ** 31)))))
    # smoothing filters on constant / linear data
    sm_npos = [(2, 1), (3, 1), (3, 2), (4, 2), (4, 3), (5, 2), (5, 3), (5, 4), (7, 2), (7, 4), (7, 6), (9, 2), (9, 4), (15, 2), (15, 4), (15, 6), (21, 8), (8, 4), (9, 1), (9, 3)]
    for n in ([71] if quick else [36, 71, 141, 351]):       # num_points < n/6 so that an interior (>= 2 num_points from either end) exists
        jobs.append(("run_smoothing", (n, [(sm, npts, po) for sm in SMOOTHINGS[1:] for npts, po in sm_npos if npts < n / 6])))
        # the modified-sinc kernel takes its degree (2, 4, ..., 10) independently of the half-width: degrees above the half-width too
        jobs.append(("run_smoothing", (n, [("modsinc", npts, po) for npts, po in ((2, 4), (3, 4), (3, 6), (4, 6), (5, 8), (6, 10), (4, 8), (3, 2), (2, 2)) if npts < n / 6])))
    # Whittaker-Henderson penalty matrix against its definition, every size from the smallest accepted one
    for order in range(1, 6):
        jobs.append(("run_whithend_matrix", (order, list(range(order, 25 if quick else 80)))))
    # named windows
    wsets = [("boxcar", 1.5, 3.0, False), ("hann", 1.5, 3.0, False), ("auto", 1.5, 3.0, False), ("cosine", 2.0, 2.0, False), ("triang", 0.25, 1.5, False), ("auto", 1.5, 3.0, True), ("boxcar", 3.0, 4.0, False)]
    if not quick:
        wsets += [("hann", 0.0, 1.0, False), ("boxcar", -0.5, 2.5, False), ("blackman", 2.2, 5.0, False), ("auto", 0.5, 4.0, False), ("bartlett", 1.0, 0.7, False), ("hamming", 4.0, 1.9, False)]
    for cdc in (spectra[1::4] if quick else spectra[::2]):
        for g in ([G71] if quick else [G71, (6, -3, 91)]):
            jobs.append(("run_windows", (cdc, g, wsets)))
    # ladders with named windows (one slow call per job, scheduled first)
    slow = [("run_windows", (cdc, G71, [ws])) for cdc in ladders[: (2 if quick else 8)] for ws in (wsets[:3] + wsets[4:5] if quick else wsets)]
    jobs = slow + jobs

    counts = {fn: sum(1 for j in jobs if j[0] == fn) for fn in ("run_const", "run_ladder", "run_scaling", "run_zero_weight", "run_smoothing", "run_windows", "run_whithend_matrix")}
    res = Result("C11", f"{len(spectra)} constant-phase spectra (R, C, L, Q with n 0.3..1, W) x {len(SMOOTHINGS)} smoothings x {len(INTERPOLATIONS)} interpolations x {{Z, Y}} x num_points/polynomial_order {npos} x "
                 f"custom weights {wkinds} x grids {grids} (+ smoothing/interpolation 'auto'); {len(ladders)} random R(RC|RQ)x1..3 ladders x 20 smoothing/interpolation pairs; "
                 f"{counts['run_scaling']} scaling pairs (c = 1e-3, 1e3); {counts['run_zero_weight']} zero-weight perturbations; 4 filters x {len(sm_npos)} (num_points, order) on constant/linear data; "
                 f"{len(wsets)} named-window settings (window=..., center, width; incl. 'auto' and the defaults) on constant-phase spectra and ladders ({counts['run_windows']} jobs), "
                 f"weights of every window in the table checked for [0, 1] and zero outside the window; Whittaker-Henderson penalty matrix vs its definition for orders 1..5 x sizes order..{24 if quick else 79}",
                 "full product over the option sets for constant-phase spectra, seeded random ladders, covering design for the slow ladder runs; one case = (spectrum, grid, weights, options); "
                 "non-trivial = perform_zhit returned a reconstruction that was compared with the analytic modulus")
    maxima = {}
    with mp.get_context("fork").Pool(16) as pool:
        for fn, (cases, fails, metrics) in pool.imap(dispatch, jobs, chunksize=1):
            for key, nontrivial, sample in cases:
                res.case(key, nontrivial, sample)
            for key, fun, what, repro in fails:
                res.fail(key, fun, what, repro)
            for k, v in metrics.items():
                maxima[k] = max(maxima.get(k, 0.0), float(v))
    res.part("measured_maxima", **{k: maxima[k] for k in sorted(maxima)})
    res.part("thresholds", **_FROZEN)
    res.part("documented_maxima", **MEASURED)
    res.part("jobs", **counts)
    return res


if __name__ == "__main__":
    guarded(main)
