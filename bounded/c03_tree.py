"""Intended-syntax-tree helpers of the C03/C04 bounded checks.  A tree is a nested tuple that `repr` round-trips:
  ("S", (child, ...)) / ("P", (child, ...))                                    series / parallel connection
  ("E", symbol, label, ((key, value, lower, upper, fixed), ...), ((key, subtree-or-None), ...))   element / container
build() goes tree -> real objects through the public API only, extract() goes back, norm() merges directly nested
connections of the same kind (and drops a series around a single child), rounded() applies the printed precision.
The source text of this module is embedded verbatim into the reproducers so that they are self-contained."""
inf = float("inf")


def build(tree):
    from pyimpspec import Series, Parallel
    from pyimpspec.circuit.registry import get_elements
    if tree is None:
        return None
    if tree[0] in ("S", "P"):
        return (Series if tree[0] == "S" else Parallel)([build(c) for c in tree[1]])
    _, symbol, label, params, subs = tree
    Class = get_elements(private=True)[symbol]
    element = Class(**{k: build(s) for k, s in subs})
    for key, value, lower, upper, fixed in params:
        # limits may lie entirely above or below the class defaults: open the lower side first
        element.set_lower_limits(key, -inf)
        element.set_upper_limits(key, upper)
        element.set_lower_limits(key, lower)
        element.set_values(key, value)
        element.set_fixed(key, fixed)
    element.set_label(label)
    return element


def extract(obj):
    from pyimpspec import Series, Parallel, Circuit
    from pyimpspec.circuit.base import Container
    from pyimpspec.circuit.registry import get_elements
    if obj is None:
        return None
    if isinstance(obj, Circuit):
        return extract(obj.get_connections(recursive=False)[0])
    if isinstance(obj, (Series, Parallel)):
        return ("S" if isinstance(obj, Series) else "P", tuple(extract(c) for c in obj))
    symbols = [s for s, c in get_elements(private=True).items() if c is type(obj)]
    symbol = symbols[0] if len(symbols) == 1 else "?" + type(obj).__name__
    values, lower, upper, fixed = obj.get_values(), obj.get_lower_limits(), obj.get_upper_limits(), obj.are_fixed()
    params = tuple((k, values[k], lower[k], upper[k], fixed[k]) for k in values)
    subs = tuple((k, extract(s)) for k, s in obj.get_subcircuits().items()) if isinstance(obj, Container) else ()
    return ("E", symbol, obj.get_label(), params, subs)


def norm(tree, top=True):
    """merge directly nested connections of the same kind; a series with one child is that child (except at the top of
    a circuit or sub-circuit, which is always a series)"""
    if tree is None:
        return None
    if tree[0] == "E":
        return tree[:4] + (tuple((k, norm(s)) for k, s in tree[4]),)
    kind, children = tree
    out = []
    for child in children:
        child = norm(child, top=False)
        if child[0] == kind:
            out.extend(child[1])
        else:
            out.append(child)
    if kind == "S" and len(out) == 1 and not top:
        return out[0]
    if top and kind == "P":
        return ("S", (("P", tuple(out)),))
    return (kind, tuple(out))


def rounded(tree, decimals):
    """the tree with every value and finite limit replaced by what '%.<decimals>E' prints"""
    if tree is None:
        return None
    if tree[0] != "E":
        return (tree[0], tuple(rounded(c, decimals) for c in tree[1]))
    r = lambda x: x if x in (inf, -inf) else float(("%." + str(decimals) + "E") % x)  # noqa: E731
    params = tuple((k, r(v), r(lo), r(up), fx) for k, v, lo, up, fx in tree[3])
    return tree[:3] + (params, tuple((k, rounded(s, decimals)) for k, s in tree[4]))


def leaves(tree, depth=0):
    """[(symbol, number of enclosing containers)] in document order"""
    if tree is None:
        return []
    if tree[0] != "E":
        return [x for c in tree[1] for x in leaves(c, depth)]
    return [(tree[1], depth)] + [x for _, s in tree[4] for x in leaves(s, depth + 1)]


def describe(got, expected, path="circuit"):
    """first difference between two normalised trees as (kind, text)"""
    if got == expected:
        return None
    if got is None or expected is None:
        return ("structure", f"{path}: got {'open' if got is None else got[0]}, expected {'open' if expected is None else expected[0]}")
    if got[0] != expected[0]:
        return ("structure", f"{path}: got node kind {got[0]}, expected {expected[0]}")
    if got[0] != "E":
        if len(got[1]) != len(expected[1]):
            return ("structure", f"{path}: {got[0]} has {len(got[1])} children, expected {len(expected[1])}")
        if sorted(map(repr, got[1])) == sorted(map(repr, expected[1])):
            return ("order", f"{path}: children are in a different order")
        for i, (g, e) in enumerate(zip(got[1], expected[1])):
            d = describe(g, e, f"{path}/{got[0]}[{i}]")
            if d:
                return d
        return ("structure", f"{path}: trees differ")
    if got[1] != expected[1]:
        return ("type", f"{path}: element type {got[1]}, expected {expected[1]}")
    if got[2] != expected[2]:
        return ("label", f"{path}/{got[1]}: label {got[2]!r}, expected {expected[2]!r}")
    if [p[0] for p in got[3]] != [p[0] for p in expected[3]]:
        return ("type", f"{path}/{got[1]}: parameter keys {[p[0] for p in got[3]]}, expected {[p[0] for p in expected[3]]}")
    for g, e in zip(got[3], expected[3]):
        for name, a, b in zip(("value", "lower", "upper", "fixed"), g[1:], e[1:]):
            if a != b:
                return (name, f"{path}/{got[1]}.{g[0]}: {name} {a!r}, expected {b!r}")
    for (k, g), (_, e) in zip(got[4], expected[4]):
        d = describe(g, e, f"{path}/{got[1]}.{k}")
        if d:
            return d
    return ("structure", f"{path}: trees differ")
