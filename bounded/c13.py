"""C13 bounded layer (Layer R): DRT results carry the physics.  Series resistance + 1..4 parallel RC / RQ elements with
well separated time constants -> TR-NNLS (non-negativity, area = polarisation resistance, peaks at R*C), Loewner method
(exact (tau, R) pairs), m(RQ)fit (per-element area = R) and the two scaling laws.  BOUNDED - never counted as proved."""
import multiprocessing as mp
import sys

import itertools
import numpy as np

sys.path.insert(0, __file__.rsplit("/bounded/", 1)[0])
from bounded.common import Result, guarded  # noqa: E402

# Thresholds.  A threshold is a property of this check, not of the code: it was frozen from the maxima MEASURED with this
# generator on the current tree (thorough tier, seeds 0 and 1) with a margin large enough that it cannot flip between
# seeds on an unchanged tree.  MEASURED is documentation (re-measure with --tier thorough and read parts.measured_maxima).
MEASURED = {
    "tr-nnls area, RC ladders": 1.71e-2,         # automatic lambda (-1) at 5 points/decade; fixed lambda 3e-3
    "tr-nnls area, RQ ladders": 1.0e-2,
    "tr-nnls peak distance, RC ladders (grid steps)": 1.07,     # once in ~3800 RC ladders (auto lambda -1, 5 points/decade), else <= 0.87
    "lm pair error, 1-2 elements": 1.9e-8,
    "lm pair error, 3-4 elements": 3.4e-5,            # seeds 0/1: 2.5e-5; 3.4e-5 seen with an earlier seed stream
    "m(RQ)fit element area": 4.0e-5,
    "scaling tr-nnls (fixed lambda)": 2.5e-11,
    "scaling lm": 1.3e-5,
}
_FROZEN = {
    "area": 0.02,               # TR-NNLS: |integral gamma dln(tau) / sum R_k - 1|            (RC and RQ ladders)
    "peak_steps": 1.5,          # TR-NNLS: peak within 1.5 grid steps of log10(R_k C_k)         (RC ladders only)
    "lm_small": 1e-6,           # Loewner: relative error of every (tau_k, R_k), 1-2 elements
    "lm_large": 3e-3,           # Loewner: same, 3-4 elements
    "mrq": 1e-3,                # m(RQ)fit: per-element area vs R
    "scaling_trnnls": 1e-6,     # scaling laws, tr-nnls with fixed lambda
    "scaling_lm": 1e-3,         # scaling laws, lm (poles below 1e-9 of the largest weight ignored)
}
AREA_TOL, PEAK_STEPS, MRQ_TOL = _FROZEN["area"], _FROZEN["peak_steps"], _FROZEN["mrq"]
SIGNIFICANT = 0.05      # RC ladders: peaks higher than this fraction of the tallest must belong to a generating element
NEGLIGIBLE_POLE = 1e-9  # lm: poles with a smaller share of the largest weight are ignored when two results are compared


def lm_tol(n):
    return _FROZEN["lm_small"] if n <= 2 else _FROZEN["lm_large"]


def scale_tol(method):
    return _FROZEN["scaling_trnnls"] if method == "tr-nnls" else _FROZEN["scaling_lm"]

WINDOWS = [(-2, 5), (-3, 6), (-1, 7)]          # log10 f_min, log10 f_max
MARGIN, SEP = 1.5, 1.5                          # decades inside the measured window / between time constants
LAMBDAS = [1e-3, -1.0, -2.0]                    # fixed, automatic (custom), automatic (L-curve corner)
MODES = ["real", "imaginary"]


def r9(x):
    return float(f"{x:.9g}")


def make_ladder(rng, n, kind, ppd, scale, r0=True, wide=False):
    """-> dict(cdc, lo, hi, ppd, taus, Rs).  Time constants >= MARGIN decades inside the tau window 1/(2 pi f) and
    >= SEP decades apart, resistances within one decade of each other (scale .. 10*scale)."""
    fits = []
    for lo, hi in WINDOWS:
        tlo = -np.log10(2 * np.pi * 10.0 ** hi) + MARGIN
        thi = -np.log10(2 * np.pi * 10.0 ** lo) - MARGIN
        if (thi - tlo) - (n - 1) * SEP > 0.2:
            fits.append((lo, hi, tlo, thi))
    lo, hi, tlo, thi = fits[int(rng.integers(len(fits)))]
    slack = (thi - tlo) - (n - 1) * SEP
    lt = tlo + np.sort(rng.uniform(0, slack, n)) + np.arange(n) * SEP
    Rs = [r9(scale * 10 ** rng.uniform(0, 1)) for _ in range(n)]
    cdc = f"R{{R={r9(scale * 10 ** rng.uniform(0, 1))!r}}}" if r0 else ""
    taus = []
    for k in range(n):
        tau = 10 ** lt[k]
        if kind == "C":
            C = r9(tau / Rs[k])
            cdc += f"(R{{R={Rs[k]!r}}}C{{C={C!r}}})"
            taus.append(Rs[k] * C)
        else:
            nn = round(float(rng.uniform(0.9, 0.99)), 3)
            Y = r9(tau ** nn / Rs[k])
            cdc += f"(R{{R={Rs[k]!r}}}Q{{Y={Y!r},n={nn!r}}})"
            taus.append((Rs[k] * Y) ** (1 / nn))
    return dict(cdc=cdc, lo=lo, hi=hi, ppd=ppd, taus=taus, Rs=Rs, kind=kind, n=n, scale=scale)


def grid(lad):
    return np.logspace(lad["hi"], lad["lo"], (lad["hi"] - lad["lo"]) * lad["ppd"] + 1)


HEAD = """import numpy as np, pyimpspec
from pyimpspec import parse_cdc, simulate_spectrum, calculate_drt, DataSet
f = np.logspace({hi}, {lo}, {N})
circuit = parse_cdc({cdc!r})
data = simulate_spectrum(circuit, f, label="x")
taus, Rs = np.array({taus!r}), np.array({Rs!r})
"""


def head(lad):
    return HEAD.format(hi=lad["hi"], lo=lad["lo"], N=(lad["hi"] - lad["lo"]) * lad["ppd"] + 1, cdc=lad["cdc"], taus=[float(t) for t in lad["taus"]], Rs=lad["Rs"])


def trapz(y, x):
    return float(np.sum(0.5 * (y[1:] + y[:-1]) * np.diff(x)))


TRAPZ_SRC = "trapz = lambda y, x: float(np.sum(0.5 * (y[1:] + y[:-1]) * np.diff(x)))\n"


# ---------------------------------------------------------------------------------------------------------- TR-NNLS
def run_trnnls(job):
    import pyimpspec  # noqa
    from pyimpspec import parse_cdc, simulate_spectrum, calculate_drt
    seed, n, kind, ppd, scale = job
    rng = np.random.default_rng(seed)
    lad = make_ladder(rng, n, kind, ppd, scale)
    f = grid(lad)
    data = simulate_spectrum(parse_cdc(lad["cdc"]), f, label="x")
    taus, Rs = np.array(lad["taus"]), np.array(lad["Rs"])
    step = 1.0 / ppd
    cases, fails, metrics = [], [], {}
    rc = "rc" if kind == "C" else "rq"
    for mode in MODES:
        for lam in LAMBDAS:
            lamname = {1e-3: "fixed", -1.0: "auto-custom", -2.0: "auto-lcurve"}[lam]
            call = f"calculate_drt(data, method='tr-nnls', mode={mode!r}, lambda_value={lam!r})"
            ckey = ("tr-nnls", lad["cdc"], lad["lo"], lad["hi"], ppd, mode, lam)
            try:
                r = calculate_drt(data, method="tr-nnls", mode=mode, lambda_value=lam)
            except Exception as ex:  # noqa  the property presumes a result for every ladder in its quantifier
                if isinstance(ex, RuntimeError) and "Maximum number of iterations" in str(ex):
                    # scipy.optimize.nnls gave up: an abort, owned (and keyed) by property C18; no result to judge here
                    cases.append((ckey, False, None))
                    metrics[f"count:nnls-abort:{rc}:{lamname}"] = metrics.get(f"count:nnls-abort:{rc}:{lamname}", 0) + 1
                    continue
                cases.append((ckey, True, None))
                fails.append((f"tr-nnls:{rc}:{lamname}:raises {type(ex).__name__}", "calculate_drt_tr_nnls",
                              f"{call} on {lad['cdc']} ({ppd} points/decade, 1e{lad['lo']}..1e{lad['hi']} Hz) raised {type(ex).__name__}: {str(ex)[:120]}",
                              head(lad) + f"r = {call}\n"))
                continue
            tau, g = r.get_drt_data()
            gmin = float(np.min(g))
            area = abs(trapz(g, np.log(tau)))
            earea = abs(area / Rs.sum() - 1)
            pt, pg = r.get_peaks()
            if len(pt):
                d = float(max(np.min(np.abs(np.log10(pt) - np.log10(tk))) / step for tk in taus))
            else:
                d = float("inf")
            ps, _ = r.get_peaks(threshold=SIGNIFICANT)
            spurious = [float(p) for p in ps if np.min(np.abs(np.log10(p) - np.log10(taus))) > PEAK_STEPS * step * (1 + 1e-9)]
            cases.append((ckey, True, {"cdc": lad["cdc"], "ppd": ppd, "mode": mode, "lambda": lam, "area_err": earea, "peak_steps": d}))
            for name, val in (("area", earea), ("peak_steps", d), ("neg_gamma", -gmin)):
                k = f"tr-nnls:{rc}:{lamname}:{name}" if (kind == "C" or name != "peak_steps") else f"info:rq-peaks:{lamname}:peak_steps"
                metrics[k] = max(metrics.get(k, 0.0), val)
            where = f"{call} on {lad['cdc']} ({ppd} points/decade, 1e{lad['lo']}..1e{lad['hi']} Hz)"
            if gmin < 0:
                fails.append((f"tr-nnls:{rc}:{lamname}:negative-gamma", "calculate_drt_tr_nnls", f"{where}: min gamma = {gmin!r} < 0",
                              head(lad) + f"r = {call}\nassert np.min(r.get_drt_data()[1]) >= 0\n"))
            if not (earea <= AREA_TOL):
                fails.append((f"tr-nnls:{rc}:{lamname}:area-off-by-more-than-2-percent", "calculate_drt_tr_nnls",
                              f"{where}: integral of gamma over ln(tau) = {area!r}, sum R_k = {Rs.sum()!r} (relative {earea:.3g} > {AREA_TOL})",
                              head(lad) + TRAPZ_SRC + f"r = {call}\ntau, g = r.get_drt_data()\nassert abs(abs(trapz(g, np.log(tau))) / Rs.sum() - 1) <= {AREA_TOL}\n"))
            if kind != "C":
                # (RQ) elements have a broad distribution that NNLS resolves into several spikes: the property's
                # peak clause speaks of R*C; distances are recorded for information only
                metrics[f"info:rq-peaks:{lamname}:spurious"] = max(metrics.get(f"info:rq-peaks:{lamname}:spurious", 0.0), float(len(spurious)))
                continue
            if not (d <= PEAK_STEPS * (1 + 1e-9)):
                fails.append((f"tr-nnls:{rc}:{lamname}:peak-off-by-more-than-1.5-grid-steps", "TRNNLSResult.get_peaks",
                              f"{where}: a generating time constant {list(map(float, taus))} has no peak within {PEAK_STEPS} grid steps ({step:.3g} decades each): peaks at {list(map(float, pt))} (worst {d:.3g} steps)",
                              head(lad) + f"r = {call}\npt, pg = r.get_peaks()\nassert len(pt) and all(np.min(np.abs(np.log10(pt) - np.log10(tk))) <= {PEAK_STEPS * step!r} * (1 + 1e-9) for tk in taus)\n"))
            if spurious:
                fails.append((f"tr-nnls:{rc}:{lamname}:spurious-peak", "TRNNLSResult.get_peaks",
                              f"{where}: peaks higher than {SIGNIFICANT} of the tallest at tau = {spurious}, more than {PEAK_STEPS} grid steps from every generating time constant {list(map(float, taus))}",
                              head(lad) + f"r = {call}\nps, _ = r.get_peaks(threshold={SIGNIFICANT})\nassert all(np.min(np.abs(np.log10(p) - np.log10(taus))) <= {PEAK_STEPS * step!r} * (1 + 1e-9) for p in ps)\n"))
    return cases, fails, metrics


# --------------------------------------------------------------------------------------------------------------- LM
def lm_pairs(r):
    tRC, gRC, tRL, gRL = r.get_peaks()
    return np.asarray(tRC, dtype=float), np.asarray(gRC, dtype=float), np.asarray(tRL, dtype=float), np.asarray(gRL, dtype=float)


def run_lm(job):
    import pyimpspec  # noqa
    from pyimpspec import parse_cdc, simulate_spectrum, calculate_drt
    seed, n, ppd, scale = job
    rng = np.random.default_rng(seed)
    lad = make_ladder(rng, n, "C", ppd, scale, r0=False)
    f = grid(lad)
    data = simulate_spectrum(parse_cdc(lad["cdc"]), f, label="x")
    taus, Rs = np.array(lad["taus"]), np.array(lad["Rs"])
    call = "calculate_drt(data, method='lm', num_procs=1)"
    where = f"{call} on {lad['cdc']} ({ppd} points/decade, 1e{lad['lo']}..1e{lad['hi']} Hz)"
    ckey = ("lm", lad["cdc"], lad["lo"], lad["hi"], ppd)
    fails, metrics = [], {}
    try:
        r = calculate_drt(data, method="lm", num_procs=1)
    except Exception as ex:  # noqa
        return [(ckey, True, None)], [(f"lm:raises {type(ex).__name__}", "calculate_drt_lm", f"{where} raised {type(ex).__name__}: {str(ex)[:120]}", head(lad) + f"r = {call}\n")], {}
    tRC, gRC, tRL, gRL = lm_pairs(r)
    errs = []
    for tk, Rk in zip(taus, Rs):
        if len(tRC) == 0:
            errs.append(float("inf"))
            continue
        j = int(np.argmin(np.abs(np.log(tRC) - np.log(tk))))
        errs.append(float(max(abs(tRC[j] / tk - 1), abs(gRC[j] / Rk - 1))))
    err = max(errs)
    others = [float(g) for t, g in zip(tRC, gRC) if np.min(np.abs(np.log(t) - np.log(taus))) > 1e-3] + [float(g) for g in gRL]
    extra = max(others) / Rs.sum() if others else 0.0
    metrics[f"lm:pair-error:n={n}"] = err
    metrics["lm:extra-pole-weight"] = extra
    LM_TOL = lm_tol(n)
    if not (err <= LM_TOL):
        fails.append((f"lm:pair-error-exceeds-{LM_TOL:g}:{n}-elements", "calculate_drt_lm",
                      f"{where}: (tau, R) pairs {list(zip(map(float, tRC), map(float, gRC)))} vs generating {list(zip(map(float, taus), Rs))}: worst relative error {err:.3g} > {LM_TOL}",
                      head(lad) + f"r = {call}\ntRC, gRC, tRL, gRL = r.get_peaks()\nfor tk, Rk in zip(taus, Rs):\n    j = int(np.argmin(np.abs(np.log(tRC) - np.log(tk))))\n    assert max(abs(tRC[j] / tk - 1), abs(gRC[j] / Rk - 1)) <= {LM_TOL}, (tRC[j], gRC[j], tk, Rk)\n"))
    if not (extra <= LM_TOL):
        fails.append(("lm:extra-pole", "calculate_drt_lm", f"{where}: returned poles that belong to no generating element with gamma/sum(R) = {extra:.3g}",
                      head(lad) + f"r = {call}\ntRC, gRC, tRL, gRL = r.get_peaks()\nassert len(tRC) == {n} and len(tRL) == 0, (tRC, gRC, tRL, gRL)\n"))
    return [(ckey, True, {"cdc": lad["cdc"], "ppd": ppd, "lm_pair_error": err, "order": int(len(r.time_constants))})], fails, metrics


# ---------------------------------------------------------------------------------------------------------- scaling
def run_scaling(job):
    import pyimpspec  # noqa
    from pyimpspec import parse_cdc, simulate_spectrum, calculate_drt, DataSet
    seed, n, kind, ppd, scale, method, mode, c, what = job
    rng = np.random.default_rng(seed)
    lad = make_ladder(rng, n, kind, ppd, scale, r0=(method != "lm"))
    f = grid(lad)
    Z = simulate_spectrum(parse_cdc(lad["cdc"]), f, label="x").get_impedances()
    kw = dict(method="tr-nnls", mode=mode, lambda_value=1e-3) if method == "tr-nnls" else dict(method="lm", num_procs=1)
    kwsrc = ", ".join(f"{k}={v!r}" for k, v in kw.items())
    d1 = DataSet(frequencies=f, impedances=Z)
    d2 = DataSet(frequencies=f, impedances=c * Z) if what == "Z" else DataSet(frequencies=c * f, impedances=Z)
    ckey = ("scaling", lad["cdc"], lad["lo"], lad["hi"], ppd, method, mode, c, what)
    src = head(lad) + f"Z = data.get_impedances()\nc = {c!r}\nd1 = DataSet(frequencies=f, impedances=Z)\n" + \
        ("d2 = DataSet(frequencies=f, impedances=c * Z)\n" if what == "Z" else "d2 = DataSet(frequencies=c * f, impedances=Z)\n") + \
        f"r1 = calculate_drt(d1, {kwsrc})\nr2 = calculate_drt(d2, {kwsrc})\n"
    where = f"{lad['cdc']} ({ppd} points/decade), {kwsrc}, {'Z' if what == 'Z' else 'f'} scaled by {c!r}"
    try:
        r1 = calculate_drt(d1, **kw)
        r2 = calculate_drt(d2, **kw)
    except Exception as ex:  # noqa
        return [(ckey, True, None)], [(f"scaling:{method}:raises {type(ex).__name__}", "calculate_drt", f"{where}: {type(ex).__name__}: {str(ex)[:120]}", src)], {}
    ct, cg = (1.0, c) if what == "Z" else (1.0 / c, 1.0)
    SCALE_TOL = scale_tol(method)
    if method == "tr-nnls":
        t1, g1 = r1.get_drt_data()
        t2, g2 = r2.get_drt_data()
        check = f"t1, g1 = r1.get_drt_data(); t2, g2 = r2.get_drt_data()\nassert np.max(np.abs(t2 / ({ct!r} * t1) - 1)) <= {SCALE_TOL} and np.max(np.abs(g2 - {cg!r} * g1)) <= {SCALE_TOL} * np.max(np.abs({cg!r} * g1))\n"
    else:
        # the scaling law is evaluated on the poles that carry weight (gamma > 1e-9 of the largest); poles of negligible
        # weight come and go with the automatically chosen model order and are not part of the result that is compared
        def sig(r):
            t, g = np.asarray(r.time_constants, dtype=float), np.asarray(r.gammas, dtype=float)
            m = np.abs(g) > NEGLIGIBLE_POLE * np.max(np.abs(g))
            o = np.argsort(t[m])
            return t[m][o], g[m][o]
        sigsrc = f"def sig(r):\n    t, g = np.asarray(r.time_constants, dtype=float), np.asarray(r.gammas, dtype=float)\n    m = np.abs(g) > {NEGLIGIBLE_POLE} * np.max(np.abs(g))\n    o = np.argsort(t[m])\n    return t[m][o], g[m][o]\n"
        (t1, g1), (t2, g2) = sig(r1), sig(r2)
        check = sigsrc + f"(t1, g1), (t2, g2) = sig(r1), sig(r2)\nassert len(t1) == len(t2), (t1, t2)\nassert np.max(np.abs(t2 / ({ct!r} * t1) - 1)) <= {SCALE_TOL} and np.max(np.abs(g2 - {cg!r} * g1)) <= {SCALE_TOL} * np.max(np.abs({cg!r} * g1))\n"
        pre_fails = []
        if len(t1) != len(t2):
            return [(ckey, True, None)], pre_fails + [(f"scaling:lm:{what}:number-of-significant-poles-changes", "calculate_drt_lm", f"{where}: {len(t1)} significant poles before, {len(t2)} after", src + check)], {}
    et = float(np.max(np.abs(t2 / (ct * t1) - 1)))
    eg = float(np.max(np.abs(g2 - cg * g1)) / np.max(np.abs(cg * g1)))
    fails = pre_fails if method == "lm" else []
    if not (et <= SCALE_TOL and eg <= SCALE_TOL):
        fails.append((f"scaling:{method}:{what}:exceeds-{SCALE_TOL:g}", "calculate_drt_tr_nnls" if method == "tr-nnls" else "calculate_drt_lm",
                      f"{where}: tau deviates {et:.3g}, gamma deviates {eg:.3g} (relative to max) from the scaling law", src + check))
    return [(ckey, True, {"cdc": lad["cdc"], "method": method, "scaled": what, "c": c, "tau_dev": et, "gamma_dev": eg})], fails, {f"scaling:{method}:{what}:tau": et, f"scaling:{method}:{what}:gamma": eg}


# --------------------------------------------------------------------------------------------------------- mRQ-fit
MRQ_HEAD = """import numpy as np, pyimpspec
from pyimpspec import parse_cdc, simulate_spectrum, calculate_drt
from pyimpspec.analysis.fitting import FitResult
trapz = lambda y, x: float(np.sum(0.5 * (y[1:] + y[:-1]) * np.diff(x)))
def drt(cdc, f, ppd):
    c = parse_cdc(cdc)
    data = simulate_spectrum(c, f, label="x")
    Z = data.get_impedances()
    fit = FitResult(circuit=c, parameters={{}}, minimizer_result=None, frequencies=f, impedances=Z, residuals=np.zeros(len(f), dtype=complex), pseudo_chisqr=0.0, method="", weight="")
    r = calculate_drt(data, method="mrq-fit", circuit=c, fit=fit, num_per_decade=ppd, num_procs=1)
    return r.get_drt_data()
f = np.logspace({hi!r}, {lo!r}, {N})
"""


def mrq_drt(cdc, f, ppd):
    from pyimpspec import parse_cdc, simulate_spectrum, calculate_drt
    from pyimpspec.analysis.fitting import FitResult
    c = parse_cdc(cdc)
    data = simulate_spectrum(c, f, label="x")
    fit = FitResult(circuit=c, parameters={}, minimizer_result=None, frequencies=f, impedances=data.get_impedances(), residuals=np.zeros(len(f), dtype=complex), pseudo_chisqr=0.0, method="", weight="")
    r = calculate_drt(data, method="mrq-fit", circuit=c, fit=fit, num_per_decade=ppd, num_procs=1)
    return r.get_drt_data()


def run_mrq_analytic(job):
    """the already-fitted path (fit=...): per-element distribution on a fine, wide grid integrates to that element's R;
    the distribution of a ladder is the sum of its elements' distributions"""
    import pyimpspec  # noqa
    seed, n, fine, r0 = job
    rng = np.random.default_rng(seed)
    elems, Rs = [], []
    centre = rng.uniform(-3, 1)
    for k in range(n):
        R = r9(10 ** rng.uniform(-2, 4))
        tau = 10 ** (centre + rng.uniform(-1.5, 1.5))
        if rng.random() < 0.3:
            elems.append(f"(R{{R={R!r}}}C{{C={r9(tau / R)!r}}})")
        else:
            nn = round(float(rng.choice([0.5, 0.6, 0.7, 0.8, 0.9, 0.95, 0.985, 0.995, 1.0]) if rng.random() < 0.6 else rng.uniform(0.5, 1.0)), 4)
            elems.append(f"(R{{R={R!r}}}Q{{Y={r9(tau ** nn / R)!r},n={nn!r}}})")
        Rs.append(R)
    # wide window: the analytic (RQ) distribution has tails ~exp(-n |ln tau/tau0|); 10 decades either side of the
    # centre leaves < 2e-4 of the area outside for n >= 0.5
    lo, hi = int(np.floor(-centre - 0.8 - 12)), int(np.ceil(-centre - 0.8 + 12))
    f = np.logspace(hi, lo, (hi - lo) * 2 + 1)
    pre = f"R{{R={r9(10 ** rng.uniform(-2, 3))!r}}}" if r0 else ""
    hd = MRQ_HEAD.format(hi=hi, lo=lo, N=(hi - lo) * 2 + 1)
    cases, fails, metrics = [], [], {}
    total = None
    for k, (e, R) in enumerate(zip(elems, Rs)):
        cdc = pre + e
        ckey = ("mrq-fit:element", cdc, lo, hi, fine)
        try:
            tau, g = mrq_drt(cdc, f, fine)
        except Exception as ex:  # noqa
            cases.append((ckey, True, None))
            fails.append((f"mrq-fit:element:raises {type(ex).__name__}", "calculate_drt_mrq_fit", f"{cdc}: {type(ex).__name__}: {str(ex)[:120]}", hd + f"drt({cdc!r}, f, {fine})\n"))
            continue
        area = abs(trapz(g, np.log(tau)))
        err = abs(area / R - 1)
        branch = "gaussian" if ("C{" in e or abs(float(e.split("n=")[1].rstrip("})")) - 1) <= 1e-2) else "analytic"
        metrics[f"mrq-fit:element-area:{branch}"] = max(metrics.get(f"mrq-fit:element-area:{branch}", 0.0), err)
        cases.append((ckey, True, {"cdc": cdc, "num_per_decade": fine, "area": area, "R": R}))
        if not (err <= MRQ_TOL):
            fails.append((f"mrq-fit:element-area-off:{branch}", "_calculate_tau_gamma", f"{cdc}: integral of gamma over ln(tau) = {area!r} but R = {R!r} (relative {err:.3g} > {MRQ_TOL}; {fine} points/decade over 1e{lo}..1e{hi} Hz)",
                          hd + f"tau, g = drt({cdc!r}, f, {fine})\nassert abs(abs(trapz(g, np.log(tau))) / {R!r} - 1) <= {MRQ_TOL}\n"))
        total = g if total is None else total + g
    if n > 1 and total is not None:
        cdc = pre + "".join(elems)
        ckey = ("mrq-fit:ladder", cdc, lo, hi, fine)
        try:
            tau, g = mrq_drt(cdc, f, fine)
            dev = float(np.max(np.abs(g - total)) / np.max(np.abs(total)))
            metrics["mrq-fit:additivity"] = dev
            cases.append((ckey, True, None))
            if not (dev <= 1e-9):
                fails.append(("mrq-fit:ladder-not-sum-of-elements", "_calculate_tau_gamma", f"{cdc}: gamma of the ladder differs from the sum of its elements' gammas by {dev:.3g} of the maximum",
                              hd + f"tau, g = drt({cdc!r}, f, {fine})\ns = sum(drt({pre!r} + e, f, {fine})[1] for e in {elems!r})\nassert np.max(np.abs(g - s)) <= 1e-9 * np.max(np.abs(s))\n"))
        except Exception as ex:  # noqa
            cases.append((ckey, True, None))
            fails.append((f"mrq-fit:ladder:raises {type(ex).__name__}", "calculate_drt_mrq_fit", f"{cdc}: {type(ex).__name__}: {str(ex)[:120]}", hd + f"drt({cdc!r}, f, {fine})\n"))
    return cases, fails, metrics


def run_mrq_full(job):
    """the fitting path: R(RC)..(RC) data, template circuit with default values -> fit -> per-element area = fitted R"""
    import pyimpspec  # noqa
    from pyimpspec import parse_cdc, simulate_spectrum, calculate_drt
    seed, n, ppd, scale = job
    rng = np.random.default_rng(seed)
    lad = make_ladder(rng, n, "C", ppd, scale)
    f = grid(lad)
    data = simulate_spectrum(parse_cdc(lad["cdc"]), f, label="x")
    template = "R" + "(RC)" * n
    call = f"calculate_drt(data, method='mrq-fit', circuit=parse_cdc({template!r}), num_per_decade=200, num_procs=1)"
    ckey = ("mrq-fit:full", lad["cdc"], lad["lo"], lad["hi"], ppd)
    where = f"{call} on data of {lad['cdc']} ({ppd} points/decade, 1e{lad['lo']}..1e{lad['hi']} Hz)"
    try:
        r = calculate_drt(data, method="mrq-fit", circuit=parse_cdc(template), num_per_decade=200, num_procs=1)
    except Exception as ex:  # noqa
        return [(ckey, True, None)], [(f"mrq-fit:full:raises {type(ex).__name__}", "calculate_drt_mrq_fit", f"{where}: {type(ex).__name__}: {str(ex)[:160]}", head(lad) + f"r = {call}\n")], {}
    tau, g = r.get_drt_data()
    lt = np.log(tau)
    pars = []
    for par in r.circuit.get_connections()[1:]:
        v = {}
        for e in par.get_elements():
            v.update(e.get_values())
        pars.append((v["R"] * v["C"], v["R"]))
    pars.sort()
    ftau, fR = np.array([p[0] for p in pars]), np.array([p[1] for p in pars])
    fails, metrics = [], {}
    area = abs(trapz(g, lt))
    etot = abs(area / fR.sum() - 1)
    metrics["mrq-fit:full:total-area-vs-fitted-R"] = etot
    metrics["mrq-fit:full:fitted-R-vs-generating-R"] = float(np.max(np.abs(fR / np.array(lad["Rs"]) - 1)))
    check = TRAPZ_SRC + f"r = {call}\ntau, g = r.get_drt_data()\nR = sum(e.get_value('R') for p in r.circuit.get_connections()[1:] for e in p.get_elements() if 'R' in e.get_values())\nassert abs(abs(trapz(g, np.log(tau))) / R - 1) <= {MRQ_TOL}\n"
    if not (etot <= MRQ_TOL):
        fails.append(("mrq-fit:full:total-area-off", "calculate_drt_mrq_fit", f"{where}: integral {area!r} vs sum of fitted R {fR.sum()!r} (relative {etot:.3g})", head(lad) + check))
    if len(ftau) > 1 and np.min(np.diff(np.log10(ftau))) >= 1.0 or len(ftau) == 1:
        order = np.argsort(lt)
        lts, gs = lt[order], g[order]
        edges = [-np.inf] + [0.5 * (np.log(ftau[i]) + np.log(ftau[i + 1])) for i in range(len(ftau) - 1)] + [np.inf]
        worst = 0.0
        for i in range(len(ftau)):
            m = (lts >= edges[i]) & (lts <= edges[i + 1])
            worst = max(worst, abs(trapz(gs[m], lts[m]) / fR[i] - 1))
        metrics["mrq-fit:full:element-area-vs-fitted-R"] = worst
        if not (worst <= MRQ_TOL):
            fails.append(("mrq-fit:full:element-area-off", "calculate_drt_mrq_fit", f"{where}: per-element area deviates {worst:.3g} from the fitted R {list(fR)}", head(lad) + check))
    return [(ckey, True, {"cdc": lad["cdc"], "fitted_tau": list(map(float, ftau)), "fitted_R": list(map(float, fR)), "total_area_err": etot})], fails, metrics


VIEWS_SRC = '''import itertools
import numpy as np
from pyimpspec.analysis.drt.lm import LMResult
from pyimpspec.analysis.drt.peak_analysis import DRTPeak, DRTPeaks


def lm_result(taus, gammas):
    f = np.logspace(3, 0, 4)
    Z = np.ones(4, dtype=complex)
    return LMResult(time_constants=np.array(taus, dtype=float), gammas=np.array(gammas, dtype=float), frequencies=f, impedances=Z, residuals=Z * 0, pseudo_chisqr=0.0,
                    singular_values=np.ones(3))


def lm_pairs_expected(taus, gammas, threshold):
    rc = [(t, g) for t, g in zip(taus, gammas) if g >= 0]
    rl = [(t, abs(g)) for t, g in zip(taus, gammas) if g < 0]
    out = []
    for part in (rc, rl):
        top = max((g for _, g in part), default=0.0)
        out.append(sorted((t, g) for t, g in part if top > 0 and g / top > threshold and g > 0))
    return out


def peaks_object():
    ps = [DRTPeak(position=0.2 + 0.3 * k, height=0.5 + 0.2 * k, alpha=0.0, sigma=0.05, x_offset=-3.0, x_scale=4.0, y_offset=0.0, y_scale=100.0 * (k + 1)) for k in range(3)]
    return ps, DRTPeaks(time_constants=np.logspace(-3, 1, 200), peaks=ps, suffix="")
'''


def run_views(job):
    """result VIEWS on hand-made result objects (no fitting): LMResult.get_peaks keeps every (tau, gamma) pair together for every
    threshold; each row of DRTPeaks.to_peaks_dataframe holds position, height and area of ONE peak, for every subset of peaks"""
    env = {}
    exec(VIEWS_SRC, env)
    cases, fails = [], []
    lm_cases = [([1e-3, 1.0, 1e-1, 10.0, 1e-2], [5.0, 1.0, 3.0, -2.0, -4.0]), ([3.0, 1e-2, 0.5], [0.2, 4.0, 1.0]), ([1e-1, 2.0, 1e-3, 30.0], [2.0, -1.0, 0.1, -3.0])]
    for (taus, gammas), thr in itertools.product(lm_cases, (0.0, 0.1, 0.3, 0.6)):
        key = ("views", "lm-get_peaks", tuple(taus), thr)
        cases.append((key, True, None))
        want = env["lm_pairs_expected"](taus, gammas, thr)
        repro = VIEWS_SRC + f"\nr = lm_result({taus!r}, {gammas!r})\nt1, g1, t2, g2 = r.get_peaks(threshold={thr!r})\ngot = [sorted(zip(map(float, t1), map(float, g1))), sorted(zip(map(float, t2), map(float, g2)))]\nassert got == lm_pairs_expected({taus!r}, {gammas!r}, {thr!r}), got\n"
        try:
            t1, g1, t2, g2 = env["lm_result"](taus, gammas).get_peaks(threshold=thr)
            got = [sorted(zip(map(float, t1), map(float, g1))), sorted(zip(map(float, t2), map(float, g2)))]
        except Exception as ex:  # noqa
            got = f"{type(ex).__name__}: {ex}"
        if got != want:
            fails.append(("views:LMResult.get_peaks:pairs-differ", "LMResult.get_peaks", f"time constants {taus}, gammas {gammas}, threshold {thr}: get_peaks gives the (tau, gamma) pairs {got}, the result holds {want}", repro))
    ps, peaks = env["peaks_object"]()
    rows_all = None
    for k in range(0, 4):
        for sub in itertools.combinations(range(3), k):
            key = ("views", "peaks-dataframe", sub)
            cases.append((key, True, None))
            idx = list(sub) if sub else None
            repro = VIEWS_SRC + f"\nps, peaks = peaks_object()\nfull = peaks.to_peaks_dataframe()\nrows = [tuple(map(float, r)) for r in full.to_numpy()]\nsub = peaks.to_peaks_dataframe(peak_indices={idx!r})\nwant = sorted(rows[i] for i in {(list(sub) if sub else [0, 1, 2])!r})\nassert sorted(tuple(map(float, r)) for r in sub.to_numpy()) == want, (sub, want)\nassert all(abs(rows[i][2] - float(peaks.get_peak_area(i))) < 1e-9 for i in range(3))\n"
            try:
                if rows_all is None:
                    rows_all = [tuple(map(float, r)) for r in peaks.to_peaks_dataframe().to_numpy()]
                    areas = [float(peaks.get_peak_area(i)) for i in range(3)]
                    pos = [10 ** (p.position * p.x_scale + p.x_offset) for p in ps]
                    if any(abs(rows_all[i][2] - areas[i]) > 1e-9 or abs(rows_all[i][0] / pos[i] - 1) > 1e-12 for i in range(3)):
                        fails.append(("views:DRTPeaks.to_peaks_dataframe:row-mixes-peaks", "DRTPeaks.to_peaks_dataframe", f"full table {rows_all}: position / area of row i are not those of peak i ({pos}, {areas})", repro))
                got = sorted(tuple(map(float, r)) for r in peaks.to_peaks_dataframe(peak_indices=idx).to_numpy())
            except Exception as ex:  # noqa
                got = f"{type(ex).__name__}: {ex}"
            want = sorted(rows_all[i] for i in (sub if sub else range(3))) if rows_all else None
            if got != want:
                fails.append(("views:DRTPeaks.to_peaks_dataframe:row-mixes-peaks", "DRTPeaks.to_peaks_dataframe", f"peak_indices={idx}: rows {got}, but the rows of those peaks in the full table are {want}", repro))
    return cases, fails, {}



# ------------------------------------------------------------------------------------------------------------- main
def dispatch(item):
    fn, job = item
    return fn, globals()[fn](job)


def main(a):
    quick = a.tier == "quick"
    rng = np.random.default_rng(a.seed)
    ppds = [5, 10, 20] if quick else [5, 8, 10, 15, 20]
    scales = [1e-2, 1.0, 1e2] if quick else [1e-2, 1e-1, 1.0, 1e1, 1e2]
    reps = 2 if quick else 10
    jobs = []

    def seed(*ints):              # tr-nnls / lm cases: derived from the case's coordinates, so quick is a subset of thorough
        if not ints:
            return int(rng.integers(2 ** 31))
        return int(np.random.SeedSequence([a.seed, *ints]).generate_state(1)[0])

    def dec(x):
        return int(round(np.log10(x))) + 10
    for kind in "CQ":
        for ppd in ppds:
            for n in (1, 2, 3, 4):
                for sc in scales:
                    for k in range(reps):
                        jobs.append(("run_trnnls", (seed(0, "CQ".index(kind), ppd, n, dec(sc), k), n, kind, ppd, sc)))
    for ppd in ppds:
        for n in (1, 2, 3, 4):
            for sc in scales:
                for k in range(reps * 2):
                    jobs.append(("run_lm", (seed(1, ppd, n, dec(sc), k), n, ppd, sc)))
    factors = [1e-3, 1e3] if quick else [1e-3, 0.5, 7.0, 1e3]
    for what in ("Z", "f"):
        for c in factors:
            for n in (1, 2, 3, 4):
                for ppd in (ppds if not quick else [5, 10]):
                    for _ in range(1 if quick else 3):
                        sc = float(rng.choice(scales))
                        for mode in MODES:
                            jobs.append(("run_scaling", (seed(), n, str(rng.choice(["C", "Q"])), ppd, sc, "tr-nnls", mode, c, what)))
                        jobs.append(("run_scaling", (seed(), n, "C", ppd, sc, "lm", "", c, what)))
    for n in (1, 2, 3, 4):
        for fine in ([100] if quick else [100, 200, 400]):
            for r0 in (True, False):
                for _ in range(2 if quick else 8):
                    jobs.append(("run_mrq_analytic", (seed(), n, fine, r0)))
    full = [(1, 10), (2, 10)] if quick else [(n, p) for n in (1, 2, 3) for p in (5, 10, 20)] * 2
    full_jobs = [("run_mrq_full", (seed(), n, ppd, float(rng.choice(scales)))) for n, ppd in full]
    jobs = full_jobs + jobs + [("run_views", None)]           # the slow ones first

    res = Result("C13", f"{len([j for j in jobs if j[0] == 'run_trnnls'])} ladders R0 + 1..4 (RC)|(RQ, n 0.9..0.99), time constants >= {MARGIN} decades inside the window and >= {SEP} decades apart, "
                 f"R_k within one decade, scale {scales[0]:g}..{scales[-1]:g}, {ppds} points/decade over 7 or 9 decades x tr-nnls {{real, imaginary}} x lambda {{1e-3, auto -1, auto -2}}; "
                 f"{len([j for j in jobs if j[0] == 'run_lm'])} RC ladders without series R for lm; {len([j for j in jobs if j[0] == 'run_scaling'])} scaling pairs (Z or f times {factors}); "
                 f"{len([j for j in jobs if j[0] == 'run_mrq_analytic'])} m(RQ)fit element sets (n in 0.5..1, 100..400 points/decade, 24-decade window) and {len(full_jobs)} full m(RQ)fit runs",
                 "seeded random ladders placed constructively inside the admissible region, full product with methods/modes/lambda options; one case = (circuit, grid, method options); "
                 "a case is non-trivial when the method returned a result that was compared with the generating (tau_k, R_k); peak clauses for (RC) ladders only")
    maxima, counts, rq_info = {}, {}, {}
    with mp.get_context("fork").Pool(16) as pool:
        for fn, (cases, fails, metrics) in pool.imap(dispatch, jobs, chunksize=1):
            for key, nontrivial, sample in cases:
                res.case(key, nontrivial, sample)
            for key, fun, what, repro in fails:
                res.fail(key, fun, what, repro)
            for k, v in metrics.items():
                if k.startswith("count:"):
                    counts[k[6:]] = counts.get(k[6:], 0) + int(v)
                elif k.startswith("info:rq-peaks:"):
                    rq_info[k[14:]] = max(rq_info.get(k[14:], 0.0), float(v))
                else:
                    maxima[k] = max(maxima.get(k, 0.0), float(v))
    res.part("measured_maxima", **{k: maxima[k] for k in sorted(maxima)})
    res.part("rq_peaks_info", note="(RQ) ladders: worst distance (grid steps) from a generating time constant to the nearest returned peak, and largest number of "
             "significant peaks farther away than the RC tolerance; information only, not a contract", **{k: rq_info[k] for k in sorted(rq_info)})
    res.part("aborts_not_counted", note="calculate_drt raised RuntimeError 'Maximum number of iterations reached' (scipy nnls); owned by C18, counted as trivial here",
             **{k: counts[k] for k in sorted(counts)})
    res.part("thresholds", significant_peak=SIGNIFICANT, negligible_pole=NEGLIGIBLE_POLE, **_FROZEN)
    res.part("documented_maxima", **MEASURED)
    return res


if __name__ == "__main__":
    guarded(main)
