"""C20 bounded layer (Layer R): for every circuit of the enumerated scope that can be simulated, the symbolic expression
(with and without substituted values), the LaTeX form, the CircuiTikZ source, the stack form and (sampled) the schemdraw
drawing must be produced; free variables are exactly one per (element, parameter) unsubstituted and at most `f`
substituted; CircuiTikZ has one component per element of the connections named as the circuit names it, with balanced
begin/end; to_stack has balanced brackets and one entry per element.  BOUNDED - never counted as proved."""
import collections
import multiprocessing as mp
import re
import sys

import numpy as np

sys.path.insert(0, __file__.rsplit("/bounded/", 1)[0])
from bounded.common import Result, guarded  # noqa: E402
from bounded import circuits_enum as ce  # noqa: E402
from bounded.circuits_enum import E, S, P, INF  # noqa: E402

CTX = {}
BEGIN_END = re.compile(r"\\(begin|end)\{([A-Za-z*]+)\}")


def _mix(i, p, k):
    return ce.mix(i, p, k, 20)


# ------------------------------------------------------------------------------------------------- alphabet
def tlm_variants():
    r5, c5 = E("R", {"R": 5.0}), E("C", {"C": 2e-5}, "c_b_1")
    return [
        E("Tlm"),
        E("Tlm", {"L": 0.9}, "tl_2_m"),
        E("Tlm", subs=(("Z_B", S()),)),                                                   # short inner boundary
        E("Tlm", subs=(("Z_B", S(P(r5, c5))),)),
        E("Tlm", {"L": 0.2}, subs=(("X_2", S(E("R", {"R": 2.0}))),)),                   # both phases resistive, open boundaries
        E("Tlm", {"L": 0.2}, subs=(("X_2", S(E("R", {"R": 2.0}, "x_2"))), ("Z_A", S(r5)), ("Z_B", S(c5)))),
        E("Tlm", subs=(("Z_A", S(r5)), ("Z_B", S(E("R", {"R": 7.0})))),),
        E("Tlm", subs=(("Z_B", S(E("R", {"R": INF}))),)),                               # open by value
        E("Tlm", subs=(("Z_B", S(E("R", {"R": 0.0}))),)),                               # short by value
        E("Tlm", subs=(("X_2", S(E("R", {"R": 0.0}))),)),
        E("Tlm", subs=(("Z_A", S(E("Tlm", subs=(("Z_B", S(E("R", {"R": 4.0}))),)))), ("Z_B", S(r5)))),   # container in a container
    ]


def register_alphabets():
    tv = tlm_variants()
    rs = [lambda i, p: E("R", {"R": 100.0 * (p + 1)}), lambda i, p: E("R", {"R": 33.0 + p}, ce.pool_label(i, p, 20)), lambda i, p: E("R", {"R": 10.0 + p}, ce.pool_label(i, p, 21))]
    xs = [lambda i, p: E("C", {"C": 1e-6 * (p + 1)}), lambda i, p: E("L", {"L": 1e-5 * (p + 1)}), lambda i, p: E("Q", {"Y": 1e-5, "n": 0.8}, ce.pool_label(i, p, 22)),
          lambda i, p: E("W", {"Y": 1e-3, "n": 0.5}), lambda i, p: E("C", {"C": 2e-6}, ce.pool_label(i, p, 23))]
    sp = [lambda i, p: E("R", {"R": 0.0}), lambda i, p: E("R", {"R": INF})]
    light = [t for k, t in enumerate(tv) if k not in (4, 5, 10)]      # the general (two resistive phases) and nested forms are slow in sympy: contexts part only
    ce.ALPHABETS["c20"] = [lambda i, p: rs[_mix(i, p, len(rs))](i, p), lambda i, p: xs[_mix(i, p, len(xs))](i, p),
                           lambda i, p: sp[_mix(i, p, 2)](i, p), lambda i, p: light[_mix(i, p, len(light))]]
    ce.ALPHABETS["c20-plain"] = [ce.ALPHABETS["c20"][0], ce.ALPHABETS["c20"][1]]
    return tv


# ------------------------------------------------------------------------------------------------- evaluation
EXPLAINS = {
    ("to_circuitikz", "ValueError"): ["one-branch-parallel"],
    ("to_sympy", "TypeError"): ["subcircuit-open-by-value"],
    ("to_sympy(substitute=True)", "TypeError"): ["subcircuit-open-by-value"],
    ("to_latex", "TypeError"): ["subcircuit-open-by-value"],
}


def tag(feats, export, kind):
    for ft in EXPLAINS.get((export, kind), []):
        if ft in feats:
            return ft
    if kind == "variable missing for a parameter" and "subcircuit-short-by-value" in feats:
        return "subcircuit-short-by-value"
    return "+".join(sorted(feats)) or "plain"


WALK_SRC = ("from pyimpspec.circuit.base import Connection, Container\n"
            "def walk(node, deep=True):\n    out = []\n    for ch in node:\n        if isinstance(ch, Connection): out += walk(ch, deep)\n        else:\n            out.append(ch)\n"
            "            if deep and isinstance(ch, Container):\n                for s in ch.get_subcircuits().values():\n                    if s is not None: out += walk(s, deep)\n    return out\n")

REPRO = {
    "to_sympy": ("run = c.generate_element_identifiers(running=True); els = walk(c._elements)\nex = c.to_sympy()\n"
                 "want = {f'{k}_{e.get_label() or run[e]}' for e in els for k in e.get_values()}\nfree = {str(s) for s in ex.free_symbols} - {'f'}\nassert free == want, (sorted(free ^ want))\n"),
    "to_sympy(substitute=True)": "ex = c.to_sympy(substitute=True)\nassert {str(s) for s in ex.free_symbols} <= {'f'}, ex.free_symbols\n",
    "to_latex": "s = c.to_latex()\nassert isinstance(s, str) and s.startswith('Z = ') and len(s) > 4\n",
    "to_circuitikz": ("import re, collections\nsrc = c.to_circuitikz()\ntop = walk(c._elements, deep=False)\ncnt = c.generate_element_identifiers(running=False)\n"
                      "KIND = {'R': 'R', 'C': 'capacitor', 'L': 'L', 'La': 'L', 'Q': 'cpe'}\n"
                      "got = collections.Counter(re.findall(r'to\\[([A-Za-z]+)=(\\$.*?\\$)\\]', src))\n"
                      "want = collections.Counter((KIND.get(e.get_symbol(), 'generic'), '$' + e.get_symbol() + '_{\\\\rm ' + str(e.get_label() or cnt[e]) + '}$') for e in top)\n"
                      "assert sum(got.values()) == len(top), (sum(got.values()), len(top))\n"
                      "assert got == want, (sorted((got - want).elements()), sorted((want - got).elements()))\n"
                      "assert sorted(c.get_element_name(e) for e in top) == sorted(e.get_symbol() + '_' + str(e.get_label() or cnt[e]) for e in top)\n"
                      "stack = []\nfor kind, env in re.findall(r'\\\\(begin|end)\\{([A-Za-z*]+)\\}', src):\n    if kind == 'begin': stack.append(env)\n    else: assert stack and stack.pop() == env\n"
                      "assert not stack and src.count('\\\\begin{circuitikz}') == 1\n"),
    "to_stack": ("st = c.to_stack(); top = walk(c._elements, deep=False)\nopen_ = []\nfor text, obj in st:\n    if text in ('[', '('): open_.append((text, obj))\n"
                 "    elif text in (']', ')'):\n        t, o = open_.pop(); assert (t, text) in (('[', ']'), ('(', ')')) and o is obj\nassert not open_\n"
                 "ents = [o for t, o in st if t not in ('[', ']', '(', ')')]\nassert len(ents) == len(top) and all(a is b for a, b in zip(ents, top))\n"),
    "to_drawing(label options)": ("top = walk(c._elements, deep=False); cnt = c.generate_element_identifiers(running=False)\n"
                                  "d = c.to_drawing(custom_labels={top[0]: '$x_0$'})\ngot = sorted(l.label for x in d.elements for l in getattr(x, '_userlabels', []) if l.label)\n"
                                  "want = sorted(['$x_0$'] + ['$' + e.get_symbol() + '_{\\\\rm ' + str(e.get_label() or cnt[e]) + '}$' for e in top[1:]])\nassert got == want, (got, want)\n"
                                  "c.to_drawing(hide_labels=True)\n"),
    "to_circuitikz(label options)": ("top = walk(c._elements, deep=False)\nsrc = c.to_circuitikz(custom_labels={top[0]: 'x_0'}); assert src.count('=$x_0$]') == 1, src\n"),
    "to_drawing": ("d = c.to_drawing(); top = walk(c._elements, deep=False); cnt = c.generate_element_identifiers(running=False)\n"
                   "got = sorted(l.label for x in d.elements for l in getattr(x, '_userlabels', []) if l.label)\n"
                   "want = sorted('$' + e.get_symbol() + '_{\\\\rm ' + str(e.get_label() or cnt[e]) + '}$' for e in top)\nassert got == want, (got, want)\n"),
}


def repro_for(spec, export):
    return ce.REPRO_HEAD + WALK_SRC + f"c = Circuit({ce.to_source(spec)})\nc.get_impedances({CTX['FV']!r})   # can be simulated\n" + REPRO[export]


FUNCTION = {"to_sympy": "Circuit.to_sympy", "to_sympy(substitute=True)": "Circuit.to_sympy", "to_latex": "Circuit.to_latex", "to_circuitikz": "to_circuitikz",
            "to_stack": "Circuit.to_stack", "to_drawing": "to_drawing", "to_drawing(label options)": "to_drawing", "to_circuitikz(label options)": "to_circuitikz"}


def eval_spec(spec, part, out):
    cnt_ = out["counters"]

    def bump(k):
        cnt_[k] = cnt_.get(k, 0) + 1
    c = ce.circuit(spec)
    try:
        c.get_impedances(CTX["FV"])
    except Exception:  # noqa   not a circuit that can be simulated: outside the property
        bump("cannot-be-simulated")
        return False
    feats = ce.features(spec) - {"inf-value", "zero-value"} | ({"open-or-short-leaf"} if ce.features(spec) & {"inf-value", "zero-value"} else set())
    size = ce.n_leaves(spec)
    els = ce.walk(c)
    top = ce.walk(c, into_containers=False)
    labels = [e.get_label() for e in els if e.get_label()]
    unique = len(labels) == len(set(labels))

    def fail(export, kind, what, function=None):
        tg = tag(feats, export, kind.replace("raises ", ""))
        key = f"{export}:{kind}" if kind == "label-text-wrong" else f"{export}:{tg}:{kind}"     # the label text does not depend on the circuit's features
        out["fails"].append((size, key, function or FUNCTION[export], f"circuit {ce.hand_cdc(spec)}: {what}", repro_for(spec, export)))

    # 1. symbolic expression, one variable per (element, parameter)
    try:
        ex = c.to_sympy()
    except Exception as exn:  # noqa
        ex = None
        fail("to_sympy", f"raises {type(exn).__name__}", repr(exn), "TransmissionLineModel._sympy" if "container" in feats and isinstance(exn, TypeError) else None)
    if ex is not None and unique:
        run = c.generate_element_identifiers(running=True)
        orphans = [e for e in els if e not in run]
        if orphans:
            # an element of the circuit (possibly inside a container's sub-circuit) that the circuit does not number: it cannot get its own variables
            fail("to_sympy", "element without identifier", f"{len(orphans)} element(s) reachable through sub-circuits have no running identifier: {[type(e).__name__ for e in orphans][:4]}", "Connection.generate_element_identifiers")
        want = {f"{k}_{e.get_label() or run[e]}" for e in els if e in run for k in e.get_values()}
        free = {str(s) for s in ex.free_symbols} - {"f"}
        if want - free:
            fail("to_sympy", "variable missing for a parameter", f"no variable for {sorted(want - free)}", "TransmissionLineModel._sympy" if "container" in feats else None)
        elif free - want:
            fail("to_sympy", "variable that belongs to no parameter", f"{sorted(free - want)}")
    # 2. substituted: only f may remain
    try:
        ex2 = c.to_sympy(substitute=True)
        left = {str(s) for s in ex2.free_symbols} - {"f"}
        if left:
            fail("to_sympy(substitute=True)", "free variables other than f", f"{sorted(left)}")
    except Exception as exn:  # noqa
        fail("to_sympy(substitute=True)", f"raises {type(exn).__name__}", repr(exn))
    # 3. LaTeX
    try:
        s = c.to_latex()
        if not (isinstance(s, str) and s.startswith("Z = ") and len(s) > 4):
            fail("to_latex", "malformed", repr(s)[:80])
    except Exception as exn:  # noqa
        fail("to_latex", f"raises {type(exn).__name__}", repr(exn))
    # 4. CircuiTikZ
    try:
        src = c.to_circuitikz()
    except Exception as exn:  # noqa
        src = None
        fail("to_circuitikz", f"raises {type(exn).__name__}", repr(exn))
    if src is not None:
        # per element: (component kind, exact label text); the text is derived here from (symbol, WHOLE label or per-type count)
        cnt = c.generate_element_identifiers(running=False)
        comps = collections.Counter(ce.TIKZ_COMPONENT.findall(src))
        wantc = collections.Counter((ce.TIKZ_KIND.get(e.get_symbol(), "generic"), ce.diagram_label(e.get_symbol(), e.get_label() or cnt[e])) for e in top)
        gt, wt = collections.Counter(t for _, t in comps.elements()), collections.Counter(t for _, t in wantc.elements())
        if sum(comps.values()) != len(top):
            fail("to_circuitikz", "component count differs from element count", f"{sum(comps.values())} components for {len(top)} elements")
        elif gt != wt:
            fail("to_circuitikz", "label-text-wrong", f"got {sorted((gt - wt).elements())}, required {sorted((wt - gt).elements())}")
        elif comps != wantc:
            fail("to_circuitikz", "component kind differs from element type", f"{sorted((comps - wantc).elements())}")
        elif sorted(ce.diagram_label(*c.get_element_name(e).split("_", 1)) for e in top) != sorted(wt.elements()):
            fail("to_circuitikz", "component names differ from element names", f"{sorted(wt.elements())} vs {[c.get_element_name(e) for e in top]}")
        stack, ok = [], True
        for kind, env in BEGIN_END.findall(src):
            if kind == "begin":
                stack.append(env)
            elif not stack or stack.pop() != env:
                ok = False
        if stack or not ok or src.count(r"\begin{circuitikz}") != 1:
            fail("to_circuitikz", "begin/end not balanced", src[:80])
    # 5. stack form
    try:
        st = c.to_stack()
        open_, ok = [], True
        for text, obj in st:
            if text in ("[", "("):
                open_.append((text, obj))
            elif text in ("]", ")"):
                if not open_:
                    ok = False
                    break
                t, o = open_.pop()
                if (t, text) not in (("[", "]"), ("(", ")")) or o is not obj:
                    ok = False
                    break
        ents = [o for t, o in st if t not in ("[", "]", "(", ")")]
        if not ok or open_:
            fail("to_stack", "brackets not balanced", str([t for t, _ in st]))
        elif len(ents) != len(top) or any(a is not b for a, b in zip(ents, top)):
            fail("to_stack", "entries differ from elements", str([t for t, _ in st]))
    except Exception as exn:  # noqa
        fail("to_stack", f"raises {type(exn).__name__}", repr(exn))
    # 6. schemdraw drawing (slow: sampled)
    if ce.digest(spec) % CTX["DRAW_MOD"] == 0 or part in ("all-element-types", "label-text"):
        try:
            d = c.to_drawing()
            cnt = c.generate_element_identifiers(running=False)
            got = sorted(l.label for x in d.elements for l in getattr(x, "_userlabels", []) if l.label)
            wantl = sorted(ce.diagram_label(e.get_symbol(), e.get_label() or cnt[e]) for e in top)
            if len(got) != len(top):
                fail("to_drawing", "labelled component count differs from element count", f"{len(got)} vs {len(top)}")
            elif got != wantl:
                fail("to_drawing", "label-text-wrong", f"{got} vs {wantl}")
        except Exception as exn:  # noqa
            fail("to_drawing", f"raises {type(exn).__name__}", repr(exn))
        # the label options: custom labels for SOME elements (the others keep their generated names), hidden labels
        if len(top) >= 2:
            cnt = c.generate_element_identifiers(running=False)
            try:
                d = c.to_drawing(custom_labels={top[0]: "$x_0$"})
                got = sorted(l.label for x in d.elements for l in getattr(x, "_userlabels", []) if l.label)
                wantl = sorted(["$x_0$"] + [ce.diagram_label(e.get_symbol(), e.get_label() or cnt[e]) for e in top[1:]])
                if got != wantl:
                    fail("to_drawing(label options)", "label-text-wrong", f"custom label for one element: {got} vs {wantl}")
                d = c.to_drawing(hide_labels=True)
                if [l.label for x in d.elements for l in getattr(x, "_userlabels", []) if l.label]:
                    fail("to_drawing(label options)", "labels not hidden", "")
            except Exception as exn:  # noqa
                fail("to_drawing(label options)", f"raises {type(exn).__name__}", repr(exn))
            if "one-branch-parallel" not in feats:          # (a one-branch parallel makes to_circuitikz raise: recorded finding)
                try:
                    src = c.to_circuitikz(custom_labels={top[0]: "x_0"})        # CircuiTikZ labels are put into math mode by the routine
                    if src.count("=$x_0$]") != 1 or src.count("to[") < len(top):
                        fail("to_circuitikz(label options)", "custom label not used exactly once", src[:200])
                except Exception as exn:  # noqa
                    fail("to_circuitikz(label options)", f"raises {type(exn).__name__}", repr(exn))
        bump("drawing")
    return True


def run_job(job):
    out = {"fails": [], "counters": {}, "n": 0, "digests": [], "samples": []}
    part = job[0]
    for spec in ce.job_specs(job):
        nontrivial = eval_spec(spec, part, out)
        out["n"] += 1
        if nontrivial:
            out["digests"].append(ce.digest(spec))
            if not out["samples"]:
                out["samples"].append({"part": part, "circuit": ce.hand_cdc(spec), "elements": len(ce.walk(ce.circuit(spec)))})
    best = {}
    for rec in out["fails"]:
        if rec[1] not in best or rec[0] < best[rec[1]][0]:
            best[rec[1]] = rec
    out["fails"] = list(best.values())
    return part, out


# ------------------------------------------------------------------------------------------------- scope
def make_jobs(a, tv):
    quick = a.tier == "quick"
    jobs = []
    u = 1 if quick else 2
    for n in (1, 2, 3):
        if quick and n == 3:
            s30 = ce.shapes(3, 0)
            jobs += ce.product_jobs("exhaustive<=3", s30, "c20", block=64)
            jobs += ce.sample_jobs("3-leaves:one-child:sampled", [s for s in ce.shapes(3, 1) if s not in set(s30)], "c20", 32, a.seed + 20, group=2)
        elif not quick and n == 3:
            s31 = ce.shapes(3, 1)
            jobs += ce.product_jobs("exhaustive<=3", s31, "c20", block=64)
            jobs += ce.sample_jobs("3-leaves:two-one-child:sampled", [s for s in ce.shapes(3, 2) if s not in set(s31)], "c20", 16, a.seed + 20, group=2)
        else:
            jobs += ce.product_jobs("exhaustive<=3", ce.shapes(n, u), "c20", block=64)
    s40 = ce.shapes(4, 0)
    s41 = [s for s in ce.shapes(4, 1) if s not in set(s40)]
    if quick:
        jobs += ce.product_jobs("4-leaves:plain", s40, "c20-plain", block=64)
        jobs += ce.sample_jobs("4-leaves:sampled", s40, "c20", 6, a.seed + 21, group=4)
        jobs += ce.sample_jobs("4-leaves:sampled", s41, "c20", 1, a.seed + 22, group=40)
        bound = ("every topology with <= 2 leaves and <= 1 one-child connection and every 3-leaf topology without x 4-class alphabet exhaustively; the 96 3-leaf topologies with one "
                 "one-child connection x 32 sampled assignments; every 4-leaf topology without one-child connections x {R, reactive} "
                 "exhaustively; 4-leaf topologies x 4-class alphabet sampled (6 resp. 1 per topology)")
    else:
        jobs += ce.product_jobs("4-leaves:full", s40, "c20", block=64)
        jobs += ce.sample_jobs("4-leaves:sampled", s41, "c20", 6, a.seed + 22, group=8)
        s50 = ce.shapes(5, 0)
        jobs += ce.product_jobs("5-leaves:plain", s50, "c20-plain", block=32)
        jobs += ce.sample_jobs("5-leaves:sampled", s50, "c20", 6, a.seed + 23, group=8)
        bound = ("every topology with <= 2 leaves and <= 2 one-child connections, every 3-leaf topology with <= 1 and every 4-leaf topology without x 4-class alphabet, every 5-leaf topology without one-child connections x "
                 "{R, reactive} exhaustively; the 560 3-leaf topologies with two one-child connections x 16 sampled assignments; 4-leaf topologies with a one-child connection and 5-leaf "
                 "topologies x 4-class alphabet sampled (6 per topology)")
    # every registered element type and every container variant, alone and in small contexts
    r0, c0 = E("R", {"R": 50.0}, "s"), E("C", {"C": 1e-5})
    leaves = [E(sym) for sym in sorted(ce.classes())] + [E(sym, label="lb") for sym in sorted(ce.classes())] + tv
    ctxs = [lambda x: x, lambda x: S(x), lambda x: P(x, c0), lambda x: S(r0, x), lambda x: S(r0, P(x, c0)), lambda x: P(S(x, r0), c0), lambda x: P(x, x)]
    if not quick:
        ctxs += [lambda x: P(P(x, r0), c0), lambda x: S(S(x), r0), lambda x: P(x), lambda x: S(P(r0, c0), P(x, c0)), lambda x: P(r0, S(c0, P(x, r0)))]
    specs = [ctx(x) for x in leaves for ctx in ctxs]
    for i in range(0, len(specs), 12):
        jobs.append(("all-element-types", "list", tuple(specs[i:i + 12])))
    # label text: every pool label (underscores / digits in several positions) on R, C, L, Q, W, Tlm - alone and mixed with unlabelled and
    # differently labelled elements of the same type; CircuiTikZ and schemdraw text compared per element with `$<symbol>_{\\rm <whole label>}$`
    lt = ce.label_text_specs()
    for i in range(0, len(lt), 8):
        jobs.append(("label-text", "list", tuple(lt[i:i + 8])))
    # larger random circuits
    rng = np.random.default_rng(a.seed + 9)
    n_rand = 150 if quick else 1000
    mk = ce.ALPHABETS["c20"] + ce.ALPHABETS["c20-plain"] * 2
    rand = []
    for i in range(n_rand):
        n = int(rng.integers(6, 11 if quick else 15))
        rand.append(ce.fill(ce.random_shape(rng, n, 0.05), [mk[int(rng.integers(0, len(mk)))](i, p) for p in range(n)]))
    for i in range(0, len(rand), 10):
        jobs.append(("random-large", "list", tuple(rand[i:i + 10])))
    return jobs, bound, n_rand, len(leaves), len(ctxs)


def main(a):
    import pyimpspec  # noqa
    ce.check_tlm_defaults()
    tv = register_alphabets()
    CTX["FV"] = [1e-6, 3.7, 1e9]
    CTX["DRAW_MOD"] = 40 if a.tier == "quick" else 60
    jobs, bound, n_rand, n_leaf, n_ctx = make_jobs(a, tv)
    res = Result("C20", f"{bound}; alphabet classes = R (plain / labelled from {ce.LABEL_POOL}: underscores and digits in several positions), reactive (C, L, Q, W, labelled from the same pool or not), open-or-short leaf (R=inf / R=0), Tlm container "
                 f"({len(tv)} variants: default, labelled, short / open-by-value / short-by-value / nested sub-circuits, two resistive phases, container in container; the last three kinds only in the contexts part); all {len(ce.classes())} registered element "
                 f"types (plain and labelled) and all container variants in {n_ctx} contexts; every pool label on R, C, L, Q, W, Tlm alone and mixed with unlabelled / other-labelled elements of the same type (exact CircuiTikZ and schemdraw label text); {n_rand} random circuits with 6..{10 if a.tier == 'quick' else 14} leaves; to_drawing on 1/{CTX['DRAW_MOD']} of the cases "
                 "and on every element type; only circuits whose get_impedances succeeds at 1e-6, 3.7 and 1e9 Hz are judged",
                 "shapes = ordered S/P trees incl. same-kind nesting and one-child connections; leaves = cartesian power of the alphabet (variant inside a class chosen by the case index); a case = one "
                 "circuit object, non-trivial when it can be simulated; checked: to_sympy variables == one per (element, parameter) over an own traversal, substituted variables <= {f}, to_latex, "
                 "CircuiTikZ component count / kind / exact label text per element / names / begin-end, to_stack bracket discipline and entries, schemdraw component count")
    order = np.random.default_rng(a.seed).permutation(len(jobs))
    allf = []
    with mp.get_context("fork").Pool(16) as pool:
        for part, out in pool.imap_unordered(run_job, [jobs[i] for i in order]):
            for dg in out["digests"]:
                res.case(dg, True)
            for _ in range(out["n"] - len(out["digests"])):
                res.case(None, False)          # outside the property's quantifier (reference undefined / cannot be simulated)
            p = res.parts.setdefault(part, {"cases": 0})
            p["cases"] += out["n"]
            for k, v in out["counters"].items():
                p[k] = p.get(k, 0) + v
            if len(res.samples) < 12 and out["samples"] and not any(s["part"] == part for s in res.samples):
                res.samples += out["samples"]
            allf += out["fails"]
    for size, key, fn, what, repro in sorted(allf, key=lambda r: (r[0], r[1], len(r[3]))):
        res.fail(key, fn, what, repro)
    return res


if __name__ == "__main__":
    guarded(main)
