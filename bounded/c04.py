"""C04 bounded layer (Layer R): totality of pyimpspec.parse_cdc.  Every sequence of up to N lexical atoms, grammar-derived
valid codes with all their single-character mutations, and deeply nested inputs: parse_cdc terminates and either returns a
Circuit or raises a parsing/tokenizing error or ValueError; every accepted string denotes a well-formed circuit.
BOUNDED - never counted as proved."""
import itertools
import multiprocessing as mp
import os
import re
import signal
import sys
import traceback

sys.path.insert(0, __file__.rsplit("/bounded/", 1)[0])
from bounded.common import Result, guarded  # noqa: E402
from bounded import c03_tree as T  # noqa: E402

ATOMS = ["R", "C", "L", "Q", "W", "Tlm", "[", "]", "(", ")", "{", "}", "=", ",", ":", "/", "%", "!", "-",
         "1", "1e3", "-2.5", "1e999", "inf", "open", "short", "zero", "F", "V", "X_1", "lbl", " "]
CHARS = sorted(set("".join(ATOMS)))
TIMEOUT = 10.0            # seconds per input
PROBE_F = (1.0, 1e3)
INF = float("inf")


class Timeout(BaseException):
    pass


def _alarm(signum, frame):
    raise Timeout()


def innermost_frame(ex):
    """(file, function, Class.function) of the innermost frame inside the pyimpspec package"""
    where, seen = ("?", "?", "?"), {}
    for frame, _ in traceback.walk_tb(ex.__traceback__):
        filename = frame.f_code.co_filename
        if "pyimpspec" in filename.replace("\\", "/").split("/"):
            owner = frame.f_locals.get("self")
            name = frame.f_code.co_name
            where = (os.path.basename(filename), name, (type(owner).__name__ + "." if owner is not None else "") + name)
            seen[where] = seen.get(where, 0) + 1
    if isinstance(ex, RecursionError) and seen:
        # the innermost frame of a recursion overflow is arbitrary: name the recursive function of the construct that nests
        # (sub-circuits before bracketed connections), otherwise the function that recurses most (ties: alphabetical)
        ranked = sorted(seen, key=lambda w: (-seen[w], w))
        for name in ("subcircuit", "connection"):
            hits = [w for w in ranked if w[1] == name and seen[w] > 10]
            if hits:
                return hits[0]
        where = ranked[0]
    return where


TOKEN_CLASSES = {"LBracket", "RBracket", "LParen", "RParen", "LCurly", "RCurly", "Equals", "ForwardSlash", "Percent", "Comma", "Colon", "Exclamation", "Identifier", "Label", "Number", "FixedNumber"}


def discriminator(ex):
    """separates different root causes that surface at the same raise site"""
    m = re.search(r"instead of \w+=(\w+)", str(ex))
    if m:
        if m.group(1) in TOKEN_CLASSES:
            return ":token-left-on-the-stack"
        if m.group(1) in ("Series", "Parallel"):
            return ":connection-in-bare-element-list"
    return ""


def allowed():
    from pyimpspec.exceptions import ParsingError, TokenizingError
    return (ParsingError, TokenizingError, ValueError)


REPRO_PARSE = """import pyimpspec
from pyimpspec.exceptions import ParsingError, TokenizingError
import signal, sys
signal.alarm(120)       # a parse that does not terminate ends the process with a non-zero status
sys.setrecursionlimit(@limit@)
text = @expr@
try:
    pyimpspec.parse_cdc(text)
except (ParsingError, TokenizingError, ValueError):
    pass
"""

REPRO_ACCEPTED = """import numpy as np, pyimpspec
from pyimpspec.exceptions import ImpedanceError
c = pyimpspec.parse_cdc(@expr@)
try:
    c.get_impedances(np.array([1.0, 1e3]))
except (ImpedanceError, NotImplementedError):
    pass
def within(con):
    ok = True
    for e in con:
        if isinstance(e, pyimpspec.Connection):
            ok = ok and within(e)
            continue
        v, lo, up = e.get_values(), e.get_lower_limits(), e.get_upper_limits()
        ok = ok and all(lo[k] <= v[k] <= up[k] for k in v)
        if isinstance(e, pyimpspec.Container):
            ok = ok and all(within(s) for s in e.get_subcircuits().values() if s is not None)
    return ok
if within(c.get_connections(recursive=False)[0]):
    pyimpspec.parse_cdc(c.serialize())
"""


def expr_of(text):
    """python expression for the text (deeply nested inputs stay readable)"""
    if len(text) < 200:
        return repr(text)
    for k in range(1, 13):
        unit, n = text[:k], 0
        while text.startswith(unit, n * k):
            n += 1
        if n >= 50:
            rest = text[n * k:]
            for j in range(1, 5):
                tail, m = rest[len(rest) - j:], 0
                while m * j < len(rest) and rest.endswith(tail, 0, len(rest) - m * j):
                    m += 1
                if m >= 50:
                    return f"{unit!r} * {n} + {rest[:len(rest) - m * j]!r} + {tail!r} * {m}"
            return f"{unit!r} * {n} + {rest!r}"
    return repr(text)


def fill(template, text):
    return template.replace("@expr@", expr_of(text)).replace("@limit@", str(sys.getrecursionlimit()))


def values_within_limits(tree):
    if tree is None:
        return True
    if tree[0] != "E":
        return all(values_within_limits(c) for c in tree[1])
    return all(lo <= v <= up for _, v, lo, up, _ in tree[3]) and all(values_within_limits(s) for _, s in tree[4])


def has_value(tree, pred):
    if tree is None:
        return False
    if tree[0] != "E":
        return any(has_value(c, pred) for c in tree[1])
    return any(pred(v) for _, v, _, _, _ in tree[3]) or any(has_value(s, pred) for _, s in tree[4])


class Checker:
    def __init__(self):
        import numpy as np
        import pyimpspec
        from pyimpspec.exceptions import ImpedanceError
        self.np, self.parse, self.Circuit, self.ImpedanceError = np, pyimpspec.parse_cdc, pyimpspec.Circuit, ImpedanceError
        self.allowed = allowed()
        self.seen = set()
        self.fails = {}
        self.counts = {"accepted": 0, "rejected": 0, "distinct accepted circuits": 0}
        self.rejections = {}
        signal.signal(signal.SIGALRM, _alarm)

    def fail(self, key, function, what, repro, text):
        old = self.fails.get(key)
        if old is None or (len(text), text) < (len(old[4]), old[4]):
            self.fails[key] = (key, function, what, repro, text)

    def check(self, text):
        signal.setitimer(signal.ITIMER_REAL, TIMEOUT)
        try:
            try:
                c = self.parse(text)
            except self.allowed as ex:
                self.counts["rejected"] += 1
                name = type(ex).__name__
                self.rejections[name] = self.rejections.get(name, 0) + 1
                return
            except Timeout:
                self.fail("nontermination:parse_cdc", "parse_cdc", f"parse_cdc({expr_of(text)}) did not return within {TIMEOUT} s", fill(REPRO_PARSE, text), text)
                return
            except Exception as ex:  # noqa - this is the contract
                file, function, qualified = innermost_frame(ex)
                self.fail(f"{type(ex).__name__}@{file}:{function}{discriminator(ex)}", qualified,
                          f"parse_cdc({expr_of(text)}) raised {type(ex).__name__}: {str(ex)[:200]}", fill(REPRO_PARSE, text), text)
                return
            self.counts["accepted"] += 1
            if not isinstance(c, self.Circuit):
                self.fail("accepted:not-a-Circuit", "parse_cdc", f"parse_cdc({expr_of(text)}) returned {type(c).__name__}", fill(REPRO_PARSE, text) + "raise SystemExit(1)\n", text)
                return
            self.accepted(text, c)
        except Timeout:
            self.fail("nontermination:accepted-circuit", "parse_cdc", f"using the circuit parsed from {expr_of(text)} did not finish within {TIMEOUT} s", fill(REPRO_ACCEPTED, text), text)
        finally:
            signal.setitimer(signal.ITIMER_REAL, 0)

    def accepted(self, text, c):
        try:
            canonical = c.to_string(12)
        except RecursionError:
            canonical = None
        if canonical is not None:
            if canonical in self.seen:
                return
            self.seen.add(canonical)
        self.counts["distinct accepted circuits"] += 1
        repro = fill(REPRO_ACCEPTED, text)
        try:
            tree = T.extract(c)
        except RecursionError:
            tree = None
        except Exception as ex:  # noqa
            self.fail("accepted:malformed-circuit", "Parser.process", f"the circuit parsed from {expr_of(text)} cannot be traversed: {type(ex).__name__}: {ex}", repro, text)
            return
        try:
            c.get_impedances(self.np.array(PROBE_F))
        except (self.ImpedanceError, NotImplementedError):
            pass        # NotImplementedError: the documented refusal of unsupported Tlm configurations
        except Exception as ex:  # noqa
            file, function, qualified = innermost_frame(ex)
            self.fail(f"accepted:get_impedances:{type(ex).__name__}@{file}:{function}", qualified,
                      f"parse_cdc({expr_of(text)}) is accepted but get_impedances({list(PROBE_F)}) raised {type(ex).__name__}: {str(ex)[:200]}", repro, text)
        if tree is None or not values_within_limits(tree):
            return
        try:
            serialized = c.serialize()
            self.parse(serialized)
        except Exception as ex:  # noqa
            file, function, qualified = innermost_frame(ex)
            why = type(ex).__name__
            if has_value(tree, lambda v: v in (INF, -INF)):
                why = "infinite-value-printed-as-INF"
            self.fail(f"accepted:serialisation-rejected:{why}", "Element.to_string" if "INF" in why else qualified,
                      f"parse_cdc({expr_of(text)}) is accepted, all values lie within their limits, but parse_cdc(c.serialize()) raised {type(ex).__name__}: {str(ex)[:200]}", repro, text)


def mutations(code):
    """all single mutations: deletion, insertion of an atom, substitution by a character of the alphabet, every proper prefix"""
    out = set()
    for i in range(len(code)):
        out.add(code[:i] + code[i + 1:])
        out.add(code[:i])
        for ch in CHARS:
            if ch != code[i]:
                out.add(code[:i] + ch + code[i + 1:])
    for i in range(len(code) + 1):
        for atom in ATOMS:
            out.add(code[:i] + atom + code[i:])
    out.discard(code)
    return out


def double_mutations(code, rng, count):
    out = set()
    firsts = sorted(mutations(code))
    for _ in range(count):
        m1 = firsts[int(rng.integers(len(firsts)))]
        if not m1:
            continue
        i = int(rng.integers(len(m1) + 1))
        kind = int(rng.integers(3))
        if kind == 0 and i < len(m1):
            out.add(m1[:i] + m1[i + 1:])
        elif kind == 1:
            out.add(m1[:i] + ATOMS[int(rng.integers(len(ATOMS)))] + m1[i:])
        elif i < len(m1):
            out.add(m1[:i] + CHARS[int(rng.integers(len(CHARS)))] + m1[i + 1:])
    return out


def deep_inputs(thorough):
    out = []
    for n in (500, 1000, 2000) + ((5000,) if thorough else ()):
        out += ["[" * n + "R" + "]" * n, "(R" * n + "R" + ")" * n, "[" * n, "(" * n + "R", "[" * n + "R" + "]" * (n - 1), "[(R" * (n // 2) + "R" + ")]" * (n // 2)]
    for n in (100, 300) + ((600, 1000) if thorough else ()):
        out += ["Tlm{X_1=" * n + "R" + "}" * n, "Tlm{X_1=[" * n + "R" + "]}" * n, "Tlm{X_1=" * n + "R", "Tlm{X_1=" * n, "R{:" + "{" * n + "a" + "}" * n + "}", "R{:" + "{" * n]
    return out


def run_task(task):
    kind = task[0]
    checker = Checker()
    n = 0
    if kind == "atoms":
        _, prefix, max_len = task
        head = "".join(prefix)
        texts = set()
        if len(prefix) < 2:
            texts.add(head)                       # the short sequences themselves ("" and single atoms)
        else:
            for k in range(0, max_len - len(prefix) + 1):
                for rest in itertools.product(ATOMS, repeat=k):
                    texts.add(head + "".join(rest))
    elif kind == "mutants":
        import numpy as np
        _, codes, doubles, seed = task
        texts = set()
        for i, code in enumerate(codes):
            texts.add(code)
            texts |= mutations(code)
            if doubles:
                texts |= double_mutations(code, np.random.default_rng([seed, len(code), i]), doubles)
    else:
        texts = set(task[1])
    for text in sorted(texts):
        checker.check(text)
        n += 1
    return kind, n, checker.counts, checker.rejections, list(checker.fails.values())


class Counted:
    """stands in for Result.distinct: the distinct inputs are counted inside the workers (sets of texts per task; tasks are
    disjoint by construction for the exhaustive part), 35 million keys do not fit the parent"""
    def __init__(self):
        self.n = 0

    def __len__(self):
        return self.n


def valid_codes(thorough, seed):
    """grammar-derived valid codes: the C03 printer over its tree families (canonical, hand-written, hand-written with bare
    sub-circuit lists), shortest first"""
    import numpy as np
    from bounded import c03
    texts = set()
    for case in c03.generate(False):
        if case[0] != "sp":
            continue
        tree = T.norm(case[2])
        for extra in ((), (("bare", True),), (("ws", " "),), (("percent", True), ("fixed", "f")), (("short", "zero"), ("open", "inf"), ("header", "V"))):
            sp = dict(c03.CANONICAL)
            sp.update(dict(c03.HAND_WRITTEN + extra))
            texts.add(c03.spell(tree, sp))
        if len(texts) < 40:
            texts.add(c03.spell(tree, c03.CANONICAL))
    seeds = {"R", "RC", "(RC)", "[R(RC)]", "R{R=1}", "R{R=1e3}", "R{R=1/0/2}", "R{R=1//2}", "R{R=1F}", "R{R=5/10%/200%}", "R{:lbl}", "Tlm{X_1=R}", "Tlm{X_1=(RC)}", "!V=1!R"}
    limit, longest = (1000, 120) if thorough else (220, 60)
    short = sorted((t for t in texts - seeds if len(t) <= longest), key=lambda t: (len(t), t))
    if len(short) > limit:
        rng = np.random.default_rng(seed)
        keep = set(short[:limit // 2]) | {short[int(i)] for i in rng.choice(len(short), size=limit // 2, replace=False)}
        short = sorted(keep, key=lambda t: (len(t), t))
    return sorted(seeds, key=lambda t: (len(t), t)) + short


def main(a):
    import pyimpspec  # noqa
    thorough = a.tier != "quick"
    N = 5 if thorough else 4
    sys.setrecursionlimit(max(sys.getrecursionlimit(), 1000))
    codes = valid_codes(thorough, a.seed)
    doubles = 200 if thorough else 0
    tasks = [("atoms", (), N)] + [("atoms", (x,), N) for x in ATOMS] + [("atoms", (x, y), N) for x in ATOMS for y in ATOMS]
    per = 6 if thorough else 4
    tasks += [("mutants", codes[i:i + per], doubles, a.seed) for i in range(0, len(codes), per)]
    deep = deep_inputs(thorough)
    tasks += [("deep", [d]) for d in deep]
    tasks.sort(key=lambda t: {"deep": 0, "mutants": 1, "atoms": 2}[t[0]])
    res = Result(
        "C04",
        f"every sequence of <= {N} of {len(ATOMS)} lexical atoms ({sum(len(ATOMS) ** k for k in range(N + 1))} sequences); {len(codes)} grammar-derived valid codes (<= {120 if thorough else 60} characters) with all single mutations "
        f"(deletion, insertion of an atom, substitution by one of {len(CHARS)} characters, every prefix){f' and {doubles} seeded double mutations each' if doubles else ''}; {len(deep)} deeply nested inputs (up to {5000 if thorough else 2000} brackets / {1000 if thorough else 300} nested sub-circuits)",
        "exhaustive enumeration of atom sequences (tasks split by the first two atoms); valid codes come from the C03 grammar-directed printer; per input a SIGALRM timeout of "
        f"{TIMEOUT} s; allowed outcomes: Circuit, ParsingError/TokenizingError subclasses, ValueError; for accepted strings (deduplicated by their serialisation): get_impedances([1, 1e3]) returns or raises an ImpedanceError "
        "(or the NotImplementedError with which Tlm refuses unsupported configurations), and parse_cdc(serialize()) is accepted when all values lie within their limits; distinct = distinct input strings")
    res.distinct = Counted()
    totals = {"atoms": 0, "mutants": 0, "deep": 0}
    counts, rejections, best = {}, {}, {}
    with mp.get_context("fork").Pool(16) as pool:
        for kind, n, c, r, fails in pool.imap_unordered(run_task, tasks, chunksize=1):
            totals[kind] += n
            res.evaluations += n
            res.distinct.n += n
            for k, v in c.items():
                counts[k] = counts.get(k, 0) + v
            for k, v in r.items():
                rejections[k] = rejections.get(k, 0) + v
            for item in fails:
                old = best.get(item[0])
                if old is None or (len(item[4]), item[4]) < (len(old[4]), old[4]):
                    best[item[0]] = item
    for key in sorted(best):
        res.fail(*best[key][:4])
    res.samples = [{"atoms": "R-"}, {"valid code": codes[len(codes) // 2]}, {"mutant of it": sorted(mutations(codes[len(codes) // 2]))[7]}, {"deep": expr_of(deep[0])}]
    res.part("inputs", **totals)
    res.part("outcomes", **counts)
    res.part("rejections", **dict(sorted(rejections.items(), key=lambda kv: -kv[1])))
    return res


if __name__ == "__main__":
    guarded(main)
