"""C12 bounded layer (Layer R): circuit fitting recovers the generating parameters (noise-free data, perturbed start,
default method/weight "auto") and respects limits / fixed parameters / constraint expressions; the parameter table
reports the values of the returned circuit; the circuit passed in is left untouched.  BOUNDED - never counted as proved."""
import multiprocessing as mp
import sys

import numpy as np

sys.path.insert(0, __file__.rsplit("/bounded/", 1)[0])
from bounded.common import Result, guarded  # noqa: E402

# Thresholds.  A threshold is a property of this check, not of the code.  The recovery thresholds are frozen per family
# from the maxima MEASURED with this generator on the current tree (thorough tier, 40 parameter sets per family, seeds 0
# and 1):  frozen = max(given, 100 x measured), rounded up to one significant digit, so that none can flip between seeds
# on an unchanged tree.  given = DESIGN's 1e-4 (relative parameter error) and 1e-10 (pseudo chi-squared).
import math  # noqa: E402

GIVEN = {"parameter-error": 1e-4, "pseudo-chisqr": 1e-10}
MEASURED = {            # family: (max relative parameter error, max pseudo chi-squared) of the best of the 9 x 4 'auto' fits
    "R(RC)": (3.8e-7, 3.61e-13),
    "R(RQ)": (2.33e-5, 3.91e-10),
    "R(RC)(RC)": (1.17e-5, 7.51e-11),
    "R(RC)(RQ)": (1.69e-3, 2.96e-7),
    "R(C[RW])": (1.14e-6, 1.55e-11),
    "RL(RQ)": (3.96e-5, 1.26e-9),
}


def _up1(x):
    """round up to one significant digit"""
    e = math.floor(math.log10(x))
    return float(f"{math.ceil(x / 10.0 ** e - 1e-9)}e{e}")


_FROZEN = {fam: (_up1(max(GIVEN["parameter-error"], 100 * p)), _up1(max(GIVEN["pseudo-chisqr"], 100 * c))) for fam, (p, c) in MEASURED.items()}
assert _FROZEN == {"R(RC)": (1e-4, 1e-10), "R(RQ)": (3e-3, 4e-8), "R(RC)(RC)": (2e-3, 8e-9), "R(RC)(RQ)": (0.2, 3e-5), "R(C[RW])": (2e-4, 2e-9), "RL(RQ)": (4e-3, 2e-7)}, _FROZEN
CONSTRAINT_TOL = 1e-12      # relative; constraint expressions are evaluated by lmfit in floating point

FAMILIES = ["R(RC)", "R(RQ)", "R(RC)(RC)", "R(RC)(RQ)", "R(C[RW])", "RL(RQ)"]
GRID = (5, -2, 71)


def r9(x):
    return float(f"{x:.9g}")


def generate(fam, rng):
    """identifiable member of the family: time constants well inside the measured window 1e-2..1e5 Hz
    (tau = 1/(2 pi f) in 1.6e-6..16 s) and >= 1.5 decades apart, every element visible in the spectrum"""
    R0 = r9(10 ** rng.uniform(0, 3))

    def rc(lt, R):
        return f"(R{{R={R!r}}}C{{C={r9(10 ** lt / R)!r}}})"

    def rq(lt, R):
        n = round(float(rng.uniform(0.7, 0.95)), 4)
        return f"(R{{R={R!r}}}Q{{Y={r9((10 ** lt) ** n / R)!r},n={n!r}}})"
    R1 = r9(R0 * 10 ** rng.uniform(-0.5, 1.5))
    R2 = r9(R0 * 10 ** rng.uniform(-0.5, 1.5))
    if fam == "R(RC)":
        return f"R{{R={R0!r}}}" + rc(rng.uniform(-4.0, -0.5), R1)
    if fam == "R(RQ)":
        return f"R{{R={R0!r}}}" + rq(rng.uniform(-3.5, -1.0), R1)
    lt1 = rng.uniform(-4.2, -2.7)
    lt2 = lt1 + rng.uniform(1.5, 2.5)
    if fam == "R(RC)(RC)":
        return f"R{{R={R0!r}}}" + rc(lt1, R1) + rc(lt2, R2)
    if fam == "R(RC)(RQ)":
        return f"R{{R={R0!r}}}" + rc(lt1, R1) + rq(lt2, R2)
    if fam == "R(C[RW])":
        lt = rng.uniform(-4.2, -2.7)
        Yw = r9(1.0 / (R1 * 10 ** rng.uniform(-0.5, 0.5) * np.sqrt(2 * np.pi)))      # |Z_W(1 Hz)| comparable to R_ct
        return f"R{{R={R0!r}}}(C{{C={r9(10 ** lt / R1)!r}}}[R{{R={R1!r}}}W{{Y={Yw!r}}}])"
    if fam == "RL(RQ)":
        L = r9(R0 * 10 ** rng.uniform(-1.0, 0.3) / (2 * np.pi * 1e5))              # omega L at 100 kHz comparable to R0
        return f"R{{R={R0!r}}}L{{L={L!r}}}" + rq(rng.uniform(-3.0, -1.0), R1)
    raise ValueError(fam)


def free_parameters(circuit):
    return [(e, k) for e in circuit.get_elements() for k in e.get_values() if not e.is_fixed(k)]


def perturb(circuit, rng, factor=3.0):
    """multiply every free parameter by factor**U(-1, 1) (exponents n: by U(0.85, 1.15)), staying inside the limits"""
    for e, k in free_parameters(circuit):
        v, lo, hi = e.get_value(k), e.get_lower_limit(k), e.get_upper_limit(k)
        nv = v * rng.uniform(0.85, 1.15) if k == "n" else v * factor ** rng.uniform(-1, 1)
        if k == "n":                  # stay strictly inside (0, 1): a start exactly on a limit is a different (degenerate) situation
            nv = min(nv, 0.98)
        e.set_values(**{k: float(min(max(nv, lo), hi))})


def roundtrip(circuit):
    from pyimpspec import parse_cdc
    return parse_cdc(circuit.serialize())


def state(circuit):
    return (circuit.serialize(), [(e.get_values(), e.get_lower_limits(), e.get_upper_limits(), e.are_fixed(), e.get_label()) for e in circuit.get_elements()])


REPRO = """import numpy as np, pyimpspec
from pyimpspec import parse_cdc, simulate_spectrum, fit_circuit
from pyimpspec.analysis.fitting import generate_fit_identifiers
f = np.logspace({hi!r}, {lo!r}, {N})
true = parse_cdc({true!r})
data = simulate_spectrum(true, f, label="x")
start = parse_cdc({start!r})
before = start.serialize()
fit = fit_circuit(start, data, {kw})
E0, E1 = start.get_elements(), fit.circuit.get_elements()
"""


def kwsrc(kw):
    return ", ".join(f"{k}={v!r}" for k, v in kw.items())


def check_invariants(start, before, fit, kw, fixed_before):
    """-> list of (key-suffix, description, assertion source) for violated invariants of one returned fit"""
    out = []
    E0, E1 = start.get_elements(), fit.circuit.get_elements()
    # the circuit passed in is untouched
    if state(start) != before:
        out.append(("input-circuit-modified", f"serialize()/element state of the circuit passed in changed: {before[0]} -> {start.serialize()}", "assert start.serialize() == before\n"))
    if fit.circuit is start or any(a is b for a in E0 for b in E1):
        out.append(("result-shares-objects-with-input", "fit.circuit shares element objects with the circuit passed in", "assert fit.circuit is not start and not any(a is b for a in E0 for b in E1)\n"))
    if len(E0) != len(E1):
        out.append(("element-count-changed", f"{len(E0)} elements in, {len(E1)} out", "assert len(E0) == len(E1)\n"))
        return out
    # limits and fixed parameters
    for i, (a, b) in enumerate(zip(E0, E1)):
        for k, v in b.get_values().items():
            lo, hi = a.get_lower_limit(k), a.get_upper_limit(k)
            if not (lo <= v <= hi):
                out.append(("value-outside-limits", f"element {i} ({a.get_symbol()}) {k} = {v!r} outside [{lo!r}, {hi!r}]",
                            f"assert E0[{i}].get_lower_limit({k!r}) <= E1[{i}].get_value({k!r}) <= E0[{i}].get_upper_limit({k!r}), E1[{i}].get_value({k!r})\n"))
            if fixed_before[i][k] and not (v == before[1][i][0][k]):
                out.append(("fixed-parameter-changed", f"element {i} ({a.get_symbol()}) fixed {k}: {before[1][i][0][k]!r} -> {v!r}", f"assert E1[{i}].get_value({k!r}) == E0[{i}].get_value({k!r})\n"))
        if (b.get_lower_limits(), b.get_upper_limits(), b.are_fixed()) != (a.get_lower_limits(), a.get_upper_limits(), a.are_fixed()):
            out.append(("limits-or-fixed-flags-of-result-differ", f"element {i}: limits/fixed flags of the returned circuit differ from the input's",
                        f"assert (E1[{i}].get_lower_limits(), E1[{i}].get_upper_limits(), E1[{i}].are_fixed()) == (E0[{i}].get_lower_limits(), E0[{i}].get_upper_limits(), E0[{i}].are_fixed())\n"))
    # constraint expressions
    ce, cv = kw.get("constraint_expressions") or {}, kw.get("constraint_variables") or {}
    if ce:
        from pyimpspec.analysis.fitting import generate_fit_identifiers
        ids = generate_fit_identifiers(fit.circuit)
        env = {name: el.get_value(sym) for el, m in ids.items() for sym, name in m.items()}
        pars = fit.minimizer_result.params
        for name, spec in cv.items():
            val = pars[name].value
            env[name] = val
            if not (spec.get("min", -np.inf) <= val <= spec.get("max", np.inf)):
                out.append(("constraint-variable-outside-its-bounds", f"{name} = {val!r} outside [{spec.get('min')}, {spec.get('max')}]", f"assert {spec.get('min', -np.inf)!r} <= fit.minimizer_result.params[{name!r}].value <= {spec.get('max', np.inf)!r}\n".replace("inf", "float('inf')")))
        for name, expr in ce.items():
            want = eval(expr, {"__builtins__": {}}, dict(env))
            got = env[name]
            if not (abs(got - want) <= CONSTRAINT_TOL * max(abs(want), abs(got))):
                out.append(("constraint-violated", f"{name} = {got!r} but {expr} = {want!r}",
                            "ids = generate_fit_identifiers(fit.circuit)\nenv = {n: el.get_value(s) for el, m in ids.items() for s, n in m.items()}\n"
                            f"env.update({{n: fit.minimizer_result.params[n].value for n in {list(cv)!r}}})\nwant = eval({expr!r}, {{}}, dict(env))\nassert abs(env[{name!r}] - want) <= {CONSTRAINT_TOL} * abs(want), (env[{name!r}], want)\n"))
    # the table reports exactly the values of the returned circuit
    for running in (False, True):
        try:
            df = fit.to_parameters_dataframe(running=running)
        except Exception as ex:  # noqa
            out.append((f"parameters-dataframe-raises {type(ex).__name__}", f"to_parameters_dataframe(running={running}): {type(ex).__name__}: {str(ex)[:100]}", f"fit.to_parameters_dataframe(running={running})\n"))
            continue
        idents = fit.circuit.generate_element_identifiers(running=running)
        table = {(row["Element"], row["Parameter"]): (row["Value"], row["Fixed"]) for _, row in df.iterrows()}
        expected = {(fit.circuit.get_element_name(e, identifiers=idents), k): v for e in E1 for k, v in e.get_values().items()}
        src = (f"df = fit.to_parameters_dataframe(running={running})\nidents = fit.circuit.generate_element_identifiers(running={running})\n"
               "table = {(r['Element'], r['Parameter']): r['Value'] for _, r in df.iterrows()}\n"
               "expected = {(fit.circuit.get_element_name(e, identifiers=idents), k): v for e in E1 for k, v in e.get_values().items()}\nassert table == expected and len(df) == len(expected), (table, expected)\n")
        if len(df) != len(expected) or set(table) != set(expected):
            out.append(("parameters-dataframe-rows-differ", f"rows {sorted(table)} vs circuit {sorted(expected)} (running={running})", src))
        elif any(not (table[k][0] == expected[k]) for k in expected):
            bad = [(k, table[k][0], expected[k]) for k in expected if not (table[k][0] == expected[k])]
            out.append(("parameters-dataframe-value-differs", f"table vs circuit: {bad[:3]} (running={running})", src))
        else:
            for i, a in enumerate(E0):
                nm = fit.circuit.get_element_name(E1[i], identifiers=idents)
                for k in a.get_values():
                    if fixed_before[i][k] and table[(nm, k)][1] != "Yes":
                        out.append(("parameters-dataframe-fixed-flag", f"{nm}.{k} was fixed but the table says {table[(nm, k)][1]!r}", f"df = fit.to_parameters_dataframe()\nassert all(r['Fixed'] == 'Yes' for _, r in df.iterrows() if (r['Element'], r['Parameter']) == ({nm!r}, {k!r}))\n"))
    names = fit.circuit.generate_element_identifiers(running=False)
    for e in E1:
        nm = fit.circuit.get_element_name(e, identifiers=names)
        for k, v in e.get_values().items():
            p = fit.parameters.get(nm, {}).get(k)
            if p is None or not (p.value == v):
                out.append(("parameters-dict-value-differs", f"fit.parameters[{nm!r}][{k!r}] = {getattr(p, 'value', None)!r} but the circuit has {v!r}", "names = fit.circuit.generate_element_identifiers(running=False)\n"
                            "assert all(fit.parameters[fit.circuit.get_element_name(e, identifiers=names)][k].value == v for e in E1 for k, v in e.get_values().items())\n"))
    return out


def run_fit(job):
    import pyimpspec  # noqa
    from pyimpspec import parse_cdc, simulate_spectrum, fit_circuit
    from pyimpspec.analysis.fitting import generate_fit_identifiers
    kind, fam, seed, variant, method, weight, max_nfev = job
    rng = np.random.default_rng(seed)
    f = np.logspace(*GRID)
    true = roundtrip(parse_cdc(generate(fam, rng)))
    start = parse_cdc(true.serialize())
    kw = dict(method=method, weight=weight, max_nfev=max_nfev, num_procs=1)
    note = ""
    els = start.get_elements()
    if kind == "recovery":
        perturb(start, rng)
    else:
        Rs = [e for e in els if e.get_symbol() == "R"]
        lhs = Rs[1] if "ratio" in variant else (Rs[-1] if "offset" in variant else None)     # resistor defined by a constraint expression
        free = [(e, k) for e, k in free_parameters(start) if e is not lhs]                    # its own limits / fixed flag stay at the defaults
        if "box" in variant:          # tightened limit boxes around the truth, start inside
            for e, k in free:
                v = e.get_value(k)
                lo, hi = (max(0.0, v - 0.2), min(1.0, v + 0.1)) if k == "n" else (v / 2, v * 2)
                e.set_lower_limits(**{k: lo})
                e.set_upper_limits(**{k: hi})
                e.set_values(**{k: v})
            perturb(start, rng, factor=1.9)
        else:
            perturb(start, rng)
        if "excl" in variant:         # a limit that excludes the generating value: the fit has to stop at the bound
            e, k = free[int(rng.integers(len(free)))]
            tv = true.get_elements()[[x is e for x in els].index(True)].get_value(k)
            if rng.random() < 0.5 and k != "n":
                e.set_upper_limits(**{k: 0.7 * tv})
                e.set_values(**{k: 0.5 * tv})
            else:
                up = e.get_upper_limit(k)
                lo = min(1.3 * tv, 0.5 * (tv + up)) if np.isfinite(up) else 1.3 * tv
                e.set_lower_limits(**{k: lo})
                e.set_values(**{k: min(1.5 * lo, 0.5 * (lo + up)) if np.isfinite(up) else 1.5 * lo})
            note += f" limit excluding the generating value on {e.get_symbol()}.{k};"
        if "fixed" in variant:        # non-empty proper subset of fixed parameters (kept at their perturbed start value)
            m = int(rng.integers(1, len(free)))
            for i in rng.choice(len(free), m, replace=False):
                e, k = free[int(i)]
                e.set_fixed(**{k: True})
        ids = generate_fit_identifiers(start)
        if "ratio" in variant:        # R_b = k * R_a  (no auxiliary variable)
            kfac = float(rng.choice([0.5, 2.0, 3.7]))
            kw["constraint_expressions"] = {ids[lhs]["R"]: f"{kfac!r} * {ids[Rs[0]]['R']}"}
        if "offset" in variant:       # R_b = R_a + alpha, alpha >= alpha_min  (auxiliary variable)
            a0 = r9(10 ** rng.uniform(-1, 2))
            name = "alpha_1" if "suffix" in variant else "alpha"
            kw["constraint_expressions"] = {ids[lhs]["R"]: f"{ids[Rs[0]]['R']} + {name}"}
            kw["constraint_variables"] = {name: dict(value=a0 * 2, min=a0)}
    start = roundtrip(start)
    data = simulate_spectrum(true, f, label="x")
    before = state(start)
    fixed_before = [e.are_fixed() for e in start.get_elements()]
    src = REPRO.format(hi=GRID[0], lo=GRID[1], N=GRID[2], true=true.serialize(), start=before[0], kw=kwsrc(kw))
    ckey = (kind, fam, before[0], true.serialize(), kwsrc(kw))
    where = f"fit_circuit(start={start.to_string(6)}, data of {true.to_string(6)}, {kwsrc(kw)}){note}"
    tag = f"{kind}:{variant}" if kind != "recovery" else "recovery"
    try:
        fit = fit_circuit(start, data, **kw)
    except Exception as ex:  # noqa
        untouched = state(start) == before
        fails = []
        if not untouched:
            fails.append((f"{tag}:input-circuit-modified-by-failed-fit", "fit_circuit", f"{where} raised {type(ex).__name__} and modified the circuit passed in", src + "assert start.serialize() == before\n"))
        if kind == "recovery":
            fails.append((f"recovery:{fam}:raises {type(ex).__name__}", "fit_circuit", f"{where}: {type(ex).__name__}: {last_line(ex)}", src))
        elif "suffix" in variant and isinstance(ex, KeyError):
            fails.append(("invariants:constraint-variable-named-like-a-parameter:KeyError", "_extract_parameters",
                          f"{where}: a constraint variable whose name ends in _<running id> is taken for a parameter of that element: {type(ex).__name__}: {ex}", src))
        # a single method/weight combination that fails to produce a fit is outside the invariants' antecedent ("in every fit")
        return [(ckey, False, None)], fails, {f"no-fit:{method}:{type(ex).__name__}": 1.0}
    viol = check_invariants(start, before, fit, kw, fixed_before)
    fails = [(f"{'invariants' if kind != 'recovery' else 'recovery'}:{key}", "fit_circuit" if "dataframe" not in key and "dict" not in key else "FitResult.to_parameters_dataframe",
              f"{where}: {what}", src + chk) for key, what, chk in viol]
    metrics = {}
    if kind == "recovery":
        T, E1 = true.get_elements(), fit.circuit.get_elements()
        order = list(range(len(T)))
        if fam == "R(RC)(RC)":        # the two (RC) blocks are interchangeable: identify them by their time constant
            blocks = sorted([(1, 2), (3, 4)], key=lambda b: E1[b[0]].get_value("R") * E1[b[1]].get_value("C"))
            tblocks = sorted([(1, 2), (3, 4)], key=lambda b: T[b[0]].get_value("R") * T[b[1]].get_value("C"))
            for tb, fb in zip(tblocks, blocks):
                order[tb[0]], order[tb[1]] = fb
        tv = [(i, k, v) for i, e in enumerate(T) for k, v in e.get_values().items()]
        errs = [abs(E1[order[i]].get_value(k) / v - 1) for i, k, v in tv]
        err, chi = float(max(errs)), float(fit.pseudo_chisqr)
        PARAM_TOL, CHISQR_TOL = _FROZEN[fam]
        metrics = {f"recovery:{fam}:parameter-error": err, f"recovery:{fam}:pseudo-chisqr": chi}
        if not (err <= PARAM_TOL):
            i, k, v = tv[int(np.argmax(errs))]
            fails.append((f"recovery:{fam}:parameter-error-exceeds-1e-4", "fit_circuit", f"{where}: best fit ({fit.method}/{fit.weight}) has element {order[i]} {k} = {E1[order[i]].get_value(k)!r} vs generating {v!r} (relative {err:.3g} > {PARAM_TOL:g}), pseudo chi-squared {chi:.3g}",
                          src + f"T, order = true.get_elements(), {order!r}\nassert all(abs(E1[order[i]].get_value(k) / v - 1) <= {PARAM_TOL} for i, e in enumerate(T) for k, v in e.get_values().items())\n"))
        if not (chi <= CHISQR_TOL):
            fails.append((f"recovery:{fam}:pseudo-chisqr-exceeds-1e-10", "fit_circuit", f"{where}: pseudo chi-squared {chi:.3g} > {CHISQR_TOL} (best: {fit.method}/{fit.weight})", src + f"assert fit.pseudo_chisqr <= {CHISQR_TOL}, fit.pseudo_chisqr\n"))
        sample = {"family": fam, "true": true.to_string(4), "start": start.to_string(4), "best": f"{fit.method}/{fit.weight}", "param_err": err, "pseudo_chisqr": chi}
    else:
        at_bound = sum(1 for a, b in zip(start.get_elements(), fit.circuit.get_elements()) for k, v in b.get_values().items() if v in (a.get_lower_limit(k), a.get_upper_limit(k)))
        metrics = {"invariants:values-at-a-bound": float(at_bound)}
        sample = {"family": fam, "variant": variant, "method": method, "weight": weight, "start": start.to_string(3), "nfev": int(fit.minimizer_result.nfev)}
    return [(ckey, True, sample)], fails, metrics


def run_deepcopy_limits(job):
    """a circuit whose Capacitor limits were both raised above the default upper limit (value inside) can be fitted"""
    import pyimpspec  # noqa
    from pyimpspec import parse_cdc, simulate_spectrum, fit_circuit
    method, weight = job
    src = ("import numpy as np, pyimpspec\nfrom pyimpspec import parse_cdc, simulate_spectrum, fit_circuit\nc = parse_cdc('R{R=100}(R{R=200}C{C=1e-5})')\ncap = [e for e in c.get_elements() if e.get_symbol() == 'C'][0]\n"
           "cap.set_upper_limits(C=3e3)\ncap.set_lower_limits(C=2e3)\ncap.set_values(C=2.5e3)\nf = np.logspace(0, -7, 71)\ndata = simulate_spectrum(c, f, label='x')\nbefore = c.serialize()\n"
           f"fit = fit_circuit(c, data, method={method!r}, weight={weight!r}, max_nfev=-1, num_procs=1)\nv = [e for e in fit.circuit.get_elements() if e.get_symbol() == 'C'][0].get_value('C')\nassert 2e3 <= v <= 3e3 and c.serialize() == before\n")
    ckey = ("deepcopy-limits", method, weight)
    c = parse_cdc("R{R=100}(R{R=200}C{C=1e-5})")
    cap = [e for e in c.get_elements() if e.get_symbol() == "C"][0]
    cap.set_upper_limits(C=3e3)
    cap.set_lower_limits(C=2e3)
    cap.set_values(C=2.5e3)
    f = np.logspace(0, -7, 71)
    data = simulate_spectrum(c, f, label="x")
    before = c.serialize()
    try:
        fit = fit_circuit(c, data, method=method, weight=weight, max_nfev=-1, num_procs=1)
    except Exception as ex:  # noqa
        import traceback
        tb = traceback.format_exc() + str(ex)
        if "copy" in tb or "limit" in tb.lower():
            return [(ckey, True, None)], [("fit:deepcopy-limits", "Element.__copy__", f"fit_circuit on R(RC) with C limits (2e3, 3e3), value 2.5e3, {method}/{weight}: {type(ex).__name__}: {last_line(ex)}", src)], {}
        return [(ckey, False, None)], [], {f"no-fit:{method}:{type(ex).__name__}": 1.0}
    v = [e for e in fit.circuit.get_elements() if e.get_symbol() == "C"][0].get_value("C")
    fails = []
    if not (2e3 <= v <= 3e3 and c.serialize() == before):
        fails.append(("fit:deepcopy-limits:value-outside-limits-or-input-modified", "fit_circuit", f"C = {v!r} after the fit; input unchanged: {c.serialize() == before}", src))
    return [(ckey, True, {"case": "deepcopy-limits", "method": method, "weight": weight, "C": v})], fails, {}


def run_pickle(job):
    """what a worker process receives: pickle.loads(pickle.dumps(x)) of a circuit with awkward floats, changed limits, a released
    fixed-by-default flag and a label is the same circuit, value for value (the multi-process fit path sends circuits this way)"""
    import pickle
    import pyimpspec  # noqa
    from pyimpspec import parse_cdc
    cdc = job
    src = ("import pickle, pyimpspec\nfrom pyimpspec import parse_cdc\n"
           f"c = parse_cdc({cdc!r})\nes = c.get_elements()\nes[0].set_values(**{{k: 2200.0 / 7.0 for k in list(es[0].get_values())[:1]}})\n"
           "es[-1].set_fixed(**{k: not v for k, v in es[-1].are_fixed().items()})\nes[0].set_label('a_1')\n"
           "st = lambda x: [(e.get_values(), e.get_lower_limits(), e.get_upper_limits(), e.are_fixed(), e.get_label()) for e in x.get_elements()]\n"
           "d = pickle.loads(pickle.dumps(c))\nassert st(d) == st(c), (st(d), st(c))\n")
    c = parse_cdc(cdc)
    es = c.get_elements()
    es[0].set_values(**{k: 2200.0 / 7.0 for k in list(es[0].get_values())[:1]})
    es[-1].set_fixed(**{k: not v for k, v in es[-1].are_fixed().items()})
    es[0].set_label("a_1")
    st = lambda x: [(e.get_values(), e.get_lower_limits(), e.get_upper_limits(), e.are_fixed(), e.get_label()) for e in x.get_elements()]      # noqa: E731
    ckey = ("pickle", cdc)
    try:
        d = pickle.loads(pickle.dumps(c))
    except Exception as ex:  # noqa
        return [(ckey, True, None)], [("pickle:raises", "Circuit", f"pickling {cdc}: {type(ex).__name__}: {last_line(ex)}", src)], {}
    fails = []
    if st(d) != st(c):
        fails.append(("pickle:state-differs", "Circuit", f"pickle round trip of {cdc} changed the circuit: {st(c)} -> {st(d)}", src))
    return [(ckey, True, {"case": "pickle", "cdc": cdc})], fails, {}


def last_line(ex):
    lines = str(ex).strip().splitlines()
    return lines[-1][:200] if lines else ""


def dispatch(item):
    fn, job = item
    return fn, globals()[fn](job)


def main(a):
    import pyimpspec  # noqa
    from pyimpspec.analysis.fitting import _METHODS, _WEIGHT_FUNCTIONS
    quick = a.tier == "quick"
    methods, weights = list(_METHODS), list(_WEIGHT_FUNCTIONS)

    def seed(*ints):              # derived from the case's coordinates, so the quick cases are a subset of the thorough ones
        return int(np.random.SeedSequence([a.seed, *ints]).generate_state(1)[0])
    jobs = []
    nrec = 6 if quick else 40
    for fam in ("R(RC)(RQ)", "R(RC)(RC)", "R(C[RW])", "RL(RQ)", "R(RQ)", "R(RC)"):      # slowest first
        for k in range(nrec):
            jobs.append(("run_fit", ("recovery", fam, seed(0, FAMILIES.index(fam), k), "", "auto", "auto", -1)))
    variants = ["fixed", "box", "excl", "box+fixed", "ratio", "offset", "box+ratio+fixed", "excl+offset", "offset+suffix"]
    two_R = FAMILIES            # every family has >= 2 resistors
    combos = [(m, w) for m in methods for w in weights]
    for rep in range(1 if quick else 4):
        for vi, variant in enumerate(variants):
            if quick and variant in ("box+fixed", "excl+offset"):
                continue
            for ci, (m, w) in enumerate(combos):
                fam = two_R[(vi + ci + rep) % len(two_R)]
                jobs.append(("run_fit", ("invariants", fam, seed(1, rep, vi, ci), variant, m, w, 300)))
    for m, w in (combos[::9] if quick else combos):
        jobs.append(("run_deepcopy_limits", (m, w)))
    for cdc in ("R(RC)", "R(C[RW])", "RL(RQ)", "R(RC)(RQ)"):
        jobs.append(("run_pickle", cdc))

    ninv = sum(1 for j in jobs if j[0] == "run_fit" and j[1][0] == "invariants")
    res = Result("C12", f"recovery: {len(FAMILIES)} families x {nrec} seeded parameter sets (R0 over 3 decades, R_k/R0 over 2 decades, time constants over 3.5 decades inside 1e-2..1e5 Hz, 71 points) x start perturbed by up to x3, "
                 f"method/weight 'auto' (9 x 4 fits each); invariants: {ninv} single fits over {len(methods)} methods x {len(weights)} weights x {len({j[1][3] for j in jobs if j[0] == 'run_fit' and j[1][0] == 'invariants'})} variants "
                 f"(fixed subsets, tightened boxes, boxes excluding the truth, ratio/offset constraint expressions and combinations) x 6 families; "
                 f"{sum(1 for j in jobs if j[0] == 'run_deepcopy_limits')} fits of a circuit with raised capacitor limits",
                 "seeded random generating parameters inside the identifiable region of each family; invariants rotate families over the full (method, weight, variant) product "
                 "(quick: 7 of the 9 variants); one case = (generating circuit, start circuit incl. limits/fixed flags, fit options); non-trivial = a FitResult was returned and checked")
    maxima, counts = {}, {}
    with mp.get_context("fork").Pool(16) as pool:
        for fn, (cases, fails, metrics) in pool.imap(dispatch, jobs, chunksize=1):
            for key, nontrivial, sample in cases:
                res.case(key, nontrivial, sample)
            for key, fun, what, repro in fails:
                res.fail(key, fun, what, repro)
            for k, v in metrics.items():
                if k.startswith("no-fit:") or k.startswith("invariants:values-at"):
                    counts[k] = counts.get(k, 0) + int(v)
                else:
                    maxima[k] = max(maxima.get(k, 0.0), float(v))
    res.part("measured_maxima", **{k: maxima[k] for k in sorted(maxima)})
    res.part("counts", **{k: counts[k] for k in sorted(counts)})
    res.part("thresholds", constraint=CONSTRAINT_TOL, **{f"recovery:{fam}": {"parameter-error": p, "pseudo-chisqr": c} for fam, (p, c) in _FROZEN.items()})
    res.part("documented_maxima", **{fam: {"parameter-error": p, "pseudo-chisqr": c} for fam, (p, c) in MEASURED.items()})
    return res


if __name__ == "__main__":
    guarded(main)
