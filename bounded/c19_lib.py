"""C19 helper library: evaluate ONE case "command line == API".  Deliberately self-contained (only the standard library, numpy and
pyimpspec) because its source is embedded verbatim in the repro scripts of bounded/c19.py.

A case is a plain dictionary:
  cmd      "parse" | "circuit" | "fit" | "drt"
  format   value for --output-format (csv, json, md, markdown, tex, latex)
  inputs   list of {"file": name, "text": content} or {"mock": "<ID:k=v,...>", "id": ID, "kwargs": {...}}   (parse, fit, drt)
  low_pass, high_pass (float or None), exclude (list of int), nth (list of int), average (bool), indices (bool), digits (int or None),
  to_file (bool: --output-to into a scratch directory instead of stdout)
  circuit: cdcs (list of CDC strings or mock specifiers), min_f, max_f (powers of ten), num_per_decade  |  limits (bool)
  fit: cdc, method, weight, max_nfev, refinements, running
  drt: settings {api keyword: value} limited to the keys of DRT_FLAGS
"""
import contextlib
import csv
import decimal
import io
import json
import math
import os
import shutil
import sys
import tempfile

PARSE_COLUMNS = ["f (Hz)", "Re(Z) (ohm)", "Im(Z) (ohm)", "Mod(Z) (ohm)", "Phase(Z) (deg.)"]
# documented command-line flag of `pyimpspec drt` for each keyword argument of calculate_drt
DRT_FLAGS = {
    "method": "--method", "mode": "--mode", "lambda_value": "--lambda-value", "cross_validation": "--cross-validation", "rbf_type": "--rbf-type",
    "derivative_order": "--derivative-order", "rbf_shape": "--rbf-shape", "shape_coeff": "--shape-coeff", "inductance": "--inductance",
    "credible_intervals": "--credible-intervals", "timeout": "--timeout", "num_samples": "--num-samples", "num_attempts": "--num-attempts",
    "maximum_symmetry": "--max-symmetry", "circuit": "--circuit", "gaussian_width": "--gaussian-width", "num_per_decade": "--num-per-decade",
    "max_nfev": "--max-nfev", "max_iter": "--max-iter", "model_order": "--model-order", "model_order_method": "--model-order-method",
}


class Mismatch(Exception):
    def __init__(self, kind, what):
        Exception.__init__(self, f"{kind}: {what}")
        self.kind, self.what = kind, what


def run_cli(argv):
    """run the command-line interface in this process; returns what it printed"""
    import matplotlib
    matplotlib.use("Agg")
    import pyimpspec.cli.config as config
    from pyimpspec.cli import main
    config._IGNORE_USER_CONFIG = True
    buf = io.StringIO()
    old = sys.argv
    sys.argv = ["pyimpspec"] + [str(a) for a in argv]
    try:
        with contextlib.redirect_stdout(buf), contextlib.redirect_stderr(io.StringIO()):
            main()
    finally:
        sys.argv = old
        import matplotlib.pyplot as plt
        plt.close("all")
    return buf.getvalue()


def cli_defaults(argv):
    """the effective settings of the command line (declared defaults + given options)"""
    import pyimpspec.cli.config as config
    with contextlib.redirect_stderr(io.StringIO()):
        return config.get_argument_parser().parse_args([str(a) for a in argv])


# ---------------------------------------------------------------------------------------------------------------------
# tables: (columns, rows); the API side gives python values, the CLI side gives text cells (python values for json)
def frame_table(df):
    return [str(c) for c in df.columns], [list(r) for r in df.values.tolist()]


def data_table(d):
    """the documented table of a data set: unmasked points; f, Re, Im, |Z|, phase in degrees"""
    f = [float(x) for x in d.get_frequencies()]
    Z = [complex(x) for x in d.get_impedances()]
    return list(PARSE_COLUMNS), [[a, z.real, z.imag, abs(z), math.degrees(math.atan2(z.imag, z.real))] for a, z in zip(f, Z)]


def extract_tables(text, fmt, headers, indices):
    """all tables in CLI output whose header row is one of `headers` (tuples of column names), in order"""
    fmt = {"markdown": "md", "latex": "tex"}.get(fmt, fmt)
    headers = {tuple(h) for h in headers}
    tables = []
    lines = [ln.rsplit("\r", 1)[-1] for ln in text.split("\n")]      # progress clean-up ends in a carriage return: keep what follows it

    def body(cells):
        return tuple(cells[1:]) if indices and len(cells) > 1 else tuple(cells)
    if fmt == "json":
        for line in lines:
            line = line.strip()
            if line.startswith("{"):
                obj = json.loads(line)
                cols = list(obj.keys())
                keys = sorted({k for c in cols for k in obj[c].keys()}, key=int)
                tables.append((cols, [[obj[c].get(k) for c in cols] for k in keys]))
        return tables
    if fmt == "csv":
        rows = [next(csv.reader([ln])) if ln.strip() != "" else None for ln in lines]
    elif fmt == "md":
        rows = [[c.strip() for c in ln.strip().strip("|").split("|")] if ln.strip().startswith("|") else None for ln in lines]
        rows = [None if r is not None and all(set(c) <= set(":-") and c for c in r) else r for r in rows]      # the |---:| ruler
        # a ruler separates header and body: glue them together again
        glued, k = [], 0
        while k < len(rows):
            if rows[k] is None and 0 < k < len(rows) - 1 and lines[k].strip().startswith("|") and rows[k - 1] is not None and rows[k + 1] is not None:
                k += 1
                continue
            glued.append(rows[k])
            k += 1
        rows = glued
    elif fmt == "tex":
        rows = [[c.strip() for c in ln.rstrip()[:-2].split("&")] if ln.rstrip().endswith("\\\\") else None for ln in lines]
    else:
        raise ValueError(fmt)
    k = 0
    while k < len(rows):
        r = rows[k]
        if r is not None and body(r) in headers:
            n = len(r)
            cols, k, data = list(body(r)), k + 1, []
            while k < len(rows) and rows[k] is not None and len(rows[k]) == n and body(rows[k]) not in headers:
                data.append(list(body(rows[k])))
                k += 1
            tables.append((cols, data))
        else:
            k += 1
    return tables


def is_nan(x):
    return x is None or (isinstance(x, float) and math.isnan(x))


def cell_matches(cell, want, fmt):
    """compare a printed cell with the API value to the precision printed"""
    if isinstance(want, bool):
        return str(cell).strip().lower() in (str(want).lower(), str(int(want)))
    if isinstance(want, str):
        return str(cell).strip() == want.strip()
    if is_nan(want):
        return cell is None or str(cell).strip().lower() in ("", "nan", "null", "none")
    want = float(want)
    if fmt == "json" and not isinstance(cell, str):
        if cell is None:
            return False
        return abs(float(cell) - want) <= max(0.51e-10, 1e-14 * abs(want))       # pandas.DataFrame.to_json prints 10 decimals
    text = str(cell).strip()
    try:
        got = float(text)
    except ValueError:
        return False
    if math.isinf(want) or math.isinf(got):
        return got == want
    try:
        place = decimal.Decimal(text).as_tuple().exponent      # the last printed digit counts 10**place
    except decimal.InvalidOperation:
        return False
    tol = max(0.505 * 10.0 ** place, 4e-16 * abs(want))
    return abs(got - want) <= tol


def compare_tables(got, want, fmt, ordered=True):
    if len(got) != len(want):
        raise Mismatch("table-count", f"the command line printed {len(got)} table(s), the API gives {len(want)}")
    if not ordered and len(want) > 1:
        # output files are collected in name order, which need not be the order of the data sets: match them up
        rest, first = list(got), None
        for w in want:
            for g in rest:
                try:
                    compare_tables([g], [w], fmt)
                except Mismatch as m:
                    first = first or m
                    continue
                rest.remove(g)
                break
            else:
                raise first
        return
    for t, ((gc, gr), (wc, wr)) in enumerate(zip(got, want)):
        if list(gc) != list(wc):
            raise Mismatch("columns", f"table {t + 1}: columns {gc} instead of {wc}")
        if len(gr) != len(wr):
            raise Mismatch("row-count", f"table {t + 1} ({wc[0]}...): {len(gr)} rows printed, the API gives {len(wr)}")
        for i, (g, w) in enumerate(zip(gr, wr)):
            for c, (a, b) in enumerate(zip(g, w)):
                if not cell_matches(a, b, fmt):
                    raise Mismatch(f"cell:{wc[c]}", f"table {t + 1}, row {i}, column {wc[c]!r}: printed {a!r}, API value {b!r}")


# ---------------------------------------------------------------------------------------------------------------------
def input_args(case, tmp):
    args = []
    for inp in case["inputs"]:
        if "mock" in inp:
            args.append(inp["mock"])
        else:
            path = os.path.join(tmp, inp["file"])
            with open(path, "w", encoding="utf-8") as fp:
                fp.write(inp["text"])
            args.append(path)
    return args


def filter_args(case):
    args = []
    if case.get("low_pass") is not None:
        args += ["--low-pass-filter", repr(float(case["low_pass"]))]
    if case.get("high_pass") is not None:
        args += ["--high-pass-filter", repr(float(case["high_pass"]))]
    if case.get("exclude"):
        args += ["--exclude-indices"] + [str(i) for i in case["exclude"]]
    if case.get("nth"):
        args += ["--nth-data-set"] + [str(i) for i in case["nth"]]
    return args


def output_args(case, out_dir):
    args = ["--output-format", case["format"], "--suppress-progress"]
    if case.get("indices"):
        args.append("--output-indices")
    if case.get("digits") is not None:
        args += ["--output-significant-digits", str(case["digits"])]
    if case.get("to_file"):
        args += ["--output-to", "--output-dir", out_dir]
    return args


def api_data_sets(case, paths):
    """the data sets the command line is documented to work on, obtained through the API"""
    import pyimpspec
    from pyimpspec import DataSet
    out = []
    for inp, path in zip(case["inputs"], paths):
        if "mock" in inp:
            out.extend(pyimpspec.generate_mock_data(inp["id"], **inp["kwargs"]))
        else:
            ds = pyimpspec.parse_data(path)
            if case.get("nth"):
                ds = [d for i, d in enumerate(ds) if i in case["nth"]]
            out.extend(ds)
    if case.get("average"):
        out = [DataSet.average(out)]
    for d in out:
        if case.get("low_pass") is not None:
            d.low_pass(float(case["low_pass"]))
        if case.get("high_pass") is not None:
            d.high_pass(float(case["high_pass"]))
        if case.get("exclude"):
            d.set_mask({i: True for i in case["exclude"]})
    return out


def collect_output(case, printed, out_dir, suffix):
    """what the command wrote: stdout, or the text files of the scratch output directory in name order"""
    if not case.get("to_file"):
        return printed
    ext = {"markdown": "md", "latex": "tex"}.get(case["format"], case["format"])
    names = sorted(n for n in os.listdir(out_dir) if n.endswith("." + ext))
    texts = []
    for n in names:
        with open(os.path.join(out_dir, n)) as fp:
            texts.append(fp.read())
    return "\n\n".join(texts)


def both(api, cli):
    """run the API side and the command-line side; both refusing is agreement, one refusing is a mismatch"""
    api_exc = cli_exc = want = text = None
    try:
        want = api()
    except Exception as ex:  # noqa
        api_exc = ex
    try:
        text = cli()
    except (Exception, SystemExit) as ex:  # noqa
        cli_exc = ex
    if api_exc is not None:
        if cli_exc is None:
            raise Mismatch("cli-succeeds-where-api-raises", f"the API raised {type(api_exc).__name__}: {str(api_exc)[:150]} but the command line printed {text[:150]!r}")
        return None, None
    if cli_exc is not None:
        raise Mismatch(f"cli-raises {type(cli_exc).__name__}", f"the API succeeds but the command line raised {type(cli_exc).__name__}: {str(cli_exc)[:200]}")
    return want, text


def evaluate_case(case):
    """raises Mismatch when the command line and the API disagree; returns (argv used, True when both sides merely refused the input)"""
    tmp = tempfile.mkdtemp(prefix="c19-")
    try:
        out_dir = os.path.join(tmp, "out")
        os.mkdir(out_dir)
        return {"parse": eval_parse, "circuit": eval_circuit, "fit": eval_fit, "drt": eval_drt}[case["cmd"]](case, tmp, out_dir)
    finally:
        shutil.rmtree(tmp, ignore_errors=True)


def eval_parse(case, tmp, out_dir):
    paths = input_args(case, tmp)
    argv = ["parse"] + paths + filter_args(case) + (["--average"] if case.get("average") else []) + output_args(case, out_dir)
    def api():
        return [data_table(d) for d in api_data_sets(case, paths)]
    try:
        pre = api()
    except Exception:  # noqa - handled by both() below
        pre = None
    if pre is not None and any(len(rows) == 0 for _, rows in pre):
        # nothing left to print for one of the data sets: the command line refuses (ValueError), it must not print something else
        try:
            printed = run_cli(argv)
        except ValueError:
            return argv, False
        raise Mismatch("all-masked-not-refused", f"every point is filtered out but the command line printed {printed[:200]!r}")
    want, printed = both(api, lambda: run_cli(argv))
    if want is None:
        return argv, True
    text = collect_output(case, printed, out_dir, "-data")
    got = extract_tables(text, case["format"], [PARSE_COLUMNS], case.get("indices"))
    compare_tables(got, want, case["format"], ordered=not case.get("to_file"))
    return argv, False


def eval_circuit(case, tmp, out_dir):
    import numpy as np
    import pyimpspec
    from pyimpspec.mock_data import generate_mock_circuits

    def circuits():
        out = []
        for cdc in case["cdcs"]:
            if cdc.startswith("<"):
                out.extend(generate_mock_circuits(cdc[1:-1]))
            else:
                out.append(pyimpspec.parse_cdc(cdc))
        return out
    if case.get("limits"):
        argv = ["circuit"] + case["cdcs"] + ["--simulate", "--min-frequency", "0", "--max-frequency", "inf", "--suppress-progress"]

        def api_limits():
            want = []
            for c in circuits():
                for f in (0.0, float("inf")):
                    try:
                        want.append(complex(c.get_impedances(np.array([f]))[0]))
                    except pyimpspec.exceptions.InfiniteLimit:
                        want.append(None)
            return want
        want, printed = both(api_limits, lambda: run_cli(argv))
        if want is None:
            return argv, True
        got = [ln.split("=", 1)[1].strip() for ln in printed.split("\n") if ln.startswith("- Z(f ->")]
        if len(got) != len(want):
            raise Mismatch("limit-count", f"{len(got)} limits printed, {len(want)} expected")
        for g, w in zip(got, want):
            if w is None or not (math.isfinite(w.real) and math.isfinite(w.imag)):
                ok = "inf" in g or "nan" in g
            else:
                try:
                    z = complex(g.replace(" ", ""))
                except ValueError:
                    ok = False
                else:
                    ok = all(abs(a - b) <= 0.505e-3 * 10.0 ** (math.floor(math.log10(abs(b))) if b != 0 else 0) for a, b in ((z.real, w.real), (z.imag, w.imag)))
            if not ok:
                raise Mismatch("limit-value", f"printed limit {g!r}, API limit {w!r}")
        return argv, False
    decades = int(round(math.log10(case["max_f"]) - math.log10(case["min_f"])))
    f = np.logspace(math.log10(case["max_f"]), math.log10(case["min_f"]), num=decades * case["num_per_decade"] + 1)
    cs = None
    try:
        cs = circuits()
    except Exception:  # noqa
        pass
    names = [f"sim{k}" for k in range(len(cs) if cs is not None else len(case["cdcs"]))]
    argv = (["circuit"] + case["cdcs"] + ["--simulate", "--min-frequency", repr(float(case["min_f"])), "--max-frequency", repr(float(case["max_f"])),
                                         "--num-per-decade", str(case["num_per_decade"]), "--output-to", "--output-dir", out_dir, "--output-name"] + names
            + ["--output-format", case["format"], "--suppress-progress"] + (["--output-indices"] if case.get("indices") else []))
    want, _ = both(lambda: [data_table(pyimpspec.simulate_spectrum(c, f)) for c in circuits()], lambda: run_cli(argv))
    if want is None:
        return argv, True
    ext = {"markdown": "md", "latex": "tex"}.get(case["format"], case["format"])
    texts = []
    for n in names:
        p = os.path.join(out_dir, f"{n}.{ext}")
        if not os.path.exists(p):
            raise Mismatch("no-output-file", f"no {n}.{ext} was written")
        with open(p) as fp:
            texts.append(fp.read())
    got = extract_tables("\n\n".join(texts), case["format"], [PARSE_COLUMNS], case.get("indices"))
    compare_tables(got, want, case["format"])
    return argv, False


def eval_fit(case, tmp, out_dir):
    import pyimpspec
    paths = input_args(case, tmp)
    argv = (["fit", case["cdc"]] + paths + filter_args(case) + ["--method", case["method"], "--weight", case["weight"], "--num-procs", "1"]
            + (["--max-nfev", str(case["max_nfev"])] if case.get("max_nfev") is not None else [])
            + (["--num-refinements", str(case["refinements"])] if case.get("refinements") else [])
            + (["--running-count"] if case.get("running") else []) + output_args(case, out_dir))
    ns = cli_defaults(argv)

    def api():
        want = []
        for d in api_data_sets(case, paths):
            kw = dict(method=case["method"], weight=case["weight"], max_nfev=case["max_nfev"] if case.get("max_nfev") is not None else ns.max_nfev,
                      num_procs=1, timeout=ns.timeout)
            fit = pyimpspec.fit_circuit(pyimpspec.parse_cdc(case["cdc"]), data=d, **kw)
            for _ in range(case.get("refinements") or 0):
                fit = pyimpspec.fit_circuit(fit.circuit, data=d, **kw)
            want.append(frame_table(fit.to_parameters_dataframe(running=bool(case.get("running")))))
            want.append(frame_table(fit.to_statistics_dataframe()))
        return want
    want, printed = both(api, lambda: run_cli(argv))
    if want is None:
        return argv, True
    text = collect_output(case, printed, out_dir, "-fit")
    got = extract_tables(text, case["format"], [w[0] for w in want], case.get("indices"))
    compare_tables(got, want, case["format"])
    return argv, False


def eval_drt(case, tmp, out_dir):
    import pyimpspec
    paths = input_args(case, tmp)
    settings = dict(case["settings"])
    flags = []
    for k, v in settings.items():
        if isinstance(v, bool):
            flags += [DRT_FLAGS[k]] if v else []
        else:
            flags += [DRT_FLAGS[k], repr(v) if isinstance(v, float) else str(v)]
    argv = (["drt"] + paths + filter_args(case) + flags + ["--num-procs", "1"]
            + (["--threshold", repr(float(case["threshold"]))] if case.get("threshold") is not None else []) + output_args(case, out_dir))
    ns = cli_defaults(argv)

    def api():
        kwargs = {k: getattr(ns, k) for k in DRT_FLAGS}          # settings not given on the command line: its declared defaults
        kwargs.update(settings)
        kwargs["circuit"] = pyimpspec.parse_cdc(kwargs["circuit"])
        kwargs["num_procs"] = 1
        want = []
        for d in api_data_sets(case, paths):
            drt = pyimpspec.calculate_drt(d, **kwargs)
            want.append(frame_table(drt.to_statistics_dataframe()))
            if case.get("threshold") is not None:
                want.append(frame_table(drt.to_peaks_dataframe(threshold=float(case["threshold"]))))
            if kwargs["method"] == "bht":
                want.append(frame_table(drt.to_scores_dataframe()))
        return want
    want, printed = both(api, lambda: run_cli(argv))
    if want is None:
        return argv, True
    text = collect_output(case, printed, out_dir, "-drt")
    got = extract_tables(text, case["format"], [w[0] for w in want], case.get("indices"))
    compare_tables(got, want, case["format"])
    return argv, False
