"""C15 bounded layer (Layer R): every sequence of registry operations up to length L (register valid / inconsistent /
duplicate-symbol / invalid-symbol / built-in-class definitions with either private flag, remove, reset, class default
changes), with all observers (get_elements under the four flag combinations, the built-in classes, parse_cdc of probe
strings) evaluated after every step and compared with a reference model and with a fresh-import snapshot.
The registry is process-global: every first operation runs in its own forked worker, and inside a worker the state is
restored from a harness-level snapshot (module dictionaries and class attributes) after every step.
BOUNDED - never counted as proved."""
import multiprocessing as mp
import os
import re
import sys

sys.path.insert(0, __file__.rsplit("/bounded/", 1)[0])
from bounded.common import Result, guarded  # noqa: E402

OPS_SRC = open(os.path.join(os.path.dirname(os.path.abspath(__file__)), "c15_ops.py")).read()

QUICK_ALPHABET = [
    "register(A)", "register(A,private=True)", "register(B)", "register(B,private=True)", "register(inconsistent)", "register(duplicate-of-R)",
    "register(A,symbol='RX')", "register(Resistor-as-Zz)", "remove(A)", "remove(B)", "remove(Resistor)", "reset()", "reset(default_parameters=False)",
    "reset(elements=False)", "Resistor.set_default_values(R=123)", "reset_default_parameter_values()",
]
PARSING_ERRORS = None
REG_DICTS = ("_ELEMENTS", "_DEFAULT_ELEMENTS", "_PRIVATE_ELEMENTS", "_DEFAULT_ELEMENT_PARAMETERS")
CLASS_ATTRS = ("_symbol", "_name", "_description", "_equation", "_parameter_unit", "_parameter_description", "_parameter_default_value", "_parameter_default_lower_limit",
               "_parameter_default_upper_limit", "_parameter_default_fixed", "_valid_kwargs_keys", "__doc__", "_subcircuit_unit", "_subcircuit_description", "_subcircuit_default_value")
USER_SYMBOL = {"A": "Rx", "B": "U"}
USER_CLASS = {"A": "UserA", "B": "UserB"}
USER_VALUES = {"UserA": (("R", 5.0), ("X", -5.0)), "UserB": (("G", 0.25),)}


# ------------------------------------------------------------------ harness-level state handling
class State:
    def __init__(self, ops):
        import pyimpspec.circuit.registry as registry
        self.registry = registry
        self.tracked = list(registry._DEFAULT_ELEMENTS.values()) + [ops.UserA, ops.UserB, ops.UserInconsistent, ops.UserDuplicate]

    @staticmethod
    def _copy(v):
        return dict(v) if isinstance(v, dict) else (set(v) if isinstance(v, set) else v)

    def snapshot(self):
        regs = {n: dict(getattr(self.registry, n)) for n in REG_DICTS}
        regs["_DEFAULT_ELEMENT_PARAMETERS"] = {k: dict(v) for k, v in regs["_DEFAULT_ELEMENT_PARAMETERS"].items()}
        classes = [{a: self._copy(cls.__dict__[a]) for a in CLASS_ATTRS if a in cls.__dict__} for cls in self.tracked]
        return regs, self.registry._VALIDATE_IMPEDANCES, classes

    def restore(self, snap):
        regs, flag, classes = snap
        for n in REG_DICTS:
            d = getattr(self.registry, n)
            d.clear()
            d.update({k: (dict(v) if n == "_DEFAULT_ELEMENT_PARAMETERS" else v) for k, v in regs[n].items()})
        self.registry._VALIDATE_IMPEDANCES = flag
        for cls, saved in zip(self.tracked, classes):
            for a in CLASS_ATTRS:
                if a in saved:
                    setattr(cls, a, self._copy(saved[a]))
                elif a in cls.__dict__:
                    delattr(cls, a)

    def key(self):
        def freeze(v):
            if isinstance(v, dict):
                return tuple((k, freeze(x)) for k, x in v.items())
            if isinstance(v, set):
                return tuple(sorted(v))
            if isinstance(v, type):
                return v.__name__
            if isinstance(v, (str, int, float, bool, type(None))):
                return v
            return id(v)
        regs = tuple(freeze(getattr(self.registry, n)) for n in REG_DICTS)
        classes = tuple(tuple(freeze(cls.__dict__.get(a)) for a in CLASS_ATTRS if a not in ("__doc__", "_subcircuit_default_value")) for cls in self.tracked)
        return hash((regs, self.registry._VALIDATE_IMPEDANCES, classes))


# ------------------------------------------------------------------ reference model
class Model:
    def __init__(self, fresh_r):
        self.registered = {}          # user symbol -> (class name, private flag or None when either is acceptable)
        self.fresh_r = fresh_r
        self.r_default = fresh_r

    def copy(self):
        m = Model(self.fresh_r)
        m.registered, m.r_default = dict(self.registered), self.r_default
        return m

    def key(self):
        return (tuple(sorted(self.registered.items())), self.r_default)

    def is_fresh(self):
        return not self.registered and self.r_default == self.fresh_r

    def expected_outcome(self, op):
        """'ok', 'raise' or 'either'"""
        if op.startswith(("register(A,symbol", "register(inconsistent", "register(duplicate")) or op in ("remove(Resistor)", "remove([A,Resistor])"):
            return "raise"
        if op.startswith("register(Resistor-as-Zz"):
            return "either"             # refusing is fine; what matters is that the built-in stays intact (checked by the observers)
        return "ok"

    def apply(self, op, raised):
        if raised:
            return
        private = "private=True" in op
        for which in ("A", "B"):
            if op.startswith(f"register({which})") or op.startswith(f"register({which},private"):
                symbol = USER_SYMBOL[which]
                if symbol in self.registered:
                    old = self.registered[symbol][1]
                    self.registered[symbol] = (USER_CLASS[which], old if old == private else None)
                else:
                    self.registered[symbol] = (USER_CLASS[which], private)
        if op.startswith("register(Resistor-as-Zz"):
            old = self.registered.get("Zz")
            self.registered["Zz"] = ("Resistor", private if old is None or old[1] == private else None)
        if op in ("remove(A)", "remove([A,B])"):
            self.registered.pop("Rx", None)
        if op in ("remove(B)", "remove([A,B])"):
            self.registered.pop("U", None)
        if op in ("reset()", "reset(default_parameters=False)"):
            self.registered = {}
        if op in ("reset()", "reset(elements=False)", "reset_default_parameter_values()", "reset_default_parameter_values(Resistor)"):
            self.r_default = self.fresh_r
        if op == "Resistor.set_default_values(R=123)":
            self.r_default = 123.0


# ------------------------------------------------------------------ contract evaluation
def family(op):
    return op.split("(")[0].split(".")[-1].replace("_elements", "")


def last_clearing_op(seq):
    """the most recent reset/remove before the last registration - names the operation that should have cleared a flag"""
    for op in reversed(seq[:-1]):
        if op.startswith(("reset(", "remove(")):
            return family(op)
    return family(seq[-1])


def repro(seq, snippet):
    return OPS_SRC + f"\nfresh = observe()\nsequence = {list(seq)!r}\noutcomes = run(sequence[:-1])\nbefore = (internal(), builtin_state())\noutcomes += run(sequence[-1:])\n" + snippet + "\n"


def check_step(ops, fresh, model_before, model, seq, raised, exc_name, before_internal):
    """violations after the last operation of seq as [(key, function, what, repro)]"""
    op = seq[-1]
    out = []
    expected = model_before.expected_outcome(op)
    fn = {"register": "register_element", "remove": "remove_elements", "reset": "reset", "set_default_values": "Element.set_default_values", "reset_default_parameter_values": "reset_default_parameter_values"}[family(op)]
    shown = " -> ".join(seq)
    if expected == "raise" and not raised:
        what = {"register(inconsistent": "register:inconsistent-element-accepted", "register(duplicate": "register:duplicate-builtin-symbol-accepted", "register(A,symbol": "register:invalid-symbol-accepted", "remove(": "remove:builtin-not-refused"}
        key = next(v for k, v in what.items() if op.startswith(k))
        out.append((key, fn, f"{shown}: the last operation must be refused but was accepted", repro(seq, 'assert outcomes[-1] is not None, "the operation was accepted"')))
        return out
    if expected == "ok" and raised:
        out.append((f"{family(op)}:valid-operation-refused:{exc_name}", fn, f"{shown}: the last operation raised {exc_name}", repro(seq, "assert outcomes[-1] is None, outcomes[-1]")))
        return out
    obs = ops.observe()
    # 1. a refused operation changes nothing
    if raised and (ops.internal(), obs["builtins"]) != before_internal:
        out.append((f"{family(op)}:refused-but-state-changed", fn, f"{shown}: the last operation raised {exc_name} but the registry or a built-in class changed",
                    repro(seq, "assert (internal(), builtin_state()) == before")))
        return out
    # 2. built-in classes are intact (only the resistor's default value follows set_default_values)
    exp_builtins = dict(fresh["builtins"])
    r = list(exp_builtins["R"])
    r[4] = (("R", model.r_default),)
    exp_builtins["R"] = tuple(r)
    if obs["builtins"] != exp_builtins:
        diff = [s for s in exp_builtins if obs["builtins"].get(s) != exp_builtins[s]] + [s for s in obs["builtins"] if s not in exp_builtins]
        key = "register:builtin-class-rewritten" if family(op) == "register" else f"{family(op)}:builtin-class-changed"
        out.append((key, fn, f"{shown}: built-in element(s) {diff} differ from the freshly imported ones: {obs['builtins'].get(diff[0])} instead of {exp_builtins.get(diff[0])}",
                    repro(seq, f'expected = dict(fresh["builtins"]); r = list(expected["R"]); r[4] = (("R", {model.r_default!r}),); expected["R"] = tuple(r)\nassert builtin_state() == expected')))
        return out
    # 3. listings
    for flags in ops.FLAGS:
        default_only, private = flags
        either = {s for s, (_, p) in model.registered.items() if p is None}
        exp = dict(fresh["listings"][flags])
        if not default_only:
            for s, (cls, p) in model.registered.items():
                if private or not p:
                    exp[s] = cls
        got = dict(obs["listings"][flags])
        if not private:
            for s in either:
                exp.pop(s, None)
                got.pop(s, None)
        if got != exp:
            missing, extra = sorted(set(exp) - set(got)), sorted(set(got) - set(exp))
            wrong = sorted(s for s in set(exp) & set(got) if exp[s] != got[s])
            if missing and not private and all(s in dict(obs["listings"][(default_only, True)]) for s in missing):
                key = f"{last_clearing_op(seq)}:private-registration-survives"
            elif extra and default_only:
                key = f"{family(op)}:user-element-listed-as-default"
            elif extra:
                key = f"{family(op)}:stale-element-listed"
            elif missing:
                key = f"{family(op)}:registered-element-not-listed"
            else:
                key = f"{family(op)}:symbol-bound-to-wrong-class"
            out.append((key, "get_elements", f"{shown}: get_elements(default_only={default_only}, private={private}) misses {missing}, has unexpected {extra}, wrong class for {wrong}",
                        repro(seq, f"got = dict(listings()[{flags!r}])\nfor s in {sorted(either) if not private else []!r}: got.pop(s, None)\nassert got == {exp!r}, got")))
            return out
        if [k for k, _ in obs["listings"][flags]] != sorted(k for k, _ in obs["listings"][flags]):
            out.append(("get_elements:not-sorted", "get_elements", f"{shown}: keys are not sorted", repro(seq, f"keys = [k for k, _ in listings()[{flags!r}]]\nassert keys == sorted(keys)")))
            return out
    # 4. the parser recognises exactly the registered symbols, longest symbol wins
    builtin_symbols = {s: v[0] for s, v in fresh["builtins"].items()}
    for text, got in obs["probes"].items():
        tokens = re.findall(r"[A-Za-z][a-z0-9_]*", text)
        if "".join(tokens) != text:
            raise AssertionError("harness: probe is not a plain symbol sequence")
        known = all(t in builtin_symbols or t in model.registered for t in tokens)
        if not known:
            if got[0] != "rejected":
                out.append(("parser:unregistered-symbol-accepted", "Parser.element", f"{shown}: parse_cdc({text!r}) is accepted although {[t for t in tokens if t not in builtin_symbols and t not in model.registered]} is not registered",
                            repro(seq, f'assert probe({text!r})[0] == "rejected"')))
                return out
            if got[1] not in PARSING_ERRORS:
                out.append((f"parser:unregistered-symbol:{got[1]}", "Parser.element", f"{shown}: parse_cdc({text!r}) raised {got[1]} instead of a parsing error", repro(seq, f'assert probe({text!r})[1] in {sorted(PARSING_ERRORS)!r}')))
                return out
            continue
        exp_elements = []
        for t in tokens:
            cls = builtin_symbols.get(t) or model.registered[t][0]
            if cls == "Resistor":
                values = (("R", model.r_default),)
            elif cls in USER_VALUES:
                values = USER_VALUES[cls]
            else:
                values = fresh["builtins"][t][4]
            exp_elements.append((cls, t, values))
        if got[0] != "ok":
            out.append(("parser:registered-symbol-rejected", "Parser.element", f"{shown}: parse_cdc({text!r}) raised {got[1]} although every symbol is registered", repro(seq, f'assert probe({text!r})[0] == "ok", probe({text!r})')))
            return out
        if got[1] != exp_elements:
            if [g[0] for g in got[1]] != [e[0] for e in exp_elements]:
                key = "parser:wrong-class-for-symbol"
            elif [g[1] for g in got[1]] != [e[1] for e in exp_elements]:
                key = "register:builtin-class-rewritten" if any(g[0] in builtin_symbols.values() for g in got[1]) else "parser:class-symbol-differs-from-registered-symbol"
            else:
                key = "parser:stale-default-values"
            out.append((key, "Parser.element", f"{shown}: parse_cdc({text!r}) gives {got[1]}, expected {exp_elements}", repro(seq, f"assert probe({text!r})[1] == {exp_elements!r}, probe({text!r})")))
            return out
    # 5. back in the fresh model state the library behaves exactly as freshly imported
    if model.is_fresh() and obs != fresh:
        part = next(k for k in obs if obs[k] != fresh[k])
        sub = next(k for k in obs[part] if obs[part][k] != fresh[part].get(k))
        out.append((f"{last_clearing_op(seq + ['x'])}:not-as-freshly-imported", fn, f"{shown}: {part}[{sub!r}] is {obs[part][sub]} but {fresh[part].get(sub)} after a fresh import", repro(seq, "assert observe() == fresh")))
    return out


# ------------------------------------------------------------------ exploration
def run_subtree(args):
    first, alphabet, depth = args
    import pyimpspec  # noqa
    from pyimpspec.exceptions import ParsingError
    from bounded import c15_ops as ops
    global PARSING_ERRORS
    PARSING_ERRORS = {c.__name__ for c in ParsingError.__subclasses__()} | {"ParsingError"}
    state = State(ops)
    fresh = ops.observe()
    fresh_key = state.key()
    if ops.observe() != fresh or state.key() != fresh_key:
        raise AssertionError("harness: observing is not repeatable")
    model0 = Model(dict(fresh["builtins"]["R"][4])["R"])
    stats = {"steps": 0, "pruned": 0, "refused": 0}
    memo, fails, samples = {}, {}, []

    def step(model, seq, op):
        """executes op in the current state; returns (violations, model after)"""
        before = (ops.internal(), ops.builtin_state())
        exc_name = None
        try:
            ops.OPS[op]()
        except Exception as ex:  # noqa - refused operations are part of the alphabet
            exc_name = type(ex).__name__
        stats["steps"] += 1
        stats["refused"] += exc_name is not None
        m2 = model.copy()
        m2.apply(op, exc_name is not None)
        k0 = state.key()
        violations = check_step(ops, fresh, model, m2, seq + [op], exc_name is not None, exc_name, before)
        if not violations and state.key() != k0:
            violations = [("observe:mutates-registry", "get_elements", f"{' -> '.join(seq + [op])}: observing (get_elements/parse_cdc) changed the registry", "raise SystemExit(1)")]
        return violations, m2

    def explore(model, seq, depth_left):
        """number of sequences (length 1..depth_left) that extend seq, all evaluated directly or through an equivalent state"""
        total = 0
        for op in alphabet:
            snap = state.snapshot()
            violations, m2 = step(model, seq, op)
            total += 1
            if violations:
                for v in violations:
                    if v[0] not in fails or len(v[2]) < len(fails[v[0]][2]):
                        fails[v[0]] = v
            elif depth_left > 1:
                key = (state.key(), m2.key(), depth_left - 1)
                if key in memo:
                    stats["pruned"] += 1
                else:
                    memo[key] = explore(m2, seq + [op], depth_left - 1)
                total += memo[key]
            if len(samples) < 2 and depth_left == 1 and not violations:
                samples.append({"sequence": seq + [op], "registered": dict(m2.registered), "R default": m2.r_default})
            state.restore(snap)
        return total

    snap0 = state.snapshot()
    violations, m1 = step(model0, [], first)
    total = 1
    if violations:
        for v in violations:
            fails[v[0]] = v
    elif depth > 1:
        total += explore(m1, [first], depth - 1)
    state.restore(snap0)
    if state.key() != fresh_key or ops.observe() != fresh:
        raise AssertionError("harness: the snapshot/restore of the registry state is incomplete")
    return first, total, stats, list(fails.values()), samples


def main(a):
    import pyimpspec  # noqa
    from bounded import c15_ops as ops
    thorough = a.tier != "quick"
    alphabet = list(ops.OPS) if thorough else QUICK_ALPHABET
    depth = 5 if thorough else 4
    if not set(alphabet) <= set(ops.OPS):
        raise AssertionError("harness: unknown operation")
    res = Result(
        "C15",
        f"all sequences of length <= {depth} over {len(alphabet)} registry operations (register valid/inconsistent/duplicate-symbol/invalid-symbol/built-in-class definitions with either private flag, two user classes, "
        f"remove user/built-in, reset with every flag combination, Resistor.set_default_values, reset_default_parameter_values); after every step: get_elements under the 4 (default_only, private) combinations, "
        f"all built-in classes, parse_cdc of {len(ops.PROBES)} probe strings",
        "depth-first enumeration of operation sequences, one forked worker per first operation; the process-global registry is restored after every step from a harness-level snapshot of the registry dictionaries and class "
        "attributes (completeness of the snapshot is asserted at the end of each worker); read-only operations (get_elements, parse_cdc) are evaluated after every step instead of being sequence members; a sub-tree is "
        "skipped when the same (real state, model state, remaining depth) was explored before, so every sequence is evaluated directly or through an identical state; each step is compared with a reference model "
        "(registered symbols, private flags, resistor default) and, whenever the model is back in its initial state, with the observations of the fresh import; distinct = executed (state, operation) steps")
    total_sequences = 0
    with mp.get_context("fork").Pool(min(16, len(alphabet))) as pool:
        for first, total, stats, fails, samples in pool.imap_unordered(run_subtree, [(op, alphabet, depth) for op in alphabet]):
            total_sequences += total
            for i in range(stats["steps"]):
                res.case((first, i))
            res.samples += samples[:1]
            res.part(first, sequences_represented=total, **stats)
            for key, fn, what, rep in fails:
                old = next((f for f in res.failures if f["key"] == key), None)
                if old is not None and len(what) < len(old["what"]):
                    res.failures.remove(old)
                res.fail(key, fn, what, rep)
    res.failures.sort(key=lambda f: f["key"])
    res.samples = res.samples[:12]
    res.part("total", sequences_represented=total_sequences, expected=sum(len(alphabet) ** k for k in range(1, depth + 1)))
    return res


if __name__ == "__main__":
    guarded(main)
