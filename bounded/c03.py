"""C03 bounded layer (Layer R): a grammar-directed printer that knows the intended syntax tree.
Contract 1 (round trip): serialize -> parse_cdc gives an equivalent circuit, re-serialisation is the identity (after one
normalisation), a deep copy serialises identically.  Contract 2 (spellings): every alternative spelling the CDC syntax
allows for a tree parses to that same tree; elements never move across a container's sub-circuit boundary.
BOUNDED - never counted as proved."""
import copy
import itertools
import multiprocessing as mp
import os
import sys

sys.path.insert(0, __file__.rsplit("/bounded/", 1)[0])
from bounded.common import Result, guarded  # noqa: E402
from bounded import c03_tree as T  # noqa: E402

TREE_SRC = open(os.path.join(os.path.dirname(os.path.abspath(__file__)), "c03_tree.py")).read()
INF = float("inf")
TYPES = ("R", "C", "Q", "W", "L", "Tlm")
DECIMALS = (1, 6, 12, 17)
SLOTS = ("X_1", "X_2", "Z_A", "Z_B", "Zeta")
PROBE_F = (1.0, 1e3)

# ------------------------------------------------------------------ class information and tree constructors
_INFO = {}


def info(sym):
    """(default parameter tuples, default sub-circuit trees) of a registered class"""
    if sym not in _INFO:
        from pyimpspec.circuit.registry import get_elements
        from pyimpspec.circuit.base import Container
        cls = get_elements(private=True)[sym]
        dv, dl, du, df = cls.get_default_values(), cls.get_default_lower_limits(), cls.get_default_upper_limits(), cls.are_fixed_by_default()
        params = tuple((k, dv[k], dl[k], du[k], df[k]) for k in dv)
        subs = ()
        if issubclass(cls, Container):
            subs = tuple((k, T.norm(T.extract(v))) for k, v in cls.get_default_subcircuits().items())
        _INFO[sym] = (params, subs)
    return _INFO[sym]


def E(sym, label="", params=None, subs=None):
    dp, ds = info(sym)
    params = params or {}
    subs = subs or {}
    if not set(params) <= {p[0] for p in dp} or not set(subs) <= {s[0] for s in ds}:
        raise AssertionError("harness: unknown key")
    return ("E", sym, label, tuple((p[0],) + tuple(params.get(p[0], p[1:])) for p in dp), tuple((k, subs.get(k, s)) for k, s in ds))


def S(*children):
    return ("S", tuple(children))


def P(*children):
    return ("P", tuple(children))


def param_variants(p):
    """named (value, lower, upper, fixed) settings of one parameter; all keep the value within the limits and keep
    value/limits distinct at one printed decimal"""
    k, dv, dl, du, df = p
    v1 = dv * 1.2345678901234567
    if not dl <= v1 <= du:
        v1 = dv * 0.8765432109876543
    hi = du if du != INF else abs(dv) * 1e6
    return [
        ("default", (dv, dl, du, df)),
        ("value", (v1, dl, du, df)),
        ("fixed-toggled", (v1, dl, du, not df)),
        ("unbounded", (v1, -INF, INF, df)),
        ("lower-moved", (v1, v1 / 2, du, df)),
        ("upper-moved", (v1, dl, v1 * 2, df)),
        ("both-moved", (v1, v1 / 2, v1 * 2, not df)),
        ("limits-above-default", (hi * 2.5, hi * 2, hi * 3, df)),
        ("limits-below-default", (-2.5, -5.0, -1.0, df)),
        ("percent", (dv, dv * 50.0 / 100, dv * 150.0 / 100, df)),
        ("negative-unbounded", (-v1, -INF, INF, df)),
        ("upper-limit-zero", (-2.5, -5.0, 0.0, df)),          # a limit of exactly 0 is a limit
        ("lower-limit-zero", (2.5, 0.0, 5.0, df)),
    ]


def element_variants(sym, thorough):
    """(name, element tree): one parameter varied at a time, and all parameters varied together"""
    dp, _ = info(sym)
    out = []
    for i, p in enumerate(dp):
        for name, setting in param_variants(p):
            if name == "default" and i > 0:
                continue
            out.append((f"{name}", E(sym, params={p[0]: setting})))
    if len(dp) > 1:
        names = [n for n, _ in param_variants(dp[0])]
        for j, name in enumerate(names):
            if name == "default":
                continue
            out.append((f"{name}", E(sym, params={p[0]: dict(param_variants(p))[name] for p in dp})))
            if thorough:
                # different settings on different parameters
                other = names[(j + 3) % len(names)]
                out.append((f"{name}+{other}", E(sym, params={p[0]: dict(param_variants(p))[name if i % 2 == 0 else other] for i, p in enumerate(dp)})))
    return out


def topologies(n, kind):
    """normal-form series/parallel trees with n leaves (None) under a root of the given kind, >= 2 children per node"""
    other = "P" if kind == "S" else "S"

    def compositions(n):
        for k in range(2, n + 1):
            for cuts in itertools.combinations(range(1, n), k - 1):
                yield [b - a for a, b in zip((0,) + cuts, cuts + (n,))]
    for sizes in compositions(n):
        options = [[None] if s == 1 else list(topologies(s, other)) for s in sizes]
        for children in itertools.product(*options):
            yield (kind, tuple(children))


def top_level_shapes(max_leaves):
    yield ("S", (None,))
    for n in range(2, max_leaves + 1):
        yield from topologies(n, "S")
        for t in topologies(n, "P"):
            yield ("S", (t,))


def fill(shape, leaves):
    it = iter(leaves)

    def rec(node):
        if node is None:
            return next(it)
        return (node[0], tuple(rec(c) for c in node[1]))
    return rec(shape)


def count_leaves(shape):
    return 1 if shape is None else sum(count_leaves(c) for c in shape[1])


def slot_options():
    r = E("R", params={"R": (2.0, 0.0, INF, False)})
    c = E("C")
    q = E("Q")
    return [
        ("open", None),
        ("short", S()),
        ("one-element", S(r)),
        ("series", S(r, c)),
        ("parallel", S(P(r, c))),
        ("mixed", S(r, P(c, q))),
        ("nested-container", S(E("Tlm"))),
        ("element+nested-container", S(r, E("Tlm", subs={"X_1": S(c)}))),
    ]


def tlm_contexts():
    r, c = E("R", params={"R": (10.0, 0.0, INF, False)}), E("C")
    return [
        ("alone", lambda t: S(t)),
        ("preceded", lambda t: S(r, t)),
        ("followed", lambda t: S(t, c)),
        ("between", lambda t: S(r, t, c)),
        ("in-parallel", lambda t: S(P(r, t))),
        ("in-parallel-first", lambda t: S(P(t, r))),
        ("in-nested-series", lambda t: S(P(r, S(c, t)))),
        ("two-containers", lambda t: S(t, E("Tlm", label="second"))),
    ]


def element_contexts():
    r, c = E("R"), E("C")
    return [
        ("alone", lambda x: S(x)),
        ("series-middle", lambda x: S(r, x, c)),
        ("parallel", lambda x: S(P(x, r))),
        ("sub-circuit-series", lambda x: S(E("Tlm", subs={"X_1": S(x)}))),
        ("sub-circuit-parallel", lambda x: S(r, E("Tlm", subs={"Z_B": S(P(c, x))}))),
    ]


LABELS = [
    ("plain", ["a", "abc", "Rct", "inf", "open", "F", "e5"]),
    ("with-digits", ["a1", "x2y", "R2D2"]),
    ("with-underscore", ["a_b", "a_", "dl_1"]),
    ("with-spaces", ["a b", "my label", "a  b"]),
    ("with-special-characters", ["a-b", "a.b", "a+b", "a/b", "a=b", "a,b", "a:b", "a%b", "a!b", "a(b)", "a[b]", "a]b", "a)b", "a#b", "a\tb"]),
    ("balanced-braces", ["a{b}", "a{}", "a{b{c}}d"]),
    ("digit-initial", ["1a", "2nd", "1e3x", "0_a"]),
    ("non-alnum-initial", ["_a", "-a", ".a", "#1", "(a)", "-1a", "+a", "*"]),
    ("unbalanced-brace", ["a}b", "a{b", "a}", "{a"]),
]

# ------------------------------------------------------------------ the printer (spellings)
CANONICAL = {"outer": "explicit", "header": "V", "ws": "", "omit": False, "limits": "full", "percent": False, "fixed": "F",
             "number": "sci", "short": "short", "open": "open", "bare": False, "parwrap": False, "order": "default"}
ALTERNATIVES = {"outer": ["implicit"], "header": ["none", "v"], "ws": [" ", "\n", " \t "], "omit": [True], "limits": ["minimal"],
                "percent": [True], "fixed": ["f"], "number": ["repr", "int"], "short": ["zero"], "open": ["inf"], "bare": [True],
                "parwrap": [True], "order": ["reversed"]}


def num_text(x, sp):
    if sp["number"] == "int" and x == int(x) and abs(x) < 1e15:
        return str(int(x))
    if sp["number"] in ("repr", "int"):
        return repr(float(x))
    return "%.16E" % x


def limit_tokens(lim, v, sp):
    if lim in (INF, -INF):
        return ["inf"]
    if sp["percent"] and v != 0:
        p = round(lim / v * 100, 9)
        if v * p / 100 == lim:
            return [num_text(p, sp), "%"]
    return [num_text(lim, sp)]


def param_tokens(p, default, sp):
    k, v, lo, up, fx = p
    toks = [k, "=", num_text(v, sp) + (sp["fixed"] if fx else "")]
    lower_default, upper_default = lo == default[2], up == default[3]
    if sp["limits"] == "minimal" and lower_default and upper_default:
        return toks
    if sp["limits"] == "minimal" and upper_default:
        return toks + ["/"] + limit_tokens(lo, v, sp)
    if sp["limits"] == "minimal" and lower_default:
        return toks + ["/", "/"] + limit_tokens(up, v, sp)
    return toks + ["/"] + limit_tokens(lo, v, sp) + ["/"] + limit_tokens(up, v, sp)


def sub_tokens(sub, sp):
    if sub is None:
        return [sp["open"]]
    kind, children = sub
    if kind != "S":
        raise AssertionError("harness: sub-circuit trees are normalised to a series")
    if not children:
        return [sp["short"]]
    if sp["bare"] and all(c[0] == "E" for c in children):
        return [t for c in children for t in node_tokens(c, sp)]
    if len(children) == 1 and children[0][0] == "P" and not sp["parwrap"]:
        return node_tokens(children[0], sp)
    return node_tokens(sub, sp)


def node_tokens(node, sp):
    if node[0] in ("S", "P"):
        opening, closing = ("[", "]") if node[0] == "S" else ("(", ")")
        return [opening] + [t for c in node[1] for t in node_tokens(c, sp)] + [closing]
    _, sym, label, params, subs = node
    dp, ds = info(sym)
    items = []
    for (k, sub), (_, dsub) in zip(subs, ds):
        if sp["omit"] and sub == dsub:
            continue
        items.append([k, "="] + sub_tokens(sub, sp))
    for p, d in zip(params, dp):
        if sp["omit"] and p == d:
            continue
        items.append(param_tokens(p, d, sp))
    if sp["order"] == "reversed":
        items.reverse()
    if not items and label == "":
        return [sym]
    toks = [sym, "{"]
    for i, item in enumerate(items):
        toks += ([","] if i else []) + item
    if label != "":
        toks += [":", label]
    return toks + ["}"]


def spell(tree, sp):
    toks = []
    if sp["header"] != "none":
        toks += ["!", sp["header"], "=", "1", "!"]
    if sp["outer"] == "explicit" or not tree[1]:
        toks += node_tokens(tree, sp)
    else:
        toks += [t for c in tree[1] for t in node_tokens(c, sp)]
    ws = sp["ws"]
    return ws + ws.join(toks) + ws


HAND_WRITTEN = (("outer", "implicit"), ("header", "none"), ("number", "repr"), ("omit", True), ("limits", "minimal"))


def spellings(tree, pairs):
    """{text: feature tuple} - the canonical (serialiser-like) and the hand-written base spelling, every single alternative on
    top of either base, optionally every pair of alternatives on top of the canonical one"""
    out = {}
    singles = [(f, v) for f, vs in ALTERNATIVES.items() for v in vs]
    combos = [()] + [(s,) for s in singles] + [HAND_WRITTEN] + [HAND_WRITTEN + (s,) for s in singles if s[0] not in dict(HAND_WRITTEN)]
    if pairs:
        combos += [(a, b) for a, b in itertools.combinations(singles, 2) if a[0] != b[0]]
    for combo in combos:
        sp = dict(CANONICAL)
        sp.update(dict(combo))
        out.setdefault(spell(tree, sp), combo)
    return out


# ------------------------------------------------------------------ contracts
SPELLING_REPRO = TREE_SRC + """
from pyimpspec import parse_cdc
expected = @expected@
got = norm(extract(parse_cdc(@text@)))
assert got == expected, describe(got, expected)
"""

ROUNDTRIP_REPRO = TREE_SRC + """
import copy
import numpy as np
from pyimpspec import Circuit, parse_cdc
tree = @tree@
decimals = @decimals@
c = Circuit(build(tree))
text = c.serialize(decimals)
c2 = parse_cdc(text)
got, expected = norm(extract(c2)), norm(rounded(tree, decimals))
assert got == expected, describe(got, expected)
assert c2.serialize(decimals) == Circuit(build(@normal@)).serialize(decimals), "re-serialisation differs from the serialisation of the normalised circuit"
t2 = c2.serialize()
assert parse_cdc(t2).serialize() == t2, "re-serialisation is not the identity"
assert copy.deepcopy(c).serialize(decimals) == text, "a deep copy serialises differently"
def z(circuit):
    try:
        return circuit.get_impedances(np.array([1.0, 1e3])).tolist()
    except Exception as ex:
        return type(ex).__name__
a, b = z(c2), z(Circuit(build(rounded(tree, decimals))))
assert type(a) is type(b) and (a == b if isinstance(a, str) else np.allclose(a, b, rtol=1e-12, atol=0)), (a, b)
"""


def parser_normal(tree, top=True):
    """norm(tree) in the shape the parser builds: a sub-circuit that is a series around one parallel is that parallel"""
    tree = T.norm(tree) if top else tree
    if tree is None:
        return None
    if tree[0] != "E":
        return (tree[0], tuple(parser_normal(c, False) for c in tree[1]))
    subs = []
    for k, sub in tree[4]:
        sub = parser_normal(sub, False)
        if sub is not None and sub[0] == "S" and len(sub[1]) == 1 and sub[1][0][0] == "P":
            sub = sub[1][0]
        subs.append((k, sub))
    return tree[:4] + (tuple(subs),)


def fill_template(template, **kw):
    for k, v in kw.items():
        template = template.replace("@" + k + "@", repr(v))
    return template


def compare(got, expected):
    """None or (symptom, text)"""
    if got == expected:
        return None
    kind, text = T.describe(got, expected)
    gl, el = T.leaves(got), T.leaves(expected)
    if sorted(s for s, _ in gl) == sorted(s for s, _ in el) and sorted(gl) != sorted(el):
        kind = "swallows-preceding-elements" if sum(d for _, d in gl) > sum(d for _, d in el) else "moves-elements-out-of-subcircuit"
    return kind, text


def check_spelling(tree, text):
    from pyimpspec import parse_cdc
    try:
        c = parse_cdc(text)
    except Exception as ex:  # noqa - any rejection of a valid spelling violates the contract
        return "rejected-" + type(ex).__name__, f"{type(ex).__name__}: {ex}"
    return compare(T.norm(T.extract(c)), tree)


def spelling_key(features, symptom):
    used = sorted({f for f, _ in features})
    names = "+".join(used) or "canonical"
    if "bare" in used and symptom == "swallows-preceding-elements":
        return "subcircuit:swallows-preceding-elements"
    if "bare" in used and symptom == "order":
        return "subcircuit:bare-list-order-reversed"
    if "bare" in used:
        return f"subcircuit:bare-list:{symptom}" + ("" if used == ["bare"] else ":with-" + "+".join(u for u in used if u != "bare"))
    return f"spelling:{names}:{symptom}"


def run_spelling(case):
    _, family, tree, pairs = case
    tree = T.norm(tree)
    cases, fails = [], []
    variants = spellings(tree, pairs)
    for text, features in variants.items():
        cases.append((("sp", text), True))
        bad = check_spelling(tree, text)
        if bad is None:
            continue
        # attribute the failure to a smallest set of alternatives that shows the same symptom
        culprit, ctext, cbad = list(features), text, bad
        for f in features:
            fewer = [g for g in culprit if g != f]
            sp = dict(CANONICAL)
            sp.update(dict(fewer))
            t1 = spell(tree, sp)
            b1 = check_spelling(tree, t1)
            if b1 is not None and b1[0] == bad[0]:
                culprit, ctext, cbad = fewer, t1, b1
        key = spelling_key(culprit, cbad[0])
        if len(text) < len(ctext):
            ctext, cbad = text, bad         # same symptom, shorter text
        fails.append((key, "Parser.subcircuit" if key.startswith("subcircuit") else "Parser.process",
                      f"[{family}] spelling {ctext!r} (responsible alternatives: {dict(culprit) or 'none'}) of the tree serialised as {spell(tree, CANONICAL)!r}: {cbad[1]}",
                      fill_template(SPELLING_REPRO, expected=tree, text=ctext)))
    return cases, fails, {"family": family, "spellings": len(variants), "example": next(iter(list(variants)[1:2]), "")[:160]}


def impedance_outcome(circuit):
    import numpy as np
    from pyimpspec.exceptions import ImpedanceError
    try:
        return circuit.get_impedances(np.array(PROBE_F)).tolist()
    except (ImpedanceError, NotImplementedError, ZeroDivisionError, OverflowError) as ex:
        return type(ex).__name__


def run_roundtrip(case):
    _, family, tree, decimals_list = case
    import numpy as np
    from pyimpspec import Circuit, parse_cdc
    cases, fails = [], []
    keybase = family if family.startswith("label:") else "roundtrip:" + family
    c = Circuit(T.build(tree))
    if T.extract(c) != tree:
        # the tree is built through the library's own setters (set_values / set_*_limits / set_fixed / set_label): if reading the
        # circuit back does not give what was set, a setter stored something else -- a defect of the element API, reported as such
        d0 = decimals_list[0]
        what = T.describe(T.extract(c), tree)
        return [(("rt", repr(tree), d0), True)], [(f"{keybase}:built-circuit-differs-from-what-was-set", "Element.set_upper_limits",
                                                  f"[{family}] building the circuit with the element setters and reading it back: {what}",
                                                  fill_template(ROUNDTRIP_REPRO, tree=tree, decimals=d0, normal=parser_normal(tree)))], {"family": family, "text": repr(what)[:160]}
    normal = Circuit(T.build(parser_normal(tree)))
    for d in decimals_list:
        cases.append((("rt", repr(tree), d), True))
        repro = fill_template(ROUNDTRIP_REPRO, tree=tree, decimals=d, normal=parser_normal(tree))
        try:
            text = c.serialize(d)
        except Exception as ex:  # noqa  - a circuit that can be built must be printable
            fails.append((f"{keybase}:serialize-raises-{type(ex).__name__}" if not family.startswith("label:") else keybase, "Element.to_string",
                          f"[{family}, decimals={d}] serialize() raises {type(ex).__name__}: {str(ex)[:120]}", repro))
            continue

        def fail(symptom, what, fn="parse_cdc"):
            fails.append((f"{keybase}:{symptom}" if not family.startswith("label:") else keybase, fn, f"[{family}, decimals={d}] {text!r}: {what}", repro))
        try:
            c2 = parse_cdc(text)
        except Exception as ex:  # noqa
            fail("rejected-" + type(ex).__name__, f"serialize() output is rejected by parse_cdc with {type(ex).__name__}: {ex}")
            continue
        bad = compare(T.norm(T.extract(c2)), T.norm(T.rounded(tree, d)))
        if bad is not None:
            fail(bad[0], f"parse_cdc(serialize()) is not equivalent: {bad[1]}")
            continue
        if c2.serialize(d) != normal.serialize(d):
            fail("reserialize-differs", f"serialize(parse(serialize(c))) = {c2.serialize(d)!r} differs from serialize(norm(c)) = {normal.serialize(d)!r}", "Circuit.serialize")
            continue
        t2 = c2.serialize()
        try:
            t3 = parse_cdc(t2).serialize()
        except Exception as ex:  # noqa
            fail("reserialize-rejected-" + type(ex).__name__, f"second serialisation {t2!r} is rejected: {ex}")
            continue
        if t3 != t2:
            fail("reserialize-not-identity", f"{t2!r} re-serialises to {t3!r}", "Circuit.serialize")
            continue
        try:
            tc = copy.deepcopy(c).serialize(d)
        except Exception as ex:  # noqa
            fail("deepcopy-raises-" + type(ex).__name__, f"copy.deepcopy raised {ex}", "Circuit.__deepcopy__")
            continue
        if tc != text:
            fail("deepcopy-differs", f"deep copy serialises to {tc!r}", "Circuit.__deepcopy__")
            continue
        a, b = impedance_outcome(c2), impedance_outcome(Circuit(T.build(T.rounded(tree, d))))
        if type(a) is not type(b) or (a != b if isinstance(a, str) else not np.allclose(a, b, rtol=1e-12, atol=0)):
            fail("impedance-differs", f"impedance of the parsed circuit {a} differs from {b}", "parse_cdc")
    try:
        shown = c.serialize(6)[:160]
    except Exception:  # noqa
        shown = repr(tree)[:160]
    return cases, fails, {"family": family, "text": shown}


def run_chunk(chunk):
    import pyimpspec  # noqa
    cases, fails, samples = [], {}, []
    for case in chunk:
        c, f, s = (run_spelling if case[0] == "sp" else run_roundtrip)(case)
        cases += c
        for item in f:
            if item[0] not in fails or (len(item[2]), item[2]) < (len(fails[item[0]][2]), fails[item[0]][2]):
                fails[item[0]] = item
        if len(samples) < 2:
            samples.append(s)
    return cases, list(fails.values()), samples, [c[1] for c in chunk]


# ------------------------------------------------------------------ case generation
def generate(thorough):
    cases = []
    max_leaves = 4 if thorough else 3
    # 1. topologies x element types
    plain = {t: E(t) for t in TYPES}
    for shape in top_level_shapes(max_leaves):
        n = count_leaves(shape)
        for assignment in itertools.product(TYPES, repeat=n):
            tree = fill(shape, [plain[t] for t in assignment])
            cases.append(("rt", "topology", tree, DECIMALS if n <= 2 or thorough else (12,)))
        sp_types = ("R", "Q", "Tlm")
        assignments = itertools.product(sp_types, repeat=n) if thorough or n <= 2 else [tuple(sp_types[(i + s) % 3] for i in range(n)) for s in range(3)]
        for assignment in assignments:
            cases.append(("sp", "topology", fill(shape, [plain[t] for t in assignment]), False))
    # 2. un-normalised and degenerate structures (round trip only)
    r, c, q = plain["R"], plain["C"], plain["Q"]
    for name, tree in [("series-in-series", S(c, S(r, c, c))), ("series-in-series-first", S(S(r, c), q)), ("parallel-in-parallel", S(P(r, P(c, q)))),
                       ("series-in-series-in-parallel", S(P(r, S(c, S(q, r))))), ("single-series-in-parallel", S(P(r, S(c)))), ("series-in-top-series-only", S(S(r, c))),
                       ("sub-circuit-series-in-series", S(E("Tlm", subs={"X_1": S(r, S(c, q))})))]:
        cases.append(("rt", "unnormalised:" + name, tree, DECIMALS))
    for name, tree in [("empty-circuit", S()), ("empty-connection", S(r, S())), ("empty-connection", S(P(r, S()))), ("empty-connection", S(r, P())),
                       ("single-branch-parallel", S(P(r))), ("single-branch-parallel", S(c, P(r))), ("single-branch-parallel", S(E("Tlm", subs={"Z_A": P(r)})))]:
        cases.append(("rt", "degenerate:" + name, tree, (12,)))
    # 3. values, limits, fixed flags per type and context
    for sym in TYPES:
        for name, x in element_variants(sym, thorough):
            for cname, ctx in element_contexts():
                if not thorough and cname not in ("alone", "series-middle", "sub-circuit-series") and name not in ("limits-above-default", "limits-below-default"):
                    continue
                cases.append(("rt", f"values:{name}", ctx(x), DECIMALS))
                if name != "default":
                    cases.append(("sp", f"values:{name}", ctx(x), thorough))
    # 4. container configurations and contexts
    options = slot_options()
    configs = [("default", E("Tlm"))]
    for slot in SLOTS:
        for oname, sub in options:
            configs.append((f"{slot}={oname}", E("Tlm", subs={slot: sub})))
    slot_pairs = list(itertools.combinations(SLOTS, 2)) if thorough else [("X_1", "X_2"), ("X_1", "Zeta"), ("Z_A", "Z_B")]
    for s1, s2 in slot_pairs:
        for (o1, sub1), (o2, sub2) in itertools.product(options, repeat=2):
            if thorough or (o1 != o2 and {o1, o2} & {"series", "one-element", "element+nested-container"}):
                configs.append((f"{s1}={o1},{s2}={o2}", E("Tlm", subs={s1: sub1, s2: sub2}, label="t1" if o1 == "series" else "")))
    for i, (name, t) in enumerate(configs):
        for cname, ctx in tlm_contexts():
            single = "," not in name
            if not thorough and not single and cname not in ("preceded", "in-parallel"):
                continue
            cases.append(("rt", f"container:{cname}", ctx(t), (12, 17) if single else (12,)))
            cases.append(("sp", f"container:{cname}", ctx(t), thorough and single))
    # 5. labels
    for cls_name, labels in LABELS:
        for label in labels:
            for sym in ("R", "Q", "Tlm"):
                x = E(sym, label=label)
                for cname, ctx in element_contexts():
                    if not thorough and cname in ("parallel", "sub-circuit-parallel"):
                        continue
                    cases.append(("rt", f"label:{cls_name}", ctx(x), (1, 12)))
            if cls_name in ("plain", "with-digits", "with-underscore", "with-spaces", "with-special-characters", "balanced-braces"):
                cases.append(("sp", f"label:{cls_name}", S(E("R"), E("Tlm", label=label, subs={"X_1": S(E("C", label=label))}), E("Q", label=label)), False))
    return cases


def main(a):
    import pyimpspec  # noqa
    thorough = a.tier != "quick"
    cases = generate(thorough)
    n_rt = sum(1 for c in cases if c[0] == "rt")
    n_sp = len(cases) - n_rt
    res = Result(
        "C03",
        f"all series/parallel topologies <= {4 if thorough else 3} leaves x element types {TYPES}; un-normalised and degenerate structures; per type "
        f"{len(param_variants(info('R')[0][0]))} value/limit/fixed settings per parameter (incl. +-inf and limits moved above/below the class defaults by setter calls) in {len(element_contexts())} contexts; "
        f"Tlm with each of its 5 sub-circuits set to {len(slot_options())} options (open/short/connections/nested container), {'all' if thorough else 'selected'} pairs of slots, in {len(tlm_contexts())} contexts; "
        f"{sum(len(ls) for _, ls in LABELS)} labels of {len(LABELS)} classes; decimals {DECIMALS}; per tree the canonical spelling, every single alternative spelling "
        f"({sum(len(v) for v in ALTERNATIVES.values())} alternatives of {len(ALTERNATIVES)} features){' and every pair of alternatives for selected families' if thorough else ''}: {n_rt} round-trip trees, {n_sp} spelled trees",
        "trees are built through the public constructors/setters from an intended syntax tree (the oracle); round trip: parse_cdc(serialize(d)) compared node by node with the tree rounded to d decimals modulo merging of "
        "directly nested same-kind connections, re-serialisation identity, deepcopy, impedance at 1 Hz/1 kHz; spellings: a token-level printer emits each alternative (implicit outer series, header, white space, omitted "
        "default parameters/limits, // slots, percentage limits, f/F, number formats, short/zero, open/inf, bare element list, wrapped parallel, key order) and the parse must equal the tree; "
        "distinct = distinct (tree, decimals) resp. distinct spelled texts")
    chunks = [cases[i::64 if thorough else 32] for i in range(64 if thorough else 32)]
    families, best = {}, {}
    with mp.get_context("fork").Pool(16) as pool:
        for case_keys, fails, samples, fams in pool.imap_unordered(run_chunk, chunks):
            for key, nontrivial in case_keys:
                res.case(key, nontrivial=nontrivial)
            for f in fams:
                families[f.split(":")[0]] = families.get(f.split(":")[0], 0) + 1
            if len(res.samples) < 12:
                res.samples += samples[:1]
            for item in fails:
                # keep the shortest example per key (deterministic whatever the scheduling)
                if item[0] not in best or (len(item[2]), item[2]) < (len(best[item[0]][2]), best[item[0]][2]):
                    best[item[0]] = item
    for key in sorted(best):
        res.fail(*best[key])
    res.part("trees", roundtrip=n_rt, spelled=n_sp, by_family=families)
    return res


if __name__ == "__main__":
    guarded(main)
