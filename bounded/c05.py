"""C05 bounded layer (Layer R): every operation sequence of length <= L over the DataSet API (constructor included),
on all spectra of 1..N points with all mask subsets, compared after EVERY step with a list-of-triples reference model
[(f, Z, masked)] kept in descending frequency order.  BOUNDED - never counted as proved."""
import copy as _copy
import itertools
import json
import multiprocessing as mp
import sys

sys.path.insert(0, __file__.rsplit("/bounded/", 1)[0])
from bounded.common import Result, guarded  # noqa: E402

OPTIONAL_KEYS = ("version", "mask", "path", "label", "uuid")


# ---------------------------------------------------------------------------------------------------------------------
# spectra: distinct frequencies and distinct impedances (so that a point that loses its partner is visible); all values
# are exactly representable so every comparison below is exact.
def spectrum(n):
    """points in DESCENDING frequency order"""
    f = [1000.0, 100.0, 10.0, 1.0][:n]
    z = [complex(10.0 * (k + 1), -1.0 * (k + 1) - 0.5 * k * k) for k in range(n)]
    return f, z


def cutoffs(n):
    f, _ = spectrum(n)
    c = {f[-1] / 2, f[-1], f[0] * 5}
    c |= {f[i] / 2 for i in range(n - 1)}
    if n > 1:
        c.add(int(f[1]))  # an int cutoff that coincides with a frequency
    return sorted(c, key=lambda x: (float(x), str(type(x))))


def subsets(n):
    for r in range(n + 1):
        for s in itertools.combinations(range(n), r):
            yield s


def constructs(n):
    """(op) tuples: ("construct", n, order, maskspec); maskspec None or tuple of (index, bool) AS SUPPLIED"""
    out = []
    for order in (("desc",) if n == 1 else ("desc", "asc")):
        out.append(("construct", n, order, None))
        for s in subsets(n):
            out.append(("construct", n, order, tuple((i, True) for i in s)))
        # partial dictionary with an explicit False and out-of-range keys
        out.append(("construct", n, order, ((0, True), (n - 1, False), (n + 1, True), (-1, True))))
    return out


def alphabet(n):
    ops = []
    for s in subsets(n):
        ops.append(("set_mask", tuple((i, i in s) for i in range(n))))
    for s in subsets(n):                                            # flags of the other accepted kind (numpy.bool_, e.g. from f > 200)
        ops.append(("set_mask_np", tuple((i, i in s) for i in range(n))))
    ops.append(("set_mask", ()))                                    # empty dictionary: clears the mask
    ops.append(("set_mask", ((0, True),)))                          # partial
    ops.append(("set_mask", ((n - 1, False),)))                     # partial
    ops.append(("set_mask", ((-1, True), (n, True), (n + 5, False), (0, True))))  # out-of-range keys are ignored
    for c in cutoffs(n):
        ops.append(("low_pass", c))
        ops.append(("high_pass", c))
    ops += [("subtract", "each"), ("subtract", "same")]
    ops += [("dict", v) for v in ("json", "twice", "noopt", "noversion", "nomplu", "v1", "v1asc")]
    ops += [("duplicate",), ("average",), ("getters",), ("reconstruct", "asc"), ("reconstruct", "desc")]
    return ops


# ---------------------------------------------------------------------------------------------------------------------
# reference model: list of [f, Z, masked] in descending frequency order
def model_construct(f, z, mask):
    pts = [[f[i], z[i], bool((mask or {}).get(i, False))] for i in range(len(f))]
    if len(f) > 1 and f[-1] > f[0]:
        pts.reverse()
    return pts


def supplied(op, M=None):
    """the (frequencies, impedances, mask) handed to the constructor for a construct/reconstruct operation"""
    if op[0] == "construct":
        _, n, order, maskspec = op
        f, z = spectrum(n)
        if order == "asc":
            f, z = f[::-1], z[::-1]
        return f, z, (None if maskspec is None else dict(maskspec))
    _, order = op
    pts = list(M) if order == "desc" else list(M)[::-1]
    return [p[0] for p in pts], [p[1] for p in pts], {i: p[2] for i, p in enumerate(pts)}


def sub_values(n, kind):
    return [complex(k + 1, 0.25 * (k + 1)) for k in range(n)] if kind == "each" else [complex(1.0, 0.25)]


def apply_model(M, op):
    name = op[0]
    if name in ("construct", "reconstruct"):
        return model_construct(*supplied(op, M))
    M = [list(p) for p in M]
    n = len(M)
    if name in ("set_mask", "set_mask_np"):
        if len(op[1]) == 0:
            for p in M:
                p[2] = False
        for i, b in op[1]:
            if 0 <= i < n:
                M[i][2] = b
    elif name == "low_pass":
        for p in M:
            p[2] = p[2] or p[0] > op[1]
    elif name == "high_pass":
        for p in M:
            p[2] = p[2] or p[0] < op[1]
    elif name == "subtract":
        x = sub_values(n, op[1])
        for k, p in enumerate(M):
            p[1] = p[1] - x[k if op[1] == "each" else 0]
    elif name == "dict":
        if op[1] in ("noopt",):
            for p in M:
                p[2] = False
    elif name == "average":
        for p in M:
            p[2] = False
    return M


# ---------------------------------------------------------------------------------------------------------------------
# the real thing
class Violation(Exception):
    def __init__(self, key, function, what):
        self.key, self.function, self.what = key, function, what


def export(d, variant):
    """dictionary handed to from_dict for the variant"""
    x = d.to_dict()
    if variant == "twice":
        return x
    x = json.loads(json.dumps(x))
    if variant == "v1":
        return to_v1(x)
    if variant == "v1asc":
        return to_v1(ascending(x))
    drop = {"json": (), "noopt": OPTIONAL_KEYS, "noversion": ("version",), "nomplu": ("path", "label", "uuid")}[variant]
    for k in drop:
        x.pop(k, None)
    return x


V1_NAMES = {"frequencies": "frequency", "real_impedances": "real", "imaginary_impedances": "imaginary"}


def ascending(x):
    """the same points listed in ascending order of frequency, the mask keys re-indexed with them (point i becomes point n-1-i)"""
    n = len(x["frequencies"])
    y = dict(x)
    for k in ("frequencies", "real_impedances", "imaginary_impedances"):
        y[k] = list(reversed(x[k]))
    y["mask"] = {str(n - 1 - int(k)): v for k, v in x.get("mask", {}).items()}
    return y


def to_v1(x):
    """the same data set as a version-1 file stored it: other names for the three columns, no uuid"""
    y = {V1_NAMES.get(k, k): v for k, v in x.items() if k != "uuid"}
    y["version"] = 1
    return y


def apply_real(d, op, M):
    """returns (data set after the operation (same or new object), frame Violation or None)"""
    import numpy as np
    from pyimpspec import DataSet
    name = op[0]
    if name in ("construct", "reconstruct"):
        f, z, mask = supplied(op, M)
        before = None if mask is None else list(mask.items())
        r = DataSet(np.array(f), np.array(z), mask=mask)
        if mask is not None and list(mask.items()) != before:
            return r, Violation(f"construct-{'asc' if f[-1] > f[0] else 'desc'}:caller-mask-mutated", "DataSet.__init__",
                            f"the mask dictionary passed to DataSet(frequencies={f}, ..., mask={dict(before)}) came back as {mask}")
        return r, None
    if name in ("set_mask", "set_mask_np"):
        arg = dict(op[1]) if name == "set_mask" else {i: np.bool_(b) for i, b in op[1]}
        before = list(arg.items())
        d.set_mask(arg)
        if list(arg.items()) != before:
            return d, Violation("set_mask:caller-mask-mutated", "DataSet.set_mask", f"set_mask({dict(before)}) altered its argument to {arg}")
        return d, None
    if name == "low_pass":
        d.low_pass(op[1])
        return d, None
    if name == "high_pass":
        d.high_pass(op[1])
        return d, None
    if name == "subtract":
        d.subtract_impedances(np.array(sub_values(len(M), op[1])))
        return d, None
    if name == "dict":
        x = export(d, op[1])
        r = DataSet.from_dict(x)
        if op[1] == "twice":
            r2 = DataSet.from_dict(x)       # the SAME dictionary again
            v1, v2 = view(r), view(r2)
            if v1 != v2:
                return r, Violation("from_dict:same-dict-twice:results-differ", "DataSet._parse", f"importing the same dictionary twice gave {v1} and then {v2}")
        return r, None
    if name == "duplicate":
        r = DataSet.duplicate(d)
        if r.uuid == d.uuid:
            return r, Violation("duplicate:same-uuid", "DataSet.duplicate", "the duplicate has the uuid of the original")
        return r, None
    if name == "average":
        # averaging with ANOTHER data set must leave both inputs as they were (average([d, d]) alone would hide an in-place sum)
        before = view(d)
        e = DataSet.duplicate(d)
        e.subtract_impedances(np.array([1.0 + 1.0j]))
        before_e = view(e)
        DataSet.average([d, e])
        if view(d) != before or view(e) != before_e:
            return d, Violation("average:input-modified", "DataSet.average", f"DataSet.average([d, e]) changed one of its inputs: {before} -> {view(d)}")
        return DataSet.average([d, d]), None
    if name == "getters":
        for masked in (None, False, True):
            d.get_frequencies(masked=masked)
            z = d.get_impedances(masked=masked)
            d.get_num_points(masked=masked)
            if masked is not None and len(z):
                z[0] = 12345.0      # the masked/unmasked views are fresh arrays: writing to them must not reach the data set
        m = d.get_mask()
        for k in list(m):
            m[k] = not m[k]
        m[99] = True
        return d, None
    raise AssertionError(op)


def view(d):
    f = d.get_frequencies(masked=None)
    z = d.get_impedances(masked=None)
    m = d.get_mask()
    return [(float(a), complex(b), m.get(i)) for i, (a, b) in enumerate(zip(f, z))]


def check(d, M):
    """evaluate the contract of the property on the real data set d against the model M; returns (key, what) or None"""
    n = len(M)
    f_all = [float(x) for x in d.get_frequencies(masked=None)]
    z_all = [complex(x) for x in d.get_impedances(masked=None)]
    m = d.get_mask()
    import numpy as np
    if sorted(m.keys()) != list(range(n)) or not all(isinstance(v, (bool, np.bool_)) for v in m.values()):
        return "mask-keys", f"get_mask() = {m} is not a total boolean map over 0..{n - 1}"
    if len(f_all) != n or len(z_all) != n:
        return "length", f"{len(f_all)} frequencies / {len(z_all)} impedances for {n} points"
    if any(f_all[i] <= f_all[i + 1] for i in range(n - 1)):
        return "not-descending", f"frequencies {f_all} are not in descending order"
    got = [(f_all[i], z_all[i], bool(m[i])) for i in range(n)]
    want = [(p[0], p[1], p[2]) for p in M]
    if got != want:
        if [g[:2] for g in got] != [w[:2] for w in want]:
            return "points", f"(f, Z) pairs {[g[:2] for g in got]} differ from the required {[w[:2] for w in want]}"
        return "mask-on-wrong-points", f"masked frequencies {[g[0] for g in got if g[2]]} but required {[w[0] for w in want if w[2]]}"
    parts = {}
    for masked in (False, True):
        fv = [float(x) for x in d.get_frequencies(masked=masked)]
        zv = [complex(x) for x in d.get_impedances(masked=masked)]
        wantv = [(p[0], p[1]) for p in M if p[2] == masked]
        if list(zip(fv, zv)) != wantv or len(fv) != len(zv) or d.get_num_points(masked=masked) != len(wantv):
            return f"view-masked-{masked}", f"view masked={masked} is {list(zip(fv, zv))}, required {wantv}"
        parts[masked] = list(zip(fv, zv))
    if d.get_num_points(masked=None) != n:
        return "num-points", f"get_num_points(None) = {d.get_num_points(masked=None)} for {n} points"
    # the two views partition the full view in order
    it = {False: iter(parts[False]), True: iter(parts[True])}
    merged = [next(it[bool(m[i])], None) for i in range(n)]
    if merged != list(zip(f_all, z_all)) or next(it[False], None) is not None or next(it[True], None) is not None:
        return "partition", f"unmasked {parts[False]} and masked {parts[True]} do not partition {list(zip(f_all, z_all))}"
    # mutating what get_mask() returned does not reach the data set
    m2 = d.get_mask()
    for k in list(m2):
        m2[k] = not m2[k]
    m2[n + 7] = True
    if d.get_mask() != m:
        return "get_mask-aliased", "mutating the dictionary returned by get_mask() changed the data set"
    x = d.to_dict()
    xm = {int(k): v for k, v in x["mask"].items()}
    if list(x["frequencies"]) != f_all or [complex(a, b) for a, b in zip(x["real_impedances"], x["imaginary_impedances"])] != z_all or xm != m:
        return "to_dict", f"to_dict() = {x} does not describe the presented points"
    return None


# ---------------------------------------------------------------------------------------------------------------------
def lit(v):
    if isinstance(v, complex):
        return f"complex({v.real!r}, {v.imag!r})"
    if isinstance(v, (list, tuple)):
        return "[" + ", ".join(lit(x) for x in v) + "]"
    return repr(v)


REPRO_HEAD = '''import json
import numpy as np
from pyimpspec import DataSet
def view(d):
    f, z, m = d.get_frequencies(masked=None), d.get_impedances(masked=None), d.get_mask()
    assert sorted(m) == list(range(len(f))), m
    for b in (False, True):
        assert [(float(a), complex(c)) for a, c in zip(d.get_frequencies(masked=b), d.get_impedances(masked=b))] == [(float(a), complex(c)) for i, (a, c) in enumerate(zip(f, z)) if m[i] == b], b
    return [(float(a), complex(c), bool(m[i])) for i, (a, c) in enumerate(zip(f, z))]
'''


def repro_src(seq, want, frame=False):
    """source that replays seq on the real API and asserts the required final view (frame=False) or only that the
    caller's dictionaries are left alone (frame=True)"""
    lines = [REPRO_HEAD]
    M = None
    for op in seq:
        name = op[0]
        if name in ("construct", "reconstruct"):
            f, z, mask = supplied(op, M)
            lines.append(f"mask = {mask!r}; mask0 = None if mask is None else list(mask.items())")
            lines.append(f"d = DataSet(np.array({lit(f)}), np.array({lit(z)}), mask=mask)")
            if frame:
                lines.append("assert mask is None or list(mask.items()) == mask0, ('caller mask altered', mask0, mask)")
        elif name == "set_mask_np":
            lines.append(f"arg = {{i: np.bool_(b) for i, b in {dict(op[1])!r}.items()}}; arg0 = list(arg.items()); d.set_mask(arg)")
            if frame:
                lines.append("assert list(arg.items()) == arg0, ('argument altered', arg0, arg)")
        elif name == "set_mask":
            lines.append(f"arg = {dict(op[1])!r}; arg0 = list(arg.items()); d.set_mask(arg)")
            if frame:
                lines.append("assert list(arg.items()) == arg0, ('argument altered', arg0, arg)")
        elif name in ("low_pass", "high_pass"):
            lines.append(f"d.{name}({op[1]!r})")
        elif name == "subtract":
            lines.append(f"d.subtract_impedances(np.array({lit(sub_values(len(M), op[1]))}))")
        elif name == "dict":
            if op[1] == "twice":
                lines.append("x = d.to_dict(); d = DataSet.from_dict(x); d2 = DataSet.from_dict(x); assert view(d) == view(d2)")
            elif op[1] == "v1asc":
                lines.append("x = json.loads(json.dumps(d.to_dict())); n_ = len(x['frequencies'])")
                lines.append("for k_ in ('frequencies', 'real_impedances', 'imaginary_impedances'): x[k_] = list(reversed(x[k_]))")
                lines.append(f"x['mask'] = {{str(n_ - 1 - int(k)): v for k, v in x['mask'].items()}}; x = {{ {V1_NAMES!r}.get(k, k): v for k, v in x.items() if k != 'uuid'}}; x['version'] = 1; d = DataSet.from_dict(x)")
            elif op[1] == "v1":
                lines.append(f"x = json.loads(json.dumps(d.to_dict())); x = {{ {V1_NAMES!r}.get(k, k): v for k, v in x.items() if k != 'uuid'}}; x['version'] = 1; d = DataSet.from_dict(x)")
            else:
                drop = {"json": (), "noopt": OPTIONAL_KEYS, "noversion": ("version",), "nomplu": ("path", "label", "uuid")}[op[1]]
                lines.append(f"x = json.loads(json.dumps(d.to_dict())); [x.pop(k, None) for k in {drop!r}]; d = DataSet.from_dict(x)")
        elif name == "duplicate":
            lines.append("d = DataSet.duplicate(d)")
        elif name == "average":
            lines.append("b4 = view(d); e = DataSet.duplicate(d); e.subtract_impedances(np.array([1.0 + 1.0j])); DataSet.average([d, e]); assert view(d) == b4, 'average modified its input'; d = DataSet.average([d, d])")
        elif name == "getters":
            lines.append("m = d.get_mask(); m.update({k: not v for k, v in m.items()}); m[99] = True")
            lines.append("for b in (False, True):\n    z = d.get_impedances(masked=b)\n    if len(z): z[0] = 12345.0")
        M = apply_model(M, op)
    if frame:
        return "\n".join(lines)
    lines.append(f"want = {lit([tuple(p) for p in want])}")
    lines.append("got = view(d)")
    lines.append("assert got == [tuple(w) for w in want], (got, want)")
    lines.append("m = d.get_mask(); m2 = d.get_mask(); m2[0] = not m2[0]; assert d.get_mask() == m")
    return "\n".join(lines)


def describe(seq):
    out = []
    for op in seq:
        if op[0] == "construct":
            f, z, mask = supplied(op)
            out.append(f"DataSet({f}, Z, mask={mask})")
        else:
            out.append(op[0] + "(" + ", ".join(str(x) for x in op[1:]) + ")")
    return " ; ".join(out)


def fn_of(op):
    return {"construct": "DataSet.__init__", "reconstruct": "DataSet.__init__", "set_mask": "DataSet.set_mask", "set_mask_np": "DataSet.set_mask", "low_pass": "DataSet.low_pass",
            "high_pass": "DataSet.high_pass", "subtract": "DataSet.subtract_impedances", "dict": "DataSet._parse", "duplicate": "DataSet.duplicate",
            "average": "DataSet.average", "getters": "DataSet.get_mask"}[op[0]]


def opkind(op, M):
    """stable kind of operation used in failure keys"""
    if op[0] in ("construct", "reconstruct"):
        f, _, mask = supplied(op, M)
        order = "asc" if len(f) > 1 and f[-1] > f[0] else "desc"
        return f"construct-{order}" + ("" if mask is None else "+mask")
    if op[0] == "dict":
        return {"json": "from_dict:json", "twice": "from_dict:same-dict-twice", "noopt": "from_dict:without-optional-keys",
                "noversion": "from_dict:without-version", "nomplu": "from_dict:without-path-label-uuid", "v1": "from_dict:version-1", "v1asc": "from_dict:version-1-ascending"}[op[1]]
    if op[0] == "set_mask":
        return "set_mask" + (":empty" if not op[1] else "")
    return op[0]


def run_task(args):
    first, second, L = args
    import pyimpspec  # noqa
    n = first[1]
    ops = alphabet(n)
    evals, fails, samples = 0, {}, []

    def step(d, M, seq, op, count=True):
        """one operation + contract evaluation; returns (d2, M2) or None when violated"""
        nonlocal evals
        M2 = apply_model(M, op)
        seq2 = seq + [op]
        evals += 1 if count else 0
        kind = opkind(op, M)
        try:
            d2, v = apply_real(d, op, M)
        except Exception as ex:  # noqa - the property demands that these operations succeed on every data set
            key = f"{kind}:raises {type(ex).__name__}"
            fails.setdefault(key, (key, fn_of(op), f"{describe(seq2)} raised {type(ex).__name__}: {str(ex)[:200]}", repro_src(seq2, M2), (len(seq2), n)))
            return None
        if v is not None:
            fails.setdefault(v.key, (v.key, v.function, f"{v.what}; sequence: {describe(seq2)}", repro_src(seq2, M2, frame="mutated" in v.key), (len(seq2), n)))
        bad = check(d2, M2)
        if bad:
            key = f"{kind}:{bad[0]}"
            fails.setdefault(key, (key, fn_of(op), f"after {describe(seq2)}: {bad[1]}", repro_src(seq2, M2), (len(seq2), n)))
        if bad or v is not None:
            return None
        if d2 is not d and d is not None and op[0] != "reconstruct":
            # operations that return a new data set leave the original as it was
            bad = check(d, M)
            if bad:
                key = f"{kind}:original-changed:{bad[0]}"
                fails.setdefault(key, (key, fn_of(op), f"{describe(seq2)} changed the original: {bad[1]}", repro_src(seq2, M2), (len(seq2), n)))
                return None
        return d2, M2

    def rec(d, M, seq, depth):
        if depth == L:
            return
        for op in ops:
            r = step(_copy.deepcopy(d), M, seq, op)
            if r is None:
                continue
            if len(samples) < 1 and depth == L - 1:
                samples.append({"sequence": describe(seq + [op]), "view": str([tuple(p) for p in r[1]])})
            rec(r[0], r[1], seq + [op], depth + 1)

    r = step(None, None, [], first, count=second is None)
    if r is not None and L > 1 and second is not None:
        r2 = step(r[0], r[1], [first], second)
        if r2 is not None:
            rec(r2[0], r2[1], [first, second], 2)
    return evals, list(fails.values()), samples, (first, second)


def main(a):
    import pyimpspec  # noqa
    if a.tier == "quick":
        L, sizes = 3, (1, 2, 3)
    else:
        L, sizes = 4, (1, 2, 3, 4)
    tasks = []
    for n in sizes:
        for c in constructs(n):
            tasks.append((c, None, L))          # the constructor alone
            for op in alphabet(n):
                tasks.append((c, op, L))
    tasks.sort(key=lambda t: -t[0][1])
    res = Result("C05", f"all operation sequences of length <= {L} (constructor included) on spectra of {sizes[0]}..{sizes[-1]} points: "
                 f"{sum(len(constructs(n)) for n in sizes)} constructor calls (ascending|descending input x (None | every mask subset | partial/out-of-range mask)) "
                 f"followed by operations from an alphabet of {len(alphabet(sizes[-1]))} (size {sizes[-1]}): set_mask(every subset, empty, partial, out-of-range), "
                 "low_pass/high_pass(cutoffs below, between, at (int and float) and above the frequencies), subtract_impedances(per point | one value), "
                 "to_dict->json->from_dict (plain, same dict twice, without all optional keys, without version, without path/label/uuid), duplicate, average([d,d]), "
                 "getters with mutation of their results, re-construction from the current points in ascending/descending order",
                 "depth-first enumeration of all sequences; after every step the real DataSet (getters with masked in {None, False, True}, get_mask, to_dict) is compared "
                 "exactly with a list-of-triples model in descending order, the caller's mask dictionaries are compared with their state before the call, "
                 "and the original of copying operations is re-checked; distinct = distinct (constructor, sequence) prefixes")
    done, best = 0, {}
    with mp.get_context("fork").Pool(16) as pool:
        for evals, fails, samples, tid in pool.imap(run_task, tasks, chunksize=1):
            res.evaluations += evals
            res.distinct.update((done, i) for i in range(evals))     # every (constructor, sequence) prefix is enumerated exactly once
            done += 1
            if len(res.samples) < 8:
                res.samples += samples
            for key, fn, what, repro, length in fails:
                if key not in best or length < best[key][0]:             # report the shortest sequence per kind of failure
                    best[key] = (length, fn, what, repro)
    for key in sorted(best):
        res.fail(key, *best[key][1:])
    return res


if __name__ == "__main__":
    guarded(main)
