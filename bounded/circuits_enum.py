"""Shared helper of the C01 / C16 / C20 bounded layers: enumeration of series/parallel circuit topologies, construction of
each circuit along several routes of the public API, an independent reference impedance and repro-source generation.

A circuit is described by a *spec* (pure, hashable, picklable data):
    ("S", (child, ...))   series connection          ("P", (child, ...))   parallel connection
    ("E", symbol, ((key, value), ...), label, ((subcircuit key, spec-or-None), ...))   element (container when it has sub-circuits)
A *shape* is a spec whose leaves are the placeholder "x".  BOUNDED - nothing here is ever counted as proved."""
import functools
import hashlib
import itertools
import math
import re

import numpy as np

INF = float("inf")
OPEN = "open"          # reference value of an open (infinite impedance) node


# ------------------------------------------------------------------------------------------------- shapes
def _compositions(n):
    if n == 0:
        yield ()
        return
    for k in range(1, n + 1):
        for rest in _compositions(n - k):
            yield (k,) + rest


@functools.lru_cache(None)
def _shapes(n, unary):
    """all ordered trees with exactly n leaves whose internal nodes are S or P with >= 1 children and that contain
    at most `unary` one-child nodes; same-kind nesting (S in S, P in P) is included.  -> tuple of (tree, #unary)"""
    out = {}
    if n == 1:
        out["x"] = 0
    for kind in "SP":
        if unary > 0:
            for tree, u in _shapes(n, unary - 1):
                out[(kind, (tree,))] = u + 1
        for comp in _compositions(n):
            if len(comp) < 2:
                continue
            for combo in itertools.product(*[_shapes(k, unary) for k in comp]):
                u = sum(c[1] for c in combo)
                if u <= unary:
                    out[(kind, tuple(c[0] for c in combo))] = u
    return tuple(out.items())


def shapes(n, unary):
    """shapes with exactly n leaves and at most `unary` one-child connections (deterministic order)"""
    return [t for t, _ in _shapes(n, unary)]


def n_leaves(shape):
    if shape == "x" or shape[0] == "E":
        return 1
    return sum(n_leaves(c) for c in shape[1])


def fill(shape, leaves):
    """replace the placeholders of a shape by the given leaf specs (in document order)"""
    it = iter(leaves)

    def rec(node):
        if node == "x":
            return next(it)
        return (node[0], tuple(rec(c) for c in node[1]))
    return rec(shape)


def shape_str(shape):
    if shape == "x":
        return "x"
    if shape[0] == "E":
        return shape[1]
    o, c = ("[", "]") if shape[0] == "S" else ("(", ")")
    return o + "".join(shape_str(ch) for ch in shape[1]) + c


def random_shape(rng, n, p_unary=0.1):
    """random tree with n leaves"""
    if n == 1:
        node = "x"
    else:
        k = int(rng.integers(2, min(n, 4) + 1))
        cuts = sorted(rng.choice(np.arange(1, n), size=k - 1, replace=False).tolist())
        sizes = [b - a for a, b in zip([0] + cuts, cuts + [n])]
        node = ("SP"[int(rng.integers(0, 2))], tuple(random_shape(rng, s, p_unary) for s in sizes))
    if rng.random() < p_unary:
        node = ("SP"[int(rng.integers(0, 2))], (node,))
    return node


# ------------------------------------------------------------------------------------------------- leaves
def E(sym, params=(), label="", subs=()):
    if isinstance(params, dict):
        params = tuple(params.items())
    if isinstance(subs, dict):
        subs = tuple(subs.items())
    return ("E", sym, tuple((k, float(v)) for k, v in params), label, tuple(subs))


def S(*children):
    return ("S", tuple(children))


def P(*children):
    return ("P", tuple(children))


# the documented defaults of the general transmission line model, transcribed by hand (checked at start-up)
TLM_DEFAULT_SUBS = (("X_1", S(E("R", {"R": 1.0}))), ("X_2", S()), ("Z_A", None), ("Z_B", None),
                    ("Zeta", S(E("Q", {"Y": 5e-3, "n": 0.8}))))


def is_container_spec(spec):
    return spec[0] == "E" and spec[1] == "Tlm"


def full_subs(spec):
    d = dict(TLM_DEFAULT_SUBS)
    d.update(dict(spec[4]))
    return d


def digest(spec):
    return int.from_bytes(hashlib.blake2b(repr(spec).encode(), digest_size=8).digest(), "big")


def mix(i, p, k, salt=0):
    """deterministic, well mixed choice in range(k) for case index i and leaf position p (splitmix64 finaliser)"""
    x = (i * 0x9E3779B97F4A7C15 + p * 0xBF58476D1CE4E5B9 + salt * 0x94D049BB133111EB + 0x1234567) & 0xFFFFFFFFFFFFFFFF
    x ^= x >> 30
    x = (x * 0xBF58476D1CE4E5B9) & 0xFFFFFFFFFFFFFFFF
    x ^= x >> 27
    x = (x * 0x94D049BB133111EB) & 0xFFFFFFFFFFFFFFFF
    x ^= x >> 31
    return x % k


# ------------------------------------------------------------------------------------------------- diagram labels
# labels with underscores and digits in several positions (must never be split at an internal underscore)
LABEL_POOL = ("ct_a", "sol_1", "diff_b_2", "a_", "x_1_y", "r7", "dl2_3")
TIKZ_COMPONENT = re.compile(r"to\[([A-Za-z]+)=(\$.*?\$)\]")            # (component kind, full `$...$` label text)
TIKZ_KIND = {"R": "R", "C": "capacitor", "L": "L", "La": "L", "Q": "cpe"}  # every other symbol is drawn as `generic`


def pool_label(i, p, salt=0):
    """label for leaf position p of case i: distinct for distinct p (the pool is rotated by the case index)"""
    base = LABEL_POOL[(mix(i, 0, len(LABEL_POOL), salt) + p) % len(LABEL_POOL)]
    return base if p < len(LABEL_POOL) else f"{base}_{p}"


def diagram_label(symbol, text):
    """the label text the diagrams must carry for an element: `$<symbol>_{\\rm <whole label or identifier>}$`, derived here
    from (symbol, label-or-identifier) only; the library applies no escaping to the label (circuitikz.py:396-399)"""
    return "$" + symbol + "_{\\rm " + str(text) + "}$"


def label_text_specs():
    """every pool label on every basic type: alone and mixed with unlabelled / differently labelled elements of the same type"""
    out = []
    for k, label in enumerate(LABEL_POOL):
        other = LABEL_POOL[(k + 3) % len(LABEL_POOL)]
        for sym in ("R", "C", "L", "Q", "W", "Tlm"):
            lab, un, oth = E(sym, label=label), E(sym), E(sym, label=other)
            out += [lab, S(lab, un), P(un, lab), S(un, P(lab, oth)), P(S(un, lab), un), S(E("R"), lab, E("C", label=other)), P(un, lab, un, oth)]
    return out


# ------------------------------------------------------------------------------------------------- construction
_CLASSES = None


def classes():
    global _CLASSES
    if _CLASSES is None:
        from pyimpspec.circuit.registry import get_elements
        _CLASSES = get_elements()
    return _CLASSES


def build(spec):
    """route 1: element / connection objects"""
    from pyimpspec import Parallel, Series
    if spec[0] == "E":
        _, sym, params, label, subs = spec
        kw = dict(params)
        for key, sub in subs:
            kw[key] = None if sub is None else build(sub)
        e = classes()[sym](**kw)
        if label:
            e.set_label(label)
        return e
    return (Series if spec[0] == "S" else Parallel)([build(c) for c in spec[1]])


def circuit(spec):
    from pyimpspec import Circuit
    return Circuit(build(spec))


def _num(v):
    return "1e999" if v == INF else ("-1e999" if v == -INF else repr(float(v)))


def hand_cdc(spec, values=True):
    """route 2b: a circuit description code written by this module (not by the library's serialiser)"""
    if spec[0] == "E":
        _, sym, params, label, subs = spec
        parts = []
        for key, sub in subs:
            if sub is None:
                parts.append(f"{key}=open")
            elif not has_elements(sub):
                parts.append(f"{key}=short")
            else:
                parts.append(f"{key}={hand_cdc(sub, values)}")
        if values:
            parts += [f"{k}={_num(v)}" for k, v in params]
        s = sym
        if parts or (label and values):
            s += "{" + ", ".join(parts) + (":" + label if (label and values) else "") + "}"
        return s
    o, c = ("[", "]") if spec[0] == "S" else ("(", ")")
    return o + "".join(hand_cdc(ch, values) for ch in spec[1]) + c


def has_elements(spec):
    if spec[0] == "E":
        return True
    return any(has_elements(c) for c in spec[1])


def via_builder(spec):
    """route 3: pyimpspec.CircuitBuilder with nested context managers.  Raises what the builder raises."""
    from pyimpspec import CircuitBuilder
    root = spec if spec[0] != "E" else ("S", (spec,))

    def rec(b, node):
        for ch in node[1]:
            if ch[0] == "E":
                b.add(build(ch))
            elif ch[0] == "S":
                with b.series() as s:
                    rec(s, ch)
            else:
                with b.parallel() as p:
                    rec(p, ch)
    with CircuitBuilder(parallel=root[0] == "P") as b:
        rec(b, root)
    return b.to_circuit()


# ------------------------------------------------------------------------------------------------- repro source
REPRO_HEAD = ("import numpy as np, pyimpspec\nfrom pyimpspec import Circuit, CircuitBuilder, Series, Parallel, parse_cdc\n"
              "from pyimpspec.circuit.registry import get_elements\nE = get_elements(); inf = float('inf')\n")

BUILDER_SRC = '''
def _fill(b, con):
    for x in con:
        if isinstance(x, Series):
            with b.series() as s: _fill(s, x)
        elif isinstance(x, Parallel):
            with b.parallel() as p: _fill(p, x)
        else: b.add(x)
def via_builder(root):
    if not isinstance(root, (Series, Parallel)): root = Series([root])
    with CircuitBuilder(parallel=isinstance(root, Parallel)) as b: _fill(b, root)
    return b.to_circuit()
'''


def _pynum(v):
    return "inf" if v == INF else ("-inf" if v == -INF else repr(float(v)))


def to_source(spec):
    """python expression that builds the objects of a spec (uses the names of REPRO_HEAD)"""
    if spec[0] == "E":
        _, sym, params, label, subs = spec
        args = [f"{k}={_pynum(v)}" for k, v in params] + [f"{k}={'None' if s is None else to_source(s)}" for k, s in subs]
        src = f"E[{sym!r}]({', '.join(args)})"
        if label:
            src += f".set_label({label!r})"
        return src
    return ("Series" if spec[0] == "S" else "Parallel") + "([" + ", ".join(to_source(c) for c in spec[1]) + "])"


def route_source(spec, route):
    """python statement `c = ...` that builds the circuit of a spec along the given route"""
    if route == "objects":
        return f"c = Circuit({to_source(spec)})"
    if route == "parse":
        return f"c = parse_cdc(Circuit({to_source(spec)}).to_string(12))"
    if route == "cdc":
        return f"c = parse_cdc({hand_cdc(spec)!r})"
    if route == "builder":
        return BUILDER_SRC + f"c = via_builder({to_source(spec)})"
    if route == "list":
        return f"c = Circuit([{', '.join(to_source(x) for x in spec[1])}])"
    raise ValueError(route)


# ------------------------------------------------------------------------------------------------- reference
class _RefConn:
    """stand-in for a sub-circuit whose impedance is supplied by the reference"""
    def __init__(self, z):
        self.z = z

    def _impedance(self, f):
        return np.full(f.shape, self.z, dtype=np.complex128)


@functools.lru_cache(None)
def _leaf_ref(spec, f):
    """E_node(f): the element's own impedance function at one frequency (opaque here; C02 pins it).  The sub-circuits of
    a container are evaluated by THIS reference and handed to the container's equation as plain numbers."""
    _, sym, params, _label, _subs = spec
    cls = classes()[sym]
    arr = np.array([f], dtype=float)
    e = cls(**dict(params))
    if is_container_spec(spec):
        stubs = {}
        for key, sub in full_subs(spec).items():
            if sub is None:
                stubs[key] = None
            else:
                z = ref(sub, f)
                stubs[key] = _RefConn(complex(INF, 0.0) if z is OPEN else z)
        z = cls._impedance(e, arr, **e.get_values(), **stubs)[0]
    else:
        z = e._impedance(arr, **e.get_values())[0]
    z = complex(z)
    if math.isnan(z.real) or math.isnan(z.imag):
        return None            # the element's own equation is not evaluable here (overflow); outside C01
    if math.isinf(z.real) or math.isinf(z.imag):
        return OPEN
    return z


class NotEvaluable(Exception):
    pass


def ref(spec, f):
    """Zs(node, f) of DESIGN.md for one positive finite frequency: complex number or OPEN"""
    kind = spec[0]
    if kind == "E":
        z = _leaf_ref(spec, f)
        if z is None:
            raise NotEvaluable()
        return z
    zs = [ref(c, f) for c in spec[1]]
    if kind == "S":
        if any(z is OPEN for z in zs):
            return OPEN
        total = 0j
        for z in zs:
            total += z
        return total
    if not zs:
        return 0j
    if any(z is not OPEN and z == 0 for z in zs):
        return 0j                      # a shorted branch shorts the connection
    finite = [z for z in zs if z is not OPEN]
    if not finite:
        return OPEN                    # every branch open: the connection is open
    y = 0j
    for z in finite:
        y += 1 / z
    if y == 0:
        return OPEN
    return 1 / y


def features(spec, f0=1.0):
    """structural facts about a spec used to key failures by root cause"""
    feats = set()

    def rec(node, root, in_container):
        if node[0] == "E":
            if any(v == INF for _, v in node[2]):
                feats.add("inf-value")
            if any(v == 0.0 for _, v in node[2]):
                feats.add("zero-value")
            if is_container_spec(node):
                feats.add("container")
                for _, sub in full_subs(node).items():
                    if sub is not None:
                        rec(sub, False, True)
                        try:
                            z = ref(sub, f0)
                            if z is OPEN:
                                feats.add("subcircuit-open-by-value")
                            elif z == 0 and has_elements(sub):
                                feats.add("subcircuit-short-by-value")
                        except NotEvaluable:
                            pass
            return
        if node[0] == "P" and len(node[1]) == 1:
            feats.add("one-branch-parallel")
        if not node[1] and not in_container:
            feats.add("empty-connection")
        if node[0] == "P" and node[1] and (not root):
            try:
                if ref(node, f0) is OPEN:
                    feats.add("container-open-parallel" if in_container else "nested-open-parallel")
            except NotEvaluable:
                pass
        for ch in node[1]:
            rec(ch, False, in_container)
    rec(spec, True, False)
    return feats


def check_tlm_defaults():
    """the hand transcription of the container's defaults must match the library (otherwise the harness is wrong)"""
    t = classes()["Tlm"]()
    subs = t.get_subcircuits()
    mine = dict(TLM_DEFAULT_SUBS)
    assert set(subs) == set(mine), (set(subs), set(mine))
    for k, con in subs.items():
        if con is None:
            assert mine[k] is None, k
        else:
            assert mine[k] is not None and con.to_string(12) == build(mine[k]).to_string(12), (k, con.to_string(12))


# ------------------------------------------------------------------------------------------------- traversal
def walk(obj, into_containers=True):
    """own traversal: every element of a Circuit/Connection in document order, optionally entering container sub-circuits"""
    from pyimpspec.circuit.base import Connection, Container
    root = getattr(obj, "_elements", obj)
    if not isinstance(root, Connection) and not isinstance(root, list):
        root = [root]
    out = []

    def rec(node):
        for ch in node:
            if isinstance(ch, Connection):
                rec(ch)
            else:
                out.append(ch)
                if into_containers and isinstance(ch, Container):
                    for sub in ch.get_subcircuits().values():
                        if sub is not None:
                            rec(sub)
    rec(root)
    return out


# ------------------------------------------------------------------------------------------------- jobs
def product_jobs(part, shape_list, alphabet, block=1500):
    """jobs covering shape x alphabet^leaves exhaustively; job = (part, "product", shape, alphabet, lo, hi)"""
    jobs = []
    for shape in shape_list:
        total = len(ALPHABETS[alphabet]) ** n_leaves(shape)
        for lo in range(0, total, block):
            jobs.append((part, "product", shape, alphabet, lo, min(total, lo + block)))
    return jobs


def sample_jobs(part, shape_list, alphabet, per_shape, seed, group=40):
    """jobs drawing `per_shape` random leaf assignments per shape; several shapes per job"""
    jobs = []
    for i in range(0, len(shape_list), group):
        jobs.append((part, "sample", tuple(shape_list[i:i + group]), alphabet, per_shape, seed + i))
    return jobs


ALPHABETS = {}      # name -> list of makers; maker(i, p) -> leaf spec (i = case index, p = leaf position)


def job_specs(job):
    part, kind = job[0], job[1]
    if kind == "product":
        _, _, shape, alphabet, lo, hi = job
        makers = ALPHABETS[alphabet]
        n, base = n_leaves(shape), len(makers)
        for idx in range(lo, hi):
            digits, r = [], idx
            for _ in range(n):
                digits.append(r % base)
                r //= base
            yield fill(shape, [makers[d](idx, p) for p, d in enumerate(digits)])
    elif kind == "sample":
        _, _, shape_list, alphabet, per_shape, seed = job
        makers = ALPHABETS[alphabet]
        rng = np.random.default_rng(seed)
        for shape in shape_list:
            n = n_leaves(shape)
            for _ in range(per_shape):
                idx = int(rng.integers(0, 1 << 30))
                yield fill(shape, [makers[int(rng.integers(0, len(makers)))](idx, p) for p in range(n)])
    elif kind == "list":
        yield from job[2]
    else:
        raise ValueError(kind)
