"""C01 bounded layer (Layer R): every series/parallel topology up to a bounded number of leaves over a leaf alphabet
{R, C, L, Q, W, R=0 short, R=inf open, Tlm container (default / open / short / nested sub-circuits)}, built along four
routes of the public API (objects, parse of the library's own CDC, parse of a hand-written CDC, CircuitBuilder) plus the
documented `Circuit([...])` list form, compared with an independent recursive reference (series adds, parallel adds
reciprocals, open branch contributes nothing, shorted branch shorts, all-open connection is open), array evaluation
compared with one-frequency-at-a-time evaluation.  BOUNDED - never counted as proved."""
import multiprocessing as mp
import sys

import numpy as np

sys.path.insert(0, __file__.rsplit("/bounded/", 1)[0])
from bounded.common import Result, guarded  # noqa: E402
from bounded import circuits_enum as ce  # noqa: E402
from bounded.circuits_enum import E, S, P, INF, OPEN  # noqa: E402

TOL = {"objects": 1e-12, "cdc": 1e-12, "parse": 1e-9, "builder": 1e-9, "list": 1e-12}
CTX = {}


# ------------------------------------------------------------------------------------------------- alphabet
def _mix(i, p, k):
    return ce.mix(i, p, k, 1)


def make_presets(seed, tier):
    rng = np.random.default_rng(seed)
    k = 3 if tier == "quick" else 5
    pre = {"R": [{"R": 1000.0}], "C": [{"C": 1e-6}], "L": [{"L": 1e-6}], "Q": [{"Y": 1e-6, "n": 0.95}], "W": [{"Y": 1e-3, "n": 0.5}]}
    for _ in range(k - 1):
        pre["R"].append({"R": float(10 ** rng.uniform(-2, 6))})
        pre["C"].append({"C": float(10 ** rng.uniform(-9, -2))})
        pre["L"].append({"L": float(10 ** rng.uniform(-9, -2))})
        pre["Q"].append({"Y": float(10 ** rng.uniform(-9, -2)), "n": float(rng.uniform(0.05, 1.0))})
        pre["W"].append({"Y": float(10 ** rng.uniform(-6, 1)), "n": float(rng.uniform(0.2, 0.8))})
    if tier != "quick":
        pre["Q"] += [{"Y": 1e-5, "n": 1.0}, {"Y": 1e-3, "n": 0.0}]        # on the limits
    return pre


def tlm_variants(tier):
    r, c = E("R", {"R": 5.0}), E("C", {"C": 2e-5})
    x2s = [S(), S(E("R", {"R": 2.0})), S(E("R", {"R": 0.0}))]
    zs = [None, S(E("R", {"R": 5.0})), S(), S(E("R", {"R": INF})), S(P(E("R", {"R": INF}), E("R", {"R": INF}))), P(r, c)]
    if tier != "quick":
        zs += [S(E("R", {"R": 0.0})), P(E("R", {"R": 7.0}), P(E("R", {"R": INF}), E("R", {"R": INF}))), S(r, P(c, E("R", {"R": 0.0})))]
    x1s = [S(E("R", {"R": 1.0})), S(E("R", {"R": 3.0}), P(E("R", {"R": 2.0}), E("C", {"C": 1e-4})))]
    zetas = [S(E("Q", {"Y": 5e-3, "n": 0.8})), S(P(E("R", {"R": 100.0}), E("C", {"C": 1e-6})))]
    out = []
    for x1 in x1s:
        for x2 in x2s:
            for za in zs:
                for zb in zs:
                    for ze in zetas:
                        # pore length chosen so that cosh(L/lambda) stays representable up to 1e9 Hz
                        length = 0.7 if ze is not zetas[0] else (1.0 if x2 is x2s[0] or x2 is x2s[2] else 0.2)
                        out.append(E("Tlm", {"L": length}, subs=(("X_1", x1), ("X_2", x2), ("Z_A", za), ("Z_B", zb), ("Zeta", ze))))
    # a container nested in a container
    inner = E("Tlm", subs=(("Z_B", S(E("R", {"R": 4.0}))),))
    out.append(E("Tlm", {"L": 0.2}, subs=(("Z_A", S(inner)), ("X_2", S(E("R", {"R": 2.0}))))))
    out.append(E("Tlm", subs=(("X_1", S(inner)),)))
    return out


def register_alphabets(pre, tier):
    def mk(sym):
        return lambda i, p: E(sym, pre[sym][_mix(i, p, len(pre[sym]))])
    short = lambda i, p: E("R", {"R": 0.0})      # noqa: E731
    opn = lambda i, p: E("R", {"R": INF})        # noqa: E731
    tlm = lambda i, p: E("Tlm")                  # noqa: E731
    tv = tlm_variants(tier)
    tlmv = lambda i, p: tv[_mix(i, p, len(tv))]  # noqa: E731
    ce.ALPHABETS["full"] = [mk("R"), mk("C"), mk("L"), mk("Q"), mk("W"), short, opn, tlm]
    ce.ALPHABETS["core"] = [mk("R"), mk("C"), short, opn]
    ce.ALPHABETS["tri"] = [mk("R"), short, opn]
    ce.ALPHABETS["rand"] = [mk("R"), mk("C"), mk("L"), mk("Q"), mk("W"), short, opn, tlm, tlmv, mk("R"), mk("C")]
    return tv


# ------------------------------------------------------------------------------------------------- evaluation
EXPLAINS = {"InfiniteImpedance": ["nested-open-parallel", "container-open-parallel"], "InvalidParameterDefinition": ["inf-value"]}


def tag(feats, excname=None):
    for ft in EXPLAINS.get(excname, []):
        if ft in feats:
            return ft
    return "+".join(sorted(feats)) or "plain"


def function_for(route, tg, spec_text):
    if "nested-open-parallel" in tg:
        return "Parallel._impedance"
    if "container-open-parallel" in tg:
        return "_evaluate_subcircuit"
    if route == "list":
        return "Circuit.__init__"
    if tg == "inf-value" and route in ("parse", "builder"):
        return "Element.to_string"
    return {"objects": "Parallel._impedance" if "(" in spec_text else "Series._impedance", "parse": "Parser.process", "cdc": "Parser.process",
            "builder": "CircuitBuilder.to_circuit"}[route]


def repro_for(spec, route, refs, tol, scalar=False):
    fl = CTX["FL"]
    src = ce.REPRO_HEAD + ce.route_source(spec, route) + f"\nf = {fl!r}\n"
    if refs[0] is OPEN:
        src += ("try:\n    Z = c.get_impedances(f)\nexcept pyimpspec.exceptions.InfiniteImpedance:\n    pass\n"
                "else:\n    raise AssertionError(f'an open circuit must raise InfiniteImpedance, got {Z}')\n")
        return src
    src += f"ref = {[complex(r) for r in refs]!r}\n"
    if scalar:
        src += "Z = [c.get_impedances([x])[0] for x in f]\n"
    else:
        src += "Z = c.get_impedances(f)\n"
    src += f"assert all((z == 0) if r == 0 else abs(z - r) <= {tol!r} * abs(r) for z, r in zip(Z, ref)), (list(Z), ref)\n"
    return src


def close(z, r, tol):
    if r == 0:
        return z == 0
    return abs(z - r) <= tol * abs(r)


def eval_spec(spec, part, out):
    """evaluate the C01 contract for one circuit; appends failures to out["fails"]"""
    from pyimpspec.exceptions import ConnectionWithoutElements, InfiniteImpedance, InsufficientElementsInParallelConnection
    import pyimpspec
    f, fl = CTX["F"], CTX["FL"]
    cnt = out["counters"]
    try:
        refs = [ce.ref(spec, x) for x in fl]
    except ce.NotEvaluable:
        cnt["leaf-equation-not-evaluable"] = cnt.get("leaf-equation-not-evaluable", 0) + 1
        return False
    top_open = refs[0] is OPEN
    if any((r is OPEN) != top_open for r in refs):
        cnt["mixed-open"] = cnt.get("mixed-open", 0) + 1     # outside the `requires` of the parallel rule
        return False
    feats = ce.features(spec)
    text = ce.hand_cdc(spec, values=False)
    size = ce.n_leaves(spec)

    def fail(route, kind, what, tg, scalar=False):
        key = f"{route}:{tg}:{kind}"
        if route == "list":
            key = "list-ctor:" + kind.replace("open-circuit:", "")      # one root cause whatever the elements are
        out["fails"].append((size, key, function_for(route, tg, text), f"{route} route, circuit {ce.hand_cdc(spec)}: {what}",
                             repro_for(spec, route, refs, TOL[route], scalar)))

    def check(route, c):
        tol = TOL[route]
        exc, Z = None, None
        try:
            Z = np.asarray(c.get_impedances(f))
        except Exception as ex:  # noqa
            exc = ex
        cnt[route] = cnt.get(route, 0) + 1
        if top_open:
            if exc is None:
                fail(route, "open-circuit:no exception", f"reference says open circuit, API returned {Z[:2]}", tag(feats))
            elif not isinstance(exc, InfiniteImpedance):
                fail(route, f"open-circuit:raises {type(exc).__name__}", f"open circuit must raise InfiniteImpedance, raised {exc!r}", tag(feats, type(exc).__name__))
            return None
        if exc is not None:
            fail(route, f"raises {type(exc).__name__}", f"get_impedances raised {exc!r}; required {refs[0]} at f={fl[0]}", tag(feats, type(exc).__name__))
            return None
        if Z.shape != f.shape:
            fail(route, "wrong shape", f"{Z.shape} for {f.shape}", tag(feats))
            return None
        bad = [k for k in range(len(fl)) if not close(Z[k], refs[k], tol)]
        if bad:
            k = bad[0]
            fail(route, "value differs", f"at f={fl[k]}: got {Z[k]}, required {refs[k]} (rel. tol {tol})", tag(feats))
            return None
        return Z

    # ---- route 1: objects
    if part == "list":
        try:
            c = pyimpspec.Circuit([ce.build(x) for x in spec[1]])
        except Exception as ex:  # noqa
            fail("list", f"constructor raises {type(ex).__name__}", repr(ex), tag(feats))
            return True
        check("list", c)
        return True
    c = ce.circuit(spec)
    Z = check("objects", c)
    if Z is not None or top_open:
        # one frequency at a time
        for k, x in enumerate(fl):
            try:
                zk = np.asarray(c.get_impedances([x]))
                e1 = None
            except Exception as ex:  # noqa
                zk, e1 = None, ex
            if top_open:
                if not isinstance(e1, InfiniteImpedance):
                    fail("objects", "scalar:open-circuit:no InfiniteImpedance", f"f={x}: {e1!r} / {zk}", tag(feats), scalar=True)
                    break
            elif e1 is not None:
                fail("objects", f"scalar:raises {type(e1).__name__}", f"array evaluation works, single frequency f={x} raises {e1!r}", tag(feats, type(e1).__name__), scalar=True)
                break
            elif zk.shape != (1,) or not close(zk[0], Z[k], 1e-12) or not close(zk[0], refs[k], 1e-12):
                fail("objects", "scalar:value differs", f"f={x}: one at a time {zk}, in array {Z[k]}, required {refs[k]}", tag(feats), scalar=True)
                break
        cnt["scalar"] = cnt.get("scalar", 0) + 1
    if Z is not None and ce.digest(spec) % 16 == 0:
        # other observation points of the same law
        ds = pyimpspec.simulate_spectrum(c, f)
        got = dict(zip(ds.get_frequencies().tolist(), ds.get_impedances().tolist()))
        if any(x not in got or not close(got[x], refs[k], 1e-12) for k, x in enumerate(fl)):
            fail("objects", "simulate_spectrum:value differs", f"{got} vs {refs}", tag(feats))
        root = ce.build(spec)
        try:
            Zc = np.asarray(root.get_impedances(f))
            if any(not close(Zc[k], refs[k], 1e-12) for k in range(len(fl))):
                fail("objects", "node.get_impedances:value differs", f"{Zc} vs {refs}", tag(feats))
        except Exception as ex:  # noqa
            fail("objects", f"node.get_impedances:raises {type(ex).__name__}", repr(ex), tag(feats, type(ex).__name__))
        cnt["simulate_spectrum"] = cnt.get("simulate_spectrum", 0) + 1

    # ---- route 2a: the library's own CDC, 2b: a hand-written CDC
    unavailable = (InsufficientElementsInParallelConnection, ConnectionWithoutElements)
    for route in ("parse", "cdc"):
        try:
            cdc = c.to_string(12) if route == "parse" else ce.hand_cdc(spec)
            c2 = pyimpspec.parse_cdc(cdc)
        except Exception as ex:  # noqa
            if isinstance(ex, unavailable) and (feats & {"one-branch-parallel", "empty-connection"}):
                cnt[route + "-refused"] = cnt.get(route + "-refused", 0) + 1      # documented refusal: route not available
                continue
            fail(route, f"build raises {type(ex).__name__}", f"{cdc!r}: {ex!r}", tag(feats, type(ex).__name__))
            continue
        check(route, c2)

    # ---- route 3: CircuitBuilder
    try:
        c3 = ce.via_builder(spec)
    except Exception as ex:  # noqa
        if isinstance(ex, (ValueError,) + unavailable) and (feats & {"one-branch-parallel", "empty-connection"}) and not isinstance(ex, pyimpspec.exceptions.InvalidParameterDefinition):
            cnt["builder-refused"] = cnt.get("builder-refused", 0) + 1
        else:
            fail("builder", f"build raises {type(ex).__name__}", repr(ex), tag(feats, type(ex).__name__))
    else:
        check("builder", c3)
    return True


def run_job(job):
    out = {"fails": [], "counters": {}, "n": 0, "digests": [], "samples": []}
    part = job[0]
    for spec in ce.job_specs(job):
        nontrivial = eval_spec(spec, part, out)
        out["n"] += 1
        if nontrivial:
            out["digests"].append(ce.digest((part == "list", spec)))
        if len(out["samples"]) < 1 and nontrivial:
            r0 = ce.ref(spec, CTX["FL"][0])
            out["samples"].append({"part": part, "circuit": ce.hand_cdc(spec), "f": CTX["FL"][0], "reference": str(r0)})
    # keep the smallest example per key
    best = {}
    for rec in out["fails"]:
        if rec[1] not in best or rec[0] < best[rec[1]][0]:
            best[rec[1]] = rec
    out["fails"] = list(best.values())
    return part, out


# ------------------------------------------------------------------------------------------------- scope
def make_jobs(a, tv):
    quick = a.tier == "quick"
    jobs = []
    if quick:
        for n in (1, 2, 3):
            jobs += ce.product_jobs("exhaustive<=3", ce.shapes(n, 1), "full")
        s40 = ce.shapes(4, 0)
        s41 = [s for s in ce.shapes(4, 1) if s not in set(s40)]
        jobs += ce.product_jobs("4-leaves:core", s40, "core")
        jobs += ce.sample_jobs("4-leaves:sampled", s40, "full", 24, a.seed + 101)
        jobs += ce.sample_jobs("4-leaves:sampled", s41, "full", 4, a.seed + 202)
        bound_n = ("every topology with <= 3 leaves and <= 1 one-child connection x 8-leaf alphabet exhaustively; every 4-leaf topology without one-child "
                   "connections x {R,C,short,open} exhaustively, plus 24 (4 for the 820 topologies with a one-child connection) sampled assignments of the 8-leaf alphabet")
    else:
        for n in (1, 2, 3):
            jobs += ce.product_jobs("exhaustive<=3", ce.shapes(n, 2), "full")
        s40 = ce.shapes(4, 0)
        s41 = [s for s in ce.shapes(4, 1) if s not in set(s40)]
        jobs += ce.product_jobs("4-leaves:full", s40, "full")
        jobs += ce.product_jobs("4-leaves:core", s41, "core")
        s50 = ce.shapes(5, 0)
        s51 = [s for s in ce.shapes(5, 1) if s not in set(s50)]
        jobs += ce.product_jobs("5-leaves:tri", s50, "tri")
        jobs += ce.sample_jobs("5-leaves:sampled", s50, "full", 40, a.seed + 303)
        jobs += ce.sample_jobs("5-leaves:sampled", s51, "full", 3, a.seed + 404)
        bound_n = ("every topology with <= 3 leaves and <= 2 one-child connections x 8-leaf alphabet, every 4-leaf topology without one-child connections x "
                   "8-leaf alphabet, every 4-leaf topology with one one-child connection x {R,C,short,open} and every 5-leaf topology without x {R,short,open}, all exhaustively; "
                   "5-leaf topologies x 8-leaf alphabet sampled (40 resp. 3 per topology)")
    # containers with open / short / nested sub-circuits in small contexts
    r, c0, o, s0 = E("R", {"R": 50.0}), E("C", {"C": 1e-5}), E("R", {"R": INF}), E("R", {"R": 0.0})
    contexts = [lambda t: t, lambda t: S(r, t), lambda t: P(t, c0), lambda t: P(o, t)]
    if not quick:
        contexts += [lambda t: P(t, s0), lambda t: S(P(r, S(t, c0)), t), lambda t: P(P(t, o), r), lambda t: S(S(t), P(c0, t))]
    specs = [ctx(t) for t in tv for ctx in contexts]
    for i in range(0, len(specs), 200):
        jobs.append(("containers", "list", tuple(specs[i:i + 200])))
    # documented constructor form Circuit([element, ...])
    leaves = [mk(7, 0) for mk in ce.ALPHABETS["full"]]
    lists = [S(x) for x in leaves] + [S(x, y) for x in leaves for y in leaves]
    if not quick:
        lists += [S(x, y, z) for x in leaves for y in leaves for z in leaves]
    for i in range(0, len(lists), 150):
        jobs.append(("list", "list", tuple(lists[i:i + 150])))
    # empty connections (objects route only can express them)
    empt = []
    for e in (S(), P()):
        empt += [e, S(e), P(e), S(r, e), S(e, c0), P(r, e), P(e, o), P(o, e), S(r, P(c0, e)), P(r, S(e)), P(o, S(e, c0))]
    jobs.append(("empty-connections", "list", tuple(empt)))
    # larger random circuits
    rng = np.random.default_rng(a.seed + 7)
    n_rand = 600 if quick else 12000
    rand = []
    for i in range(n_rand):
        n = int(rng.integers(6, 13 if quick else 17))
        shape = ce.random_shape(rng, n)
        mk = ce.ALPHABETS["rand"]
        rand.append(ce.fill(shape, [mk[int(rng.integers(0, len(mk)))](i, p) for p in range(n)]))
    for i in range(0, len(rand), 100):
        jobs.append(("random-large", "list", tuple(rand[i:i + 100])))
    return jobs, bound_n, n_rand


def main(a):
    import pyimpspec  # noqa
    ce.check_tlm_defaults()
    rng = np.random.default_rng(a.seed)
    f = np.concatenate([np.logspace(-6, 9, 7), 10 ** rng.uniform(-6, 9, size=1)])
    rng.shuffle(f)
    CTX["F"], CTX["FL"] = f, [float(x) for x in f]
    pre = make_presets(a.seed, a.tier)
    tv = register_alphabets(pre, a.tier)
    jobs, bound_n, n_rand = make_jobs(a, tv)
    res = Result("C01", f"{bound_n}; {len(tv)} Tlm container variants (open/short/by-value-open/nested sub-circuits) in {4 if a.tier == 'quick' else 8} contexts; "
                 f"Circuit([...]) lists of <= {2 if a.tier == 'quick' else 3} elements; empty connections; {n_rand} random circuits with 6..{12 if a.tier == 'quick' else 16} leaves; "
                 f"{len(pre['R'])} parameter presets per element type inside the limits; {len(f)} shuffled frequencies spanning 1e-6..1e9 Hz; routes objects / parse(to_string(12)) / hand-written CDC / CircuitBuilder",
                 "shapes = ordered S/P trees (same-kind nesting and one-child connections included) enumerated recursively; leaves assigned as the full cartesian power of the alphabet "
                 "(or seeded samples where stated); a case is one (construction form, circuit) pair and is non-trivial when the reference is defined at every frequency; "
                 "each case checks reference equality per route (rel. 1e-12; 1e-9 through 12-decimal serialisation), InfiniteImpedance iff the reference is open, and array == one-at-a-time")
    random_order = np.random.default_rng(a.seed).permutation(len(jobs))
    allf = []
    with mp.get_context("fork").Pool(16) as pool:
        for part, out in pool.imap_unordered(run_job, [jobs[i] for i in random_order]):
            for dg in out["digests"]:
                res.case(dg, True)
            for _ in range(out["n"] - len(out["digests"])):
                res.case(None, False)          # outside the property's quantifier (reference undefined / cannot be simulated)
            p = res.parts.setdefault(part, {"cases": 0})
            p["cases"] += out["n"]
            for k, v in out["counters"].items():
                p[k] = p.get(k, 0) + v
            if len(res.samples) < 12 and out["samples"] and not any(s["part"] == part for s in res.samples):
                res.samples += out["samples"]
            allf += out["fails"]
    for size, key, fn, what, repro in sorted(allf, key=lambda r: (r[0], r[1], len(r[3]))):
        res.fail(key, fn, what, repro)
    return res


if __name__ == "__main__":
    guarded(main)
