"""C16 bounded layer (Layer R): element identifiers and names over every series/parallel topology up to a bounded number of
leaves with repeated element types, labelled / unlabelled / duplicate-label mixes and container elements with nested
sub-circuits.  Checks: running identifiers are a bijection onto 0..N-1 over ALL elements (also those inside containers),
per-symbol counts are 1..count in traversal order, display names are unique unless duplicate labels were assigned, and the
same identifier denotes the same element in to_sympy() variables (checked numerically), generate_fit_identifiers,
validate_circuit and the CircuiTikZ / schemdraw labels.  BOUNDED - never counted as proved."""
import collections
import multiprocessing as mp
import re
import sys

import numpy as np

sys.path.insert(0, __file__.rsplit("/bounded/", 1)[0])
from bounded.common import Result, guarded  # noqa: E402
from bounded import circuits_enum as ce  # noqa: E402
from bounded.circuits_enum import E, S, P  # noqa: E402

CTX = {}


def _mix(i, p, k):
    return ce.mix(i, p, k, 16)


# ------------------------------------------------------------------------------------------------- alphabet
def lab(i, p, unique):
    """label of leaf p in case i: mostly the unique one, sometimes a label shared with other leaves"""
    return "dup" if _mix(i, p, 6) == 0 else unique


def tlm_a(i, p, label=""):
    return E("Tlm", {"L": 1.0 + 0.1 * p}, label, (("X_1", S(E("R", {"R": 1.5 + p}))), ("Zeta", S(E("Q", {"Y": 5e-3 * (p + 1), "n": 0.8})))))


def tlm_b(i, p, label=""):
    inner = "" if _mix(i, p, 3) else f"in_{p}_x"
    return E("Tlm", {"L": 0.8 + 0.1 * p}, label, (("X_1", S(E("R", {"R": 2.5 + p}, inner))),
                                                     ("Z_B", S(P(E("R", {"R": 5.0 + p}), E("C", {"C": 1e-5 * (p + 1)}))))))


def tlm_nested(p, labels=("", "", "")):
    """a container whose sub-circuits hold connections, repeated types and another container"""
    inner = E("Tlm", {"L": 1.3}, labels[0], (("X_1", S(E("R", {"R": 3.5 + p}, labels[1]))), ("Z_B", S(E("R", {"R": 8.0 + p}), E("C", {"C": 3e-5})))))
    return E("Tlm", {"L": 0.3}, labels[2], (("X_1", S(E("R", {"R": 2.0 + p}))), ("X_2", S(E("R", {"R": 1.25 + p}))),
                                            ("Z_A", S(P(E("R", {"R": 6.0 + p}), E("C", {"C": 1e-5})))), ("Z_B", S(inner, E("R", {"R": 0.5 + p})))))


def register_alphabets():
    mk = {
        "R": lambda i, p: E("R", {"R": 100.0 * (p + 1) + 3.0}),
        "Rl": lambda i, p: E("R", {"R": 150.0 * (p + 1) + 1.0}, lab(i, p, ce.pool_label(i, p, 16))),
        "C": lambda i, p: E("C", {"C": 1e-6 * (p + 2)}, "" if _mix(i, p, 4) else lab(i, p, ce.pool_label(i, p, 16))),
        "QW": lambda i, p: (E("Q", {"Y": 1e-5 * (p + 1), "n": 0.6 + 0.05 * p}) if (i + p) % 2 else E("W", {"Y": 1e-3 * (p + 1), "n": 0.45 + 0.02 * p}, "" if _mix(i, p, 5) else ce.pool_label(i, p, 17))),
        "TA": lambda i, p: tlm_a(i, p, "" if _mix(i, p, 3) else lab(i, p, ce.pool_label(i, p, 18))),
        "TB": lambda i, p: tlm_b(i, p),
    }
    ce.ALPHABETS["c16"] = [mk[k] for k in ("R", "Rl", "C", "QW", "TA", "TB")]
    ce.ALPHABETS["c16-small"] = [mk[k] for k in ("R", "Rl", "TA")]
    ce.ALPHABETS["c16-rand"] = ce.ALPHABETS["c16"] + [lambda i, p: tlm_nested(p), mk["R"], mk["C"]]


# ------------------------------------------------------------------------------------------------- evaluation
def repro_head(spec):
    return (ce.REPRO_HEAD + "import re, collections\nfrom pyimpspec.circuit.base import Connection, Container\n"
            f"c = Circuit({ce.to_source(spec)})\n"
            "def walk(node, deep=True):\n    out = []\n    for ch in node:\n        if isinstance(ch, Connection): out += walk(ch, deep)\n        else:\n            out.append(ch)\n"
            "            if deep and isinstance(ch, Container):\n                for s in ch.get_subcircuits().values():\n                    if s is not None: out += walk(s, deep)\n    return out\n"
            "els = walk(c._elements)\n")


REPRO = {
    "running": "run = c.generate_element_identifiers(running=True)\nassert set(map(id, run)) == set(map(id, els)), 'element set'\nassert sorted(run.values()) == list(range(len(els))), sorted(run.values())\n",
    "count": ("run = c.generate_element_identifiers(running=True); cnt = c.generate_element_identifiers(running=False)\nassert set(map(id, cnt)) == set(map(id, els))\n"
              "for s in {e.get_symbol() for e in els}:\n    seq = [cnt[e] for e in sorted((e for e in els if e.get_symbol() == s), key=lambda e: run[e])]\n    assert seq == list(range(1, len(seq) + 1)), (s, seq)\n"),
    "name": ("cnt = c.generate_element_identifiers(running=False)\nnames = [c.get_element_name(e) for e in els]\n"
             "assert names == [c.get_element_name(e, cnt) for e in els]\n"
             "assert names == [e.get_symbol() + '_' + (e.get_label() or str(cnt[e])) for e in els], names\n"
             "pairs = [(e.get_symbol(), e.get_label()) for e in els if e.get_label()]\n"
             "if len(pairs) == len(set(pairs)): assert len(set(names)) == len(names), names\n"),
    "validate": ("from pyimpspec.analysis.fitting import validate_circuit\nnames = [c.get_element_name(e) for e in els]\ntry:\n    validate_circuit(c); raised = False\nexcept ValueError:\n    raised = True\n"
                 "assert raised == (len(set(names)) != len(names)), (raised, names)\n"),
    "fit": ("from pyimpspec.analysis.fitting import generate_fit_identifiers\nrun = c.generate_element_identifiers(running=True); fi = generate_fit_identifiers(c)\n"
            "assert set(map(id, fi)) == set(map(id, els))\nallnames = []\nfor e in els:\n    assert dict(fi[e].items()) == {k: f'{k}_{run[e]}' for k in e.get_values()}, (e, dict(fi[e].items()))\n    allnames += list(fi[e].values())\n"
            "assert len(allnames) == len(set(allnames))\n"),
    "sympy": ("import sympy\nrun = c.generate_element_identifiers(running=True); ex = c.to_sympy()\n"
              "m = {sympy.Symbol(f'{k}_{e.get_label() or run[e]}'): sympy.Float(v) for e in els for k, v in e.get_values().items()}\n"
              "assert {str(s) for s in ex.free_symbols} - {'f'} <= {str(s) for s in m}, ex.free_symbols\n"
              "m[sympy.Symbol('f')] = sympy.Float(F0)\nz = complex(ex.xreplace(m).evalf()); r = c.get_impedances([F0])[0]\nassert abs(z - r) <= 1e-8 * abs(r), (z, r)\n"),
    "tikz": ("cnt = c.generate_element_identifiers(running=False); run = c.generate_element_identifiers(running=True)\ntop = walk(c._elements, deep=False)\n"
             "KIND = {'R': 'R', 'C': 'capacitor', 'L': 'L', 'La': 'L', 'Q': 'cpe'}\n"
             "for running, ids in ((False, cnt), (True, run)):\n    src = c.to_circuitikz(running=running)\n"
             "    got = collections.Counter(re.findall(r'to\\[([A-Za-z]+)=(\\$.*?\\$)\\]', src))\n"
             "    want = collections.Counter((KIND.get(e.get_symbol(), 'generic'), '$' + e.get_symbol() + '_{\\\\rm ' + str(e.get_label() or ids[e]) + '}$') for e in top)\n"
             "    assert got == want, (running, sorted((got - want).elements()), sorted((want - got).elements()))\n"),
    "container": ("for t in els:\n    if not isinstance(t, Container): continue\n    inside = []\n    for s in t.get_subcircuits().values():\n        if s is not None: inside += walk(s)\n"
                  "    for running in (True, False):\n        ids = t.generate_element_identifiers(running=running)\n        assert ids[t] == -1\n"
                  "        assert set(map(id, ids)) == set(map(id, inside)) | {id(t)}, (running, len(ids), len(inside) + 1)\n"
                  "        vals = sorted(ids[e] for e in inside)\n        if running: assert len(set(vals)) == len(vals) and all(v >= 0 for v in vals), vals\n"
                  "        else:\n            for s in {e.get_symbol() for e in inside}:\n                seq = sorted(ids[e] for e in inside if e.get_symbol() == s)\n                assert seq == list(range(1, len(seq) + 1)), (s, seq)\n"),
    "fittable": ("from pyimpspec import simulate_spectrum, fit_circuit\nr = fit_circuit(c, simulate_spectrum(c, np.logspace(4, -1, 24)), method='least_squares', weight='boukamp', max_nfev=30, num_procs=1)\n"
                 "fc = r.circuit; fels = walk(fc._elements)\nwant = {fc.get_element_name(e): e.get_values() for e in fels}\n"
                 "assert [fc.get_element_name(e) for e in fels] == [c.get_element_name(e) for e in els]\n"
                 "got = {n: {k: p.value for k, p in d.items()} for n, d in r.parameters.items()}\nassert got == want, (got, want)\n"
                 "df = r.to_parameters_dataframe()\nrows = {(a, b): v for a, b, v in zip(df['Element'], df['Parameter'], df['Value'])}\n"
                 "assert rows == {(n, k): v for n, d in want.items() for k, v in d.items()}, rows\n"),
    "drawing": ("cnt = c.generate_element_identifiers(running=False); top = walk(c._elements, deep=False)\nd = c.to_drawing()\n"
                "got = sorted(l.label for x in d.elements for l in getattr(x, '_userlabels', []) if l.label)\n"
                "want = sorted('$' + e.get_symbol() + '_{\\\\rm ' + (e.get_label() or str(cnt[e])) + '}$' for e in top)\nassert got == want, (got, want)\n"),
}


def eval_spec(spec, part, out):
    import sympy
    from pyimpspec.analysis.fitting import generate_fit_identifiers, validate_circuit
    from pyimpspec.circuit.base import Container
    cnt_ = out["counters"]
    c = ce.circuit(spec)
    els = ce.walk(c)
    top = ce.walk(c, into_containers=False)
    n = len(els)
    ids = set(map(id, els))
    assert len(ids) == n
    feats = sorted(ce.features(spec) & {"one-branch-parallel", "container"})
    nested_container = any(isinstance(x, Container) for e in els if isinstance(e, Container) for s in e.get_subcircuits().values() if s is not None for x in ce.walk(s))
    size = ce.n_leaves(spec)

    def fail(key, function, what, which):
        out["fails"].append((size, key, function, f"circuit {ce.hand_cdc(spec)}: {what}", repro_head(spec).replace("F0", repr(CTX["F0"])) + REPRO[which].replace("F0", repr(CTX["F0"]))))

    def bump(k):
        cnt_[k] = cnt_.get(k, 0) + 1

    # 1. running identifiers: bijection onto 0..N-1 over all elements
    try:
        run = c.generate_element_identifiers(running=True)
        cnt = c.generate_element_identifiers(running=False)
    except Exception as ex:  # noqa
        fail(f"identifiers:raises {type(ex).__name__}", "Connection.generate_element_identifiers", repr(ex), "running")
        return True
    ok_sets = True
    if set(map(id, run)) != ids:
        missing = [e.get_symbol() for e in els if id(e) not in set(map(id, run))]
        fail("running:element set differs" + (":inside-container" if missing and all(id(e) not in set(map(id, top)) for e in els if id(e) not in set(map(id, run))) else ""),
             "Connection._get_elements_recursive", f"{len(run)} identifiers for {n} elements; missing {missing}", "running")
        ok_sets = False
    elif sorted(run.values()) != list(range(n)):
        fail("running:not a bijection onto 0..N-1", "Connection.generate_element_identifiers", f"values {sorted(run.values())}", "running")
        ok_sets = False
    # 2. per-symbol counts 1..count in traversal order
    if set(map(id, cnt)) != ids:
        fail("count:element set differs", "Connection.generate_element_identifiers", f"{len(cnt)} identifiers for {n} elements", "count")
        ok_sets = False
    elif ok_sets:
        for sym in sorted({e.get_symbol() for e in els}):
            seq = [cnt[e] for e in sorted((e for e in els if e.get_symbol() == sym), key=lambda e: run[e])]
            if seq != list(range(1, len(seq) + 1)):
                fail("count:not 1..count in traversal order", "Connection.generate_element_identifiers", f"symbol {sym}: {seq}", "count")
                break
    if not ok_sets:
        return True
    # 3. names
    pairs = [(e.get_symbol(), e.get_label()) for e in els if e.get_label()]
    dup_names_allowed = len(pairs) != len(set(pairs))
    labels = [e.get_label() for e in els if e.get_label()]
    dup_labels = len(labels) != len(set(labels))
    try:
        names = [c.get_element_name(e) for e in els]
        names2 = [c.get_element_name(e, cnt) for e in els]
    except Exception as ex:  # noqa
        fail(f"name:raises {type(ex).__name__}", "Connection.get_element_name", repr(ex), "name")
        return True
    want = [e.get_symbol() + "_" + (e.get_label() or str(cnt[e])) for e in els]
    if names != want or names2 != want:
        fail("name:not label-or-count", "Connection.get_element_name", f"{names} / {names2}, required {want}", "name")
    elif not dup_names_allowed and len(set(names)) != n:
        fail("name:not unique without duplicate labels", "Connection.get_element_name", f"{names}", "name")
    bump("duplicate-label-cases" if dup_labels else "unique-label-cases")
    # 4. validate_circuit refuses exactly the circuits with colliding names
    try:
        validate_circuit(c)
        raised = None
    except Exception as ex:  # noqa
        raised = ex
    collide = len(set(names)) != n
    if (raised is not None) != collide or (raised is not None and not isinstance(raised, ValueError)):
        fail("validate_circuit:" + ("accepts colliding names" if collide else f"raises {type(raised).__name__} without collision"), "validate_circuit", f"names {names}: {raised!r}", "validate")
    # 5. fitting identifiers
    try:
        fi = generate_fit_identifiers(c)
        bad = None
        if set(map(id, fi)) != ids:
            bad = f"{len(fi)} entries for {n} elements"
        else:
            allnames = []
            for e in els:
                wantd = {k: f"{k}_{run[e]}" for k in e.get_values()}
                if dict(fi[e].items()) != wantd:
                    bad = f"{dict(fi[e].items())} for running identifier {run[e]} ({wantd})"
                    break
                allnames += list(wantd.values())
            if bad is None and len(allnames) != len(set(allnames)):
                bad = f"identifier strings collide: {allnames}"
        if bad:
            fail("fit-identifiers:differ from running identifiers", "generate_fit_identifiers", bad, "fit")
    except Exception as ex:  # noqa
        fail(f"fit-identifiers:raises {type(ex).__name__}", "generate_fit_identifiers", repr(ex), "fit")
    # 6. container-level identifier maps
    for t in els:
        if not isinstance(t, Container):
            continue
        inside = []
        for s in t.get_subcircuits().values():
            if s is not None:
                inside += ce.walk(s)
        for running in (True, False):
            try:
                tid = t.generate_element_identifiers(running=running)
            except Exception as ex:  # noqa
                fail(f"container-identifiers:raises {type(ex).__name__}", "Container.generate_element_identifiers", repr(ex), "container")
                break
            if tid.get(t) != -1 or set(map(id, tid)) != set(map(id, inside)) | {id(t)}:
                deep = "nested-container-contents" if len(tid) < len(inside) + 1 and any(isinstance(x, Container) for x in inside) else "element set"
                fail(f"container-identifiers:{deep} missing", "Container.generate_element_identifiers", f"running={running}: {len(tid)} entries for {len(inside)} contained elements + self", "container")
                break
            vals = sorted(tid[e] for e in inside)
            if running and (len(set(vals)) != len(vals) or any(v < 0 for v in vals)):
                fail("container-identifiers:running identifiers not distinct", "Container.generate_element_identifiers", f"{vals}", "container")
                break
            if not running:
                for sym in sorted({e.get_symbol() for e in inside}):
                    seq = sorted(tid[e] for e in inside if e.get_symbol() == sym)
                    if seq != list(range(1, len(seq) + 1)):
                        fail("container-identifiers:counts not 1..count", "Container.generate_element_identifiers", f"{sym}: {seq}", "container")
                        break
        bump("container-maps")
    # 7. CircuiTikZ labels
    for running, idm in ((False, cnt), (True, run)):
        try:
            src = c.to_circuitikz(running=running)
        except Exception:  # noqa   (totality of the export is C20's business)
            bump("circuitikz-unavailable")
            break
        # per element: (component kind, exact label text) derived from (symbol, whole label or identifier) only
        comps = collections.Counter(ce.TIKZ_COMPONENT.findall(src))
        wantc = collections.Counter((ce.TIKZ_KIND.get(e.get_symbol(), "generic"), ce.diagram_label(e.get_symbol(), e.get_label() or idm[e])) for e in top)
        if comps != wantc:
            gt, wt = collections.Counter(t for _, t in comps.elements()), collections.Counter(t for _, t in wantc.elements())
            if sum(gt.values()) != len(top):
                fail(f"circuitikz:labels differ from element names:running={running}", "to_circuitikz", f"{sum(gt.values())} labelled components for {len(top)} elements", "tikz")
            elif gt != wt:
                fail("circuitikz:label-text-wrong", "to_circuitikz", f"running={running}: got {sorted((gt - wt).elements())}, required {sorted((wt - gt).elements())}", "tikz")
            else:
                fail("circuitikz:label on a component of another type", "to_circuitikz", f"{sorted((comps - wantc).elements())}", "tikz")
            break
        bump("circuitikz")
    # 8. symbolic variables denote the element with that identifier (numerical check), sampled because sympy is slow
    d = ce.digest(spec)
    if (size <= CTX["SYMPY_ALL"] or d % CTX["SYMPY_MOD"] == 0) and not (nested_container and d % 4):
        try:
            ex = c.to_sympy()
        except Exception:  # noqa
            ex = None
            bump("to_sympy-unavailable")
        if ex is not None and not dup_labels:
            m = {sympy.Symbol(f"{k}_{e.get_label() or run[e]}"): sympy.Float(v) for e in els for k, v in e.get_values().items()}
            free = {str(s) for s in ex.free_symbols} - {"f"}
            if not free <= {str(s) for s in m}:
                fail("sympy:variable that names no element", "Element.to_sympy", f"{sorted(free - {str(s) for s in m})}", "sympy")
            else:
                m[sympy.Symbol("f")] = sympy.Float(CTX["F0"])
                z = complex(ex.xreplace(m).evalf())
                r = complex(c.get_impedances([CTX["F0"]])[0])
                if not abs(z - r) <= 1e-8 * abs(r):
                    fail("sympy:variable carries another element's value", "Connection.to_sympy", f"expression with each variable set to the value of the element with that identifier gives {z}, circuit gives {r}", "sympy")
            bump("sympy-semantic")
    # 8b. table of fitted parameters: a value reported under a name is the value of that element's parameter
    if part == "fit-table" and not collide:
        import pyimpspec
        try:
            r = pyimpspec.fit_circuit(c, pyimpspec.simulate_spectrum(c, np.logspace(4, -1, 24)), method="least_squares", weight="boukamp", max_nfev=30, num_procs=1)
        except Exception:  # noqa   (whether a fit completes is C12/C18's business)
            r = None
            bump("fit-unavailable")
        if r is not None:
            fc = r.circuit
            fels = ce.walk(fc)
            if [(e.get_symbol(), e.get_label()) for e in fels] != [(e.get_symbol(), e.get_label()) for e in els]:
                bump("fit-circuit-not-matched")
            else:
                fnames = [fc.get_element_name(e) for e in fels]
                wantt = {nm: e.get_values() for nm, e in zip(fnames, fels)}
                got = {nm: {k: p.value for k, p in dd.items()} for nm, dd in r.parameters.items()}
                df = r.to_parameters_dataframe()
                rows = {(x, y): v for x, y, v in zip(df["Element"], df["Parameter"], df["Value"])}
                if fnames != names:
                    fail("fit-table:fitted circuit names its elements differently", "fit_circuit", f"{fnames} vs {names}", "fittable")
                elif set(got) != set(wantt) or any(set(got[nm]) != set(wantt[nm]) for nm in got):
                    fail("fit-table:names differ from element names", "_extract_parameters", f"{sorted(got)} vs {sorted(wantt)}", "fittable")
                elif got != wantt:
                    bad = [(nm, k, got[nm][k], wantt[nm][k]) for nm in got for k in got[nm] if got[nm][k] != wantt[nm][k]]
                    fail("fit-table:value reported under a name is not that element's value", "_extract_parameters", f"{bad[:3]}", "fittable")
                elif rows != {(nm, k): v for nm, dd in wantt.items() for k, v in dd.items()}:
                    fail("fit-table:dataframe differs from element values", "FitResult.to_parameters_dataframe", f"{rows}", "fittable")
                bump("fit-table")
    # 9. schemdraw labels (slow: sparse sample)
    if d % CTX["DRAW_MOD"] == 0 or part == "label-text":
        try:
            dr = c.to_drawing()
        except Exception:  # noqa
            dr = None
            bump("to_drawing-unavailable")
        if dr is not None:
            got = sorted(l.label for x in dr.elements for l in getattr(x, "_userlabels", []) if l.label)
            wantl = sorted(ce.diagram_label(e.get_symbol(), e.get_label() or cnt[e]) for e in top)
            if got != wantl:
                fail("drawing:label-text-wrong" if len(got) == len(wantl) else "drawing:labels differ from element names", "to_drawing", f"{got} vs {wantl}", "drawing")
            bump("drawing")
    return True


def run_job(job):
    out = {"fails": [], "counters": {}, "n": 0, "digests": [], "samples": []}
    part = job[0]
    for spec in ce.job_specs(job):
        eval_spec(spec, part, out)
        out["n"] += 1
        out["digests"].append(ce.digest(spec))
        if not out["samples"]:
            c = ce.circuit(spec)
            try:
                names = [c.get_element_name(e) for e in ce.walk(c)]
            except Exception as ex:  # noqa   (already reported by eval_spec as name:raises ...)
                names = [f"{type(ex).__name__}: {ex}"]
            out["samples"].append({"part": part, "circuit": ce.hand_cdc(spec), "names": names})
    best = {}
    for rec in out["fails"]:
        if rec[1] not in best or rec[0] < best[rec[1]][0]:
            best[rec[1]] = rec
    out["fails"] = list(best.values())
    return part, out


# ------------------------------------------------------------------------------------------------- scope
def make_jobs(a):
    quick = a.tier == "quick"
    jobs = []
    u = 1 if quick else 2
    for n in (1, 2, 3):
        jobs += ce.product_jobs("exhaustive<=3", ce.shapes(n, u), "c16", block=400)
    s40 = ce.shapes(4, 0)
    s41 = [s for s in ce.shapes(4, 1) if s not in set(s40)]
    if quick:
        jobs += ce.sample_jobs("4-leaves:sampled", s40, "c16", 30, a.seed + 11, group=8)
        jobs += ce.sample_jobs("4-leaves:sampled", s41, "c16", 2, a.seed + 12, group=60)
        bound = "every topology with <= 3 leaves and <= 1 one-child connection x 6-entry alphabet exhaustively; 4-leaf topologies sampled (30 resp. 2 assignments per topology)"
    else:
        jobs += ce.product_jobs("4-leaves:full", s40, "c16", block=400)
        jobs += ce.sample_jobs("4-leaves:sampled", s41, "c16", 20, a.seed + 12, group=10)
        s50 = ce.shapes(5, 0)
        jobs += ce.product_jobs("5-leaves:small", s50, "c16-small", block=243)
        jobs += ce.sample_jobs("5-leaves:sampled", s50, "c16", 20, a.seed + 13, group=10)
        bound = ("every topology with <= 3 leaves and <= 2 one-child connections and every 4-leaf topology without x 6-entry alphabet, every 5-leaf topology without one-child "
                 "connections x {R, labelled R, Tlm} exhaustively; 4-leaf topologies with a one-child connection and 5-leaf topologies x 6-entry alphabet sampled (20 per topology)")
    # label patterns: every assignment of {none, unique, shared} to three / four repeated elements
    lab_specs = []
    types = [("R", "R", "R"), ("R", "C", "R"), ("Q", "W", "Q"), ("R", "T", "R")] + ([] if quick else [("T", "T", "R"), ("C", "C", "C"), ("W", "R", "W")])
    vals = {"R": lambda p: {"R": 10.0 + 7 * p}, "C": lambda p: {"C": 1e-6 * (p + 1)}, "Q": lambda p: {"Y": 1e-5 * (p + 1), "n": 0.7}, "W": lambda p: {"Y": 1e-3 * (p + 1), "n": 0.5}}
    for shape in ce.shapes(3, 0) + ([] if quick else ce.shapes(3, 1)[10:40]):
        for ty in types:
            for pat in np.ndindex(3, 3, 3):
                leaves = []
                for p, (t, st) in enumerate(zip(ty, pat)):
                    label = ["", ce.LABEL_POOL[(2 * p + sum(pat)) % len(ce.LABEL_POOL)], "sa_me_1"][st]
                    leaves.append(tlm_a(0, p, label) if t == "T" else E(t, vals[t](p), label))
                lab_specs.append(ce.fill(shape, leaves))
    for i in range(0, len(lab_specs), 150):
        jobs.append(("label-patterns", "list", tuple(lab_specs[i:i + 150])))
    # label text: every pool label (underscores / digits in several positions) on every basic type, alone and mixed with
    # unlabelled and differently labelled elements of the same type
    lt = ce.label_text_specs()
    for i in range(0, len(lt), 12):
        jobs.append(("label-text", "list", tuple(lt[i:i + 12])))
    # containers nested in containers
    nested = []
    r0, c0 = E("R", {"R": 50.0}), E("C", {"C": 1e-5}, "cx")
    for labels in [("", "", ""), ("in", "", ""), ("", "rr", "out"), ("k", "k", "k")]:
        for p in (0, 1):
            t = tlm_nested(p, labels)
            nested += [t, S(r0, t), P(t, c0), S(t, P(r0, tlm_nested(p + 2, labels))), P(S(r0, t), c0)]
    jobs.append(("nested-containers", "list", tuple(nested)))
    # table of fitted parameters (one fit per circuit, num_procs=1): nested containers, small circuits, circuits with > 10 elements
    rngf = np.random.default_rng(a.seed + 6)
    fits = nested[:5] + nested[10:13]
    mkf = ce.ALPHABETS["c16"]
    s3 = ce.shapes(3, 0) + ce.shapes(2, 1)
    for i in range(10 if quick else 110):
        shape = s3[int(rngf.integers(0, len(s3)))]
        fits.append(ce.fill(shape, [mkf[int(rngf.integers(0, len(mkf)))](1000 + i, p) for p in range(ce.n_leaves(shape))]))
    for i in range(6 if quick else 40):
        n = int(rngf.integers(7, 11))
        fits.append(ce.fill(ce.random_shape(rngf, n, 0.0), [mkf[int(rngf.integers(0, len(mkf)))](2000 + i, p) for p in range(n)]))
    for i in range(0, len(fits), 2):
        jobs.append(("fit-table", "list", tuple(fits[i:i + 2])))
    # larger random circuits
    rng = np.random.default_rng(a.seed + 5)
    n_rand = 300 if quick else 6000
    rand = []
    mk = ce.ALPHABETS["c16-rand"]
    for i in range(n_rand):
        n = int(rng.integers(6, 13 if quick else 17))
        rand.append(ce.fill(ce.random_shape(rng, n), [mk[int(rng.integers(0, len(mk)))](i, p) for p in range(n)]))
    for i in range(0, len(rand), 50):
        jobs.append(("random-large", "list", tuple(rand[i:i + 50])))
    return jobs, bound, n_rand


def main(a):
    import pyimpspec  # noqa
    ce.check_tlm_defaults()
    register_alphabets()
    CTX["F0"] = 3.7
    CTX["SYMPY_ALL"], CTX["SYMPY_MOD"], CTX["DRAW_MOD"] = (2, 6, 150) if a.tier == "quick" else (2, 20, 400)
    jobs, bound, n_rand = make_jobs(a)
    res = Result("C16", f"{bound}; alphabet = R, labelled R, C, Q/W (same parameter keys), two Tlm containers with labelled/unlabelled elements inside; every {{none, unique, shared}} label pattern on "
                 f"3 repeated elements over the 3-leaf topologies; labels drawn from {ce.LABEL_POOL} (underscores and digits in several positions), each also alone and mixed with unlabelled / other-labelled "
                 f"elements of the same type for R, C, L, Q, W, Tlm with exact CircuiTikZ and schemdraw label text; containers nested in containers; fit_circuit parameter tables for {24 if a.tier == 'quick' else 158} circuits (up to ~25 elements); {n_rand} random circuits with 6..{12 if a.tier == 'quick' else 16} leaves; "
                 f"numerical sympy check on all circuits with <= {CTX['SYMPY_ALL']} leaves and 1/{CTX['SYMPY_MOD']} of the others, schemdraw labels on 1/{CTX['DRAW_MOD']}",
                 "shapes = ordered S/P trees incl. same-kind nesting and one-child connections; leaves = cartesian power of the alphabet (labels vary with the case index); a case = one circuit "
                 "object; checked: identifier maps against an own traversal, names, validate_circuit, generate_fit_identifiers, FitResult.parameters / to_parameters_dataframe (sampled), Container-level maps, CircuiTikZ/schemdraw labels, and that the "
                 "sympy expression evaluated with each variable set to the value of the element carrying that identifier reproduces get_impedances (distinct values per element)")
    order = np.random.default_rng(a.seed).permutation(len(jobs))
    allf = []
    with mp.get_context("fork").Pool(16) as pool:
        for part, out in pool.imap_unordered(run_job, [jobs[i] for i in order]):
            for dg in out["digests"]:
                res.case(dg, True)
            for _ in range(out["n"] - len(out["digests"])):
                res.case(None, False)          # outside the property's quantifier (reference undefined / cannot be simulated)
            p = res.parts.setdefault(part, {"cases": 0})
            p["cases"] += out["n"]
            for k, v in out["counters"].items():
                p[k] = p.get(k, 0) + v
            if len(res.samples) < 12 and out["samples"] and not any(s["part"] == part for s in res.samples):
                res.samples += out["samples"]
            allf += out["fails"]
    for size, key, fn, what, repro in sorted(allf, key=lambda r: (r[0], r[1], len(r[3]))):
        res.fail(key, fn, what, repro)
    # labels that are digits-only after stripping must be refused, otherwise 'R_1' is ambiguous (names must be unique)
    from bounded.c14 import label_contract_part
    label_contract_part(res, prop='C16')
    return res


if __name__ == "__main__":
    guarded(main)
