"""Shared helpers of the bounded (Layer R) checks.  These run under /venv/bin/python with PYTHONPATH=$VERIF_REPO/src,
so they exercise the real code of the current working tree.  Results are *bounded* and never counted as proved."""
import argparse
import json
import os
import sys
import time
import traceback
import warnings

warnings.filterwarnings("ignore")


class Result:
    def __init__(self, prop, bound, rule):
        self.prop, self.bound, self.rule = prop, bound, rule
        self.evaluations = 0
        self.distinct = set()
        self.samples = []
        self.failures = []
        self.parts = {}
        self.t0 = time.time()

    def case(self, key, nontrivial=True, sample=None):
        """count one evaluated case; key identifies distinct cases"""
        self.evaluations += 1
        if nontrivial:
            self.distinct.add(key)
        if sample is not None and len(self.samples) < 12 and (self.evaluations % 97 == 1 or len(self.samples) < 3):
            self.samples.append(sample)

    def fail(self, key, function, what, repro):
        """a violated run-time contract.  key: stable identifier used for known-finding matching;
        repro: python source that raises when the violation reproduces on the real code."""
        if any(f["key"] == key for f in self.failures):
            return
        if len(self.failures) < 200:
            self.failures.append({"key": key, "function": function, "what": what, "repro": repro})

    def part(self, name, **kw):
        self.parts[name] = kw

    def write(self, out):
        data = {"property": self.prop, "bound": self.bound, "rule": self.rule, "evaluations": self.evaluations,
                "distinct_nontrivial": len(self.distinct), "samples": self.samples, "failures": self.failures,
                "parts": self.parts, "layer_wall_s": round(time.time() - self.t0, 2)}
        with open(out, "w") as fh:
            json.dump(data, fh, indent=1, default=str)


def args():
    ap = argparse.ArgumentParser()
    ap.add_argument("--tier", default="quick")
    ap.add_argument("--seed", type=int, default=0)
    ap.add_argument("--out", default="/dev/stdout")
    return ap.parse_args()


def guarded(main):
    a = args()
    try:
        res = main(a)
        res.write(a.out)
    except Exception:
        with open(a.out, "w") as fh:
            json.dump({"crash": traceback.format_exc()}, fh)
        sys.exit(3)
