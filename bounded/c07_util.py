"""Helpers shared by the bounded checks C07, C08, C09 and C18 (analysis entry points).  BOUNDED layer only."""
import concurrent.futures as _cf
import gc
import multiprocessing as _mp
import os
import warnings

import numpy as np

warnings.filterwarnings("ignore")

LINEAR_TESTS = ("complex", "real", "imaginary", "complex-inv", "real-inv", "imaginary-inv")
VALUE_KEY = {"Resistor": "R", "KramersKronigRC": "R", "KramersKronigAdmittanceRC": "C", "Capacitor": "C", "Inductor": "L"}


def _init_worker():
    warnings.filterwarnings("ignore")
    try:  # nested analyses that take no num_procs argument must not oversubscribe the machine
        import pyimpspec
        pyimpspec.set_default_num_procs(1)
    except Exception:  # noqa
        pass


def pmap(fn, items, workers=16, chunksize=1):
    """ordered parallel map in NON-daemonic forked workers (several entry points create their own Pool, which a daemonic
    multiprocessing.Pool worker is not allowed to do).  Exceptions of the harness propagate and crash the script."""
    items = list(items)
    if not items:
        return []
    workers = max(1, min(workers, len(items), os.cpu_count() or 1))
    with _cf.ProcessPoolExecutor(max_workers=workers, mp_context=_mp.get_context("fork"), initializer=_init_worker) as ex:
        return list(ex.map(fn, items, chunksize=chunksize))


def preimport():
    """import (not run) the lazily imported numerical back ends in the parent so that forked children start warm"""
    import importlib
    for name in ("lmfit", "scipy.signal", "scipy.interpolate", "scipy.optimize", "scipy.linalg", "scipy.integrate", "scipy.stats", "pandas",
                 "statsmodels.nonparametric.smoothers_lowess", "statsmodels.stats.diagnostic", "sympy"):
        try:
            importlib.import_module(name)
        except Exception:  # noqa
            pass


def _isolated_child(fn, item, conn):
    import traceback
    try:
        _init_worker()
        conn.send(("ok", fn(item)))
    except BaseException:  # noqa
        conn.send(("error", traceback.format_exc()))
    finally:
        conn.close()


def pmap_isolated(fn, items, workers=16):
    """ordered parallel map where EVERY task runs in its own freshly forked (non-daemonic) process, so that no task sees state
    left behind by an earlier one (lmfit/scipy keep state across aborted fits).  Harness exceptions crash the script."""
    from multiprocessing.connection import wait
    ctx = _mp.get_context("fork")
    items = list(items)
    results = [None] * len(items)
    workers = max(1, min(workers, os.cpu_count() or 1))
    running, nxt = {}, 0
    gc.collect()
    gc.freeze()        # keep the children's garbage collector from touching (and thereby copying) the parent's heap
    while nxt < len(items) or running:
        while nxt < len(items) and len(running) < workers:
            parent, child = ctx.Pipe(duplex=False)
            p = ctx.Process(target=_isolated_child, args=(fn, items[nxt], child))
            p.start()
            child.close()
            running[parent] = (nxt, p)
            nxt += 1
        for conn in wait(list(running)):
            i, p = running.pop(conn)
            try:
                status, payload = conn.recv()
            except EOFError:
                status, payload = "error", f"worker for item {i} died without a result (exit code {p.exitcode})"
            conn.close()
            p.join()
            if status != "ok":
                for _, q in running.values():
                    q.terminate()
                raise RuntimeError("harness failure in an isolated worker:\n" + payload)
            results[i] = payload
    gc.unfreeze()
    return results


def max_abs_residual(result):
    r = np.asarray(result.residuals)
    return float(np.max(np.maximum(np.abs(r.real), np.abs(r.imag))))


def element_values(circuit):
    """[(class name, fitted/generating value)] in circuit order, plus the time constants"""
    vals, taus = [], []
    for e in circuit.get_elements(recursive=True):
        nm = type(e).__name__
        vals.append((nm, float(e.get_value(VALUE_KEY[nm]))))
        if nm.startswith("KramersKronig"):
            taus.append(float(e.get_value("tau")))
    return vals, taus


def build_kk_model(f, n, lf, adm, addC, addL, rng, mode, signs="random"):
    """the KK test's OWN model, built with the library's helpers, with seeded random parameter values.
    mode 'balanced': one overall scale drawn over 6 decades, every element within +-1 decade of it (all identifiable);
    mode 'wide': every element drawn independently over 6 decades (3 decades either side of its natural value)."""
    from pyimpspec.analysis.kramers_kronig.utility import _generate_circuit, _generate_time_constants
    w = 2 * np.pi * np.asarray(f)
    taus = _generate_time_constants(w, n, lf)
    c = _generate_circuit(taus, addC, addL, adm)
    scale = 10 ** rng.uniform(-3, 3) if mode == "balanced" else 1.0
    spread = 1.0 if mode == "balanced" else 3.0
    wm = float(np.sqrt(w.max() * w.min()))
    values = []
    for e in c.get_elements(recursive=True):
        nm = type(e).__name__
        s = {"random": float(rng.choice([-1.0, 1.0])), "+": 1.0, "-": -1.0}[signs]
        m = 10 ** rng.uniform(-spread, spread)
        if nm in ("Resistor", "KramersKronigRC"):
            v = s * m * scale
        elif nm == "KramersKronigAdmittanceRC":      # series R-C branch with R = tau/C of the order of `scale`
            v = s * m * float(e.get_value("tau")) / scale
        elif nm == "Capacitor":                       # |1/(w C)| of the order of `scale` in the middle of the band
            v = s * m / (wm * scale)
        else:                                         # |w L| of the order of `scale` in the middle of the band
            v = s * m * scale / wm
        e.set_values(**{VALUE_KEY[nm]: v})
        values.append(v)
    return c, [float(t) for t in taus], [float(v) for v in values]


KK_MODEL_SRC = '''import numpy as np, pyimpspec
from pyimpspec.analysis.kramers_kronig.utility import _generate_circuit, _generate_time_constants
KEY = {"Resistor": "R", "KramersKronigRC": "R", "KramersKronigAdmittanceRC": "C", "Capacitor": "C", "Inductor": "L"}
def own_model(f, n, lf, adm, addC, addL, values):
    c = _generate_circuit(_generate_time_constants(2 * np.pi * f, n, lf), addC, addL, adm)
    for e, v in zip(c.get_elements(recursive=True), values):
        e.set_values(**{KEY[type(e).__name__]: v})
    return c
def values_of(c):
    return [e.get_value(KEY[type(e).__name__]) for e in c.get_elements(recursive=True)]
'''
