"""Reference evaluator of the C02 bounded check: evaluates a sympy expression tree with mpmath (precision doubled until
two runs agree) and records whether an intermediate result leaves the range of double precision.  The source text of
this module is embedded verbatim into the reproducers of bounded/c02.py so that they are self-contained."""
import mpmath
import sympy


class NotFinite(Exception):
    pass


class Evaluator:
    def __init__(self, env):
        self.env = env
        self.out_of_range = False
        self.memo = {}

    def note(self, v):
        m = abs(v)
        if m != 0 and not (mpmath.mpf("1e-300") <= m <= mpmath.mpf("1e300")):
            self.out_of_range = True
        return v

    def ev(self, e):
        if e.args:
            v = self.memo.get(e)
            if v is None:
                v = self.memo[e] = self._ev(e)
            return v
        return self._ev(e)

    def _ev(self, e):
        if e.is_Symbol:
            return self.env[e.name]
        if e is sympy.I:
            return mpmath.mpc(0, 1)
        if e is sympy.pi:
            return +mpmath.pi
        if e is sympy.E:
            return +mpmath.e
        if e.is_Integer:
            return mpmath.mpf(int(e))
        if e.is_Rational:
            return mpmath.mpf(int(e.p)) / int(e.q)
        if e.is_Float:
            return mpmath.mpf(e._mpf_)
        if e in (sympy.zoo, sympy.nan, sympy.oo, -sympy.oo):
            raise NotFinite(str(e))
        if e.is_Add:
            return self.note(mpmath.fsum([self.ev(a) for a in e.args]))
        if e.is_Mul:
            r = mpmath.mpf(1)
            for a in e.args:
                r = self.note(r * self.ev(a))
            return r
        if e.is_Pow:
            b = self.ev(e.base)
            if e.exp.is_Integer:
                k = int(e.exp)
                if b == 0 and k < 0:
                    raise NotFinite("1/0")
                return self.note(b ** k)
            x = self.ev(e.exp)
            if b == 0:
                if mpmath.re(x) > 0:
                    return mpmath.mpf(0)
                raise NotFinite("0**x")
            return self.note(mpmath.power(b, x))
        name = type(e).__name__
        if name in ("coth", "tanh", "sinh", "cosh", "exp", "log", "sqrt"):
            x = self.ev(e.args[0])
            if name == "coth" and x == 0:
                raise NotFinite("coth(0)")
            return self.note(getattr(mpmath, name)(x))
        raise AssertionError("harness: unsupported node " + name + ": " + str(e)[:80])


def evaluate(expr, values):
    """(value, out_of_range): value is a python complex (nan when not finite, outside the double range, or singular);
    out_of_range tells whether some intermediate result of the tree left [1e-300, 1e300]"""
    previous = None
    for dps in (40, 80, 160, 320, 640, 1280):
        with mpmath.workdps(dps):
            ev = Evaluator({k: mpmath.mpf(v) for k, v in values.items()})
            try:
                z = mpmath.mpc(ev.ev(expr))
            except (NotFinite, ZeroDivisionError):
                return complex("nan"), True
            if not (mpmath.isfinite(z.real) and mpmath.isfinite(z.imag)):
                return complex("nan"), True
            if previous is not None and abs(z - previous) <= mpmath.mpf("1e-25") * abs(z):
                m = abs(z)
                if m != 0 and not (mpmath.mpf("1e-300") <= m <= mpmath.mpf("1e300")):
                    return complex("nan"), True
                return complex(z), ev.out_of_range
            previous = z
    # the value is pure rounding noise at every precision: a zero or a pole of the expression (e.g. tanh(i*k*pi))
    return complex("nan"), True
