"""C12 proof layer: the glue between circuits and lmfit in analysis/fitting.py, as data-flow contracts.  The real
`_to_lmfit`, `_from_lmfit`, `_extract_parameters` are run by CPython on uninterpreted terms with recording stand-ins for
lmfit.Parameters, elements and the fit result; branches on terms are enumerated.  lmfit itself (bounds respected, vary=False
kept bit-for-bit, expr constraints enforced) is assumed; recovery of generating parameters is bounded."""
from __future__ import annotations

import ast
import itertools

import z3

from pyvc import core
from pyvc import overload as O
from pyvc.core import Session
from . import dataflow as DF
from .dataflow import T, opaque, tv

FIT = "analysis/fitting"


class FakeElement:
    def __init__(self, name, symbols, fixed):
        self.name, self.symbols = name, symbols
        self.values = {s: T.var(f"{name}.value[{s}]") for s in symbols}
        self.lower = {s: T.var(f"{name}.lower[{s}]") for s in symbols}
        self.upper = {s: T.var(f"{name}.upper[{s}]") for s in symbols}
        self.fixed = dict(zip(symbols, fixed))
        self.set_calls = []

    def get_values(self):
        return dict(self.values)

    def get_lower_limits(self):
        return dict(self.lower)

    def get_upper_limits(self):
        return dict(self.upper)

    def are_fixed(self):
        return dict(self.fixed)

    def set_values(self, **kw):
        self.set_calls.append(kw)

    def get_name(self):
        return self.name

    def get_symbol(self):
        return self.name

    def get_units(self):
        return {s: "unit" for s in self.symbols}

    def __hash__(self):
        return id(self)

    def __eq__(self, o):
        return self is o


class FakeParameters:
    def __init__(self):
        self.added = []

    def add(self, **kw):
        self.added.append(kw)


def _load(names, extra):
    ns = {"inf": float("inf"), "nan": float("nan"), "isinstance": lambda a, b: True, "FittingError": type("FittingError", (Exception,), {}), "Parameters": FakeParameters,
          "dict": dict, "len": len, "float": lambda x: x, "hasattr": hasattr, "filter": filter, "KeyError": KeyError, "ValueError": ValueError, "TypeError": TypeError, "NameError": NameError}
    ns.update(extra)
    O.load(FIT, names, ns)
    return ns


def target_to_lmfit():
    qual = "_to_lmfit"

    def run(sess: Session):
        n_paths = 0
        for fixed in itertools.product((False, True), repeat=2):
            def once():
                e1 = FakeElement("E1", ["R", "C"], fixed)
                e2 = FakeElement("E2", ["R"], (False,))
                idents = {e1: {"R": "R_0", "C": "C_0"}, e2: {"R": "R_1"}}
                ns = _load([qual], {})
                res = None
                err = None
                try:
                    res = ns[qual](idents, {"R_1": "2 * R_0"}, {})
                except ValueError as ex:
                    err = ex
                return e1, e2, res, err
            for log, (e1, e2, res, err), facts in DF.explore(once, max_paths=200):
                n_paths += 1
                tag = f"[fixed={fixed}," + ",".join(str(v)[0] for _, v in log) + "]"
                all_in = all(v for _, v in log) and len(log) == 6           # six comparisons lower<=value, value<=upper (chained)
                if err is not None:
                    sess.check("post", [], z3.BoolVal(not all(v for _, v in log)), 0, label=f"ValueError only if some value is outside its limits{tag}")
                    continue
                sess.check("post", [], z3.BoolVal(all(v for _, v in log)), 0, label=f"accepted only if every value is within its limits{tag}")
                added = {kw["name"]: kw for kw in res.added}
                sess.check("post", [], z3.BoolVal(sorted(added) == ["C_0", "R_0", "R_1"] and len(res.added) == 3), 0, label=f"exactly one lmfit parameter per (element, symbol), under its fit identifier{tag}")
                for el, sym_, name in ((e1, "R", "R_0"), (e1, "C", "C_0"), (e2, "R", "R_1")):
                    kw = added.get(name, {})
                    DF.eq_check(sess, f"{name}.value == element value{tag}", kw.get("value"), el.values[sym_])
                    DF.eq_check(sess, f"{name}.min == lower limit{tag}", kw.get("min"), el.lower[sym_])
                    DF.eq_check(sess, f"{name}.max == upper limit{tag}", kw.get("max"), el.upper[sym_])
                    sess.check("post", [], z3.BoolVal(kw.get("vary") is (not el.fixed[sym_])), 0, label=f"{name}.vary == not fixed{tag}")
                sess.check("post", [], z3.BoolVal(added.get("R_1", {}).get("expr") == "2 * R_0" and "expr" not in added.get("R_0", {})), 0, label=f"constraint expression attached to exactly its parameter{tag}")
        sess.check("cover", [], z3.BoolVal(n_paths >= 8), 0, label=f"paths={n_paths}")
    return (f"{FIT}:{qual}", FIT, qual, run)


def target_from_lmfit():
    qual = "_from_lmfit"

    def run(sess: Session):
        e1 = FakeElement("E1", ["R", "C"], (False, False))
        e2 = FakeElement("E2", ["R"], (False,))
        idents = {e1: {"R": "R_0", "C": "C_0"}, e2: {"R": "R_1"}}
        vals = {"alpha": T.var("alpha"), "R_1": T.var("v:R_1"), "C_0": T.var("v:C_0"), "R_0": T.var("v:R_0")}

        class Par:
            def __init__(self, name, vary, expr=None):
                self.name, self.value, self.vary, self.expr = name, vals[name], vary, expr
                self.min, self.max, self.stderr = T.var("min:" + name), T.var("max:" + name), None

        class P(dict):
            # lmfit marks a parameter that carries a constraint expression as vary=False, like a fixed one
            def __init__(self):
                super().__init__({"alpha": Par("alpha", True), "R_1": Par("R_1", False, "2 * R_0"), "C_0": Par("C_0", False), "R_0": Par("R_0", True)})

            def valuesdict(self):
                return dict(vals)
        ns = _load([qual], {})
        ns[qual](P(), idents)
        sess.check("post", [], z3.BoolVal(len(e1.set_calls) == 1 and len(e2.set_calls) == 1 and sorted(e1.set_calls[0]) == ["C", "R"] and sorted(e2.set_calls[0]) == ["R"]), 0, label="each element updated once, with exactly its own symbols (constraint variables ignored)")
        DF.eq_check(sess, "E1.R := params[R_0]", e1.set_calls[0].get("R"), vals["R_0"])
        DF.eq_check(sess, "E1.C := params[C_0]", e1.set_calls[0].get("C"), vals["C_0"])
        DF.eq_check(sess, "E2.R := params[R_1]  (a constrained parameter, vary=False in lmfit, is written back too)", e2.set_calls[0].get("R"), vals["R_1"])
    return (f"{FIT}:{qual}", FIT, qual, run)


def target_extract_parameters():
    qual = "_extract_parameters"

    def run(sess: Session):
        e1 = FakeElement("R", ["R"], (False,))
        e2 = FakeElement("Q", ["Y", "n"], (False, True))
        e3 = FakeElement("R", ["R"], (False,))           # running identifier 10: 'R_10' must not be taken for element 0
        e4 = FakeElement("Tlmbq", ["Y", "Y_B", "n_B"], (False, False, False))     # parameter symbols that contain an underscore and share a prefix

        class Par:
            def __init__(self, name):
                self.value, self.stderr = T.var(f"fit:{name}"), T.var(f"stderr:{name}")

        class Fit:
            var_names = ["R_0", "Y_1", "alpha_1", "R_10", "Y_3", "Y_B_3", "n_B_3"]          # alpha_1: a user constraint variable that merely looks like '<x>_<id>'
            params = {n: Par(n) for n in ("R_0", "Y_1", "n_1", "alpha_1", "R_10", "Y_3", "Y_B_3", "n_B_3")}

        class Circuit:
            def generate_element_identifiers(self, running):
                return {e1: 0, e2: 1, e3: 10, e4: 3} if running else {e1: 1, e2: 1, e3: 2, e4: 1}
        got = {}

        def FittedParameter(**kw):
            return kw
        ns = _load([qual], {"FittedParameter": FittedParameter, "MinimizerResult": object})
        err = None
        try:
            table = ns[qual](Circuit(), Fit())
        except Exception as ex:  # noqa
            err, table = ex, {}
        sess.check("exc-free", [], z3.BoolVal(err is None), 0, label=f"no exception for a constraint variable named like a parameter ({type(err).__name__ if err else 'ok'})")
        if err is None:
            sess.check("post", [], z3.BoolVal(sorted(table) == ["Q_1", "R_1", "R_2", "Tlmbq_1"] and sorted(table["Q_1"]) == ["Y", "n"] and sorted(table["R_1"]) == ["R"] and sorted(table["R_2"]) == ["R"]
                                              and sorted(table.get("Tlmbq_1", {})) == ["Y", "Y_B", "n_B"]), 0, label="one row per (element name, parameter), nothing else")
            for sym_ in ("Y", "Y_B", "n_B"):
                DF.eq_check(sess, f"table[Tlmbq_1][{sym_}] == fit.params[{sym_}_3].value (symbols with an underscore keep their own value)", table.get("Tlmbq_1", {}).get(sym_, {}).get("value"), Fit.params[f"{sym_}_3"].value)
            DF.eq_check(sess, "table[R_2][R] == fit.params[R_10].value (identifier 10 is not confused with identifier 0)", table["R_2"]["R"]["value"], Fit.params["R_10"].value)
            DF.eq_check(sess, "table[R_1][R] == fit.params[R_0].value", table["R_1"]["R"]["value"], Fit.params["R_0"].value)
            DF.eq_check(sess, "table[Q_1][Y] == fit.params[Y_1].value", table["Q_1"]["Y"]["value"], Fit.params["Y_1"].value)
            DF.eq_check(sess, "table[Q_1][n] (fixed) == element value", table["Q_1"]["n"]["value"], e2.values["n"])
            sess.check("post", [], z3.BoolVal(table["Q_1"]["n"]["fixed"] is True and table["Q_1"]["Y"]["fixed"] is False), 0, label="fixed flag reported")
    return (f"{FIT}:{qual}", FIT, qual, run)


def target_fit_process_frame():
    """_fit_process fits a deep copy: the circuit passed in is only read by deepcopy(original_circuit)"""
    qual = "_fit_process"

    def run(sess: Session):
        fn = core.find_def(FIT, qual)
        uses = [n for n in ast.walk(fn) if isinstance(n, ast.Name) and n.id == "original_circuit" and isinstance(n.ctx, ast.Load)]
        calls = [n for n in ast.walk(fn) if isinstance(n, ast.Call) and any(isinstance(a, ast.Name) and a.id == "original_circuit" for a in n.args)]
        ok = len(uses) == 1 and len(calls) == 1 and ast.unparse(calls[0]) == "deepcopy(original_circuit)"
        sess.check("frame", [], z3.BoolVal(ok), fn.lineno, label="original_circuit is read exactly once: deepcopy(original_circuit)")
        assigns = [n for n in ast.walk(fn) if isinstance(n, ast.Assign) and ast.unparse(n.value) == "deepcopy(original_circuit)"]
        sess.check("frame", [], z3.BoolVal(len(assigns) == 1 and ast.unparse(assigns[0].targets[0]) == "circuit"), fn.lineno, label="everything downstream works on `circuit`, the deep copy")
        sess.assumptions.append("copy.deepcopy of a circuit is independent of the original (C14's __deepcopy__ contracts)")
    return (f"{FIT}:{qual}", FIT, qual, run)


def targets():
    return [target_to_lmfit(), target_from_lmfit(), target_extract_parameters(), target_fit_process_frame()]


def target_fit_identifiers():
    """generate_fit_identifiers(circuit): for every element of circuit.generate_element_identifiers(running=True) and every
    parameter symbol of that element, the identifier is '<symbol>_<running id>' -- the names _to_lmfit registers, _from_lmfit
    reads back and _extract_parameters looks up -- and nothing else is in the mapping"""
    qual = "generate_fit_identifiers"

    def run(sess: Session):
        e1 = FakeElement("R", ["R"], (False,))
        e2 = FakeElement("Q", ["Y", "n"], (False, False))
        e3 = FakeElement("R", ["R"], (False,))
        asked = []

        class Circuit:
            def generate_element_identifiers(self, running):
                asked.append(running)
                return {e1: 0, e2: 1, e3: 10}

            # the other ways of listing elements do NOT give what the fit needs: get_elements() leaves out the elements inside the
            # sub-circuits of containers (here e3), and numbering them by position differs from the circuit's own numbering
            def get_elements(self, recursive=True):
                asked.append("get_elements")
                return [e1, e2]

            def get_connections(self, recursive=True):
                asked.append("get_connections")
                return []
        made = []

        class FitIdentifiers:
            def __init__(self, **kw):
                self.kw = kw
                made.append(kw)
        ns = _load([qual], {"FitIdentifiers": FitIdentifiers, "Circuit": Circuit, "isinstance": lambda a, b: True})
        out = ns[qual](Circuit())
        sess.check("post", [], z3.BoolVal(asked == [True]), 0, label="identifiers are the RUNNING ones (unique across element types)")
        ok = isinstance(out, dict) and list(out) == [e1, e2, e3] and all(isinstance(v, FitIdentifiers) for v in out.values())
        sess.check("post", [], z3.BoolVal(ok), 0, label="one FitIdentifiers per element, nothing else")
        if ok:
            sess.check("post", [], z3.BoolVal(out[e1].kw == {"R": "R_0"} and out[e2].kw == {"Y": "Y_1", "n": "n_1"} and out[e3].kw == {"R": "R_10"}), 0, label="identifier of (element, symbol) == '<symbol>_<running id>' for exactly the element's own symbols")
    return (f"{FIT}:{qual}", FIT, qual, run)


_targets_c12_core = targets


def targets():      # noqa: F811
    from . import frames
    return _targets_c12_core() + [target_fit_identifiers(), frames.target_inputs_not_modified()]


_targets_before_purity = targets


def targets():      # noqa: F811
    from . import purity
    return _targets_before_purity() + [purity.target_modules(["analysis/fitting"], "fitting module keeps no state between calls")]


_targets_before_copies = targets


def targets():      # noqa: F811
    """+ shared with C14: what is fitted is deepcopy(circuit) (target_fit_process_frame), so the constraints the user set are respected
    only if the copy is faithful -- values, limits, FIXED FLAGS (both True and False, whatever the class default) and labels of
    every element, sub-circuits of containers included"""
    from . import c14
    # (the copy contracts use the setters through THEIR contracts -- a limit moved past the value clamps the value, fixed or not --
    # so the keyword forms of the setters are obligations here too)
    shared = [t for t in c14.targets() if "__copy__" in t[0] or "__deepcopy__" in t[0] or any(k in t[0] for k in ("Element.set_values[kw]", "Element.set_lower_limits[kw]", "Element.set_upper_limits[kw]", "Element.set_fixed[kw]"))]
    return _targets_before_copies() + shared


_targets_before_residual = targets


def target_residual_and_weights():
    """`_residual` and the four weight functions (what lmfit minimises): the parameters lmfit proposes are written into the circuit
    FIRST (`_from_lmfit(params, identifiers)`), then the circuit is evaluated at the measured frequencies, and the vector returned
    is weight(Z_exp, Z_fit) x [(Re Z_exp - Re Z_fit)^2, (Im Z_exp - Im Z_fit)^2] -- zero exactly where model and data agree, so the
    generating parameters of a noise-free spectrum are a global minimum under every weight; unity = 1, modulus = 1/|Z_fit|,
    proportional = (1/Re Z_fit^2, 1/Im Z_fit^2), boukamp = 1/(Re Z_exp^2 + Im Z_exp^2); `_WEIGHT_FUNCTIONS` names them as
    documented.  Real functions on EUF terms (E3)."""
    from pyvc import overload as O
    from . import dataflow as DF
    from .dataflow import T, opaque
    FIT = "analysis/fitting"

    def run(sess: Session):
        order = []
        Zexp, f = T.var("Z_exp"), T.var("f")

        class Circuit:
            def get_impedances(self, freq):
                order.append(("get_impedances", freq))
                return opaque("circuit.Z")(freq, "after _from_lmfit" if any(o[0] == "_from_lmfit" for o in order) else "before _from_lmfit")
        cir = Circuit()
        params, ids = T.var("params"), {1: "e"}
        arr = opaque("array")
        ones = opaque("ones")
        ns = {"_from_lmfit": lambda p, i: order.append(("_from_lmfit", p, i)), "array": arr, "float64": "float64", "ones": ones, "abs": lambda x: abs(x)}
        O.load(FIT, ["_residual", "_unity_weight", "_modulus_weight", "_proportional_weight", "_boukamp_weight"], ns)
        w = opaque("weight_func")
        out = ns["_residual"](params, cir, f, Zexp, w, ids)
        Zfit = opaque("circuit.Z")(f, "after _from_lmfit")
        sess.check("post", [], z3.BoolVal(len(order) == 2 and order[0][0] == "_from_lmfit" and order[0][1] is params and order[0][2] is ids and order[1][0] == "get_impedances" and order[1][1] is f), 0,
                   label="_residual: the proposed parameters are written into the circuit before it is evaluated, once, at the measured frequencies")
        want = w(Zexp, Zfit) * arr([(Zexp.real - Zfit.real) ** 2, (Zexp.imag - Zfit.imag) ** 2], dtype="float64")
        DF.eq_check(sess, "_residual == weight(Z_exp, Z_fit) * [(Re Z_exp - Re Z_fit)^2, (Im Z_exp - Im Z_fit)^2]", out, want)
        Zf = T.var("Z_fit")
        one = ones(shape=(2, Zexp.size), dtype="float64")
        DF.eq_check(sess, "_unity_weight == 1 (for both parts of every point)", ns["_unity_weight"](Zexp, Zf), one)
        DF.eq_check(sess, "_modulus_weight == 1 / |Z_fit|", ns["_modulus_weight"](Zexp, Zf), one / abs(Zf))
        DF.eq_check(sess, "_boukamp_weight == 1 / (Re Z_exp^2 + Im Z_exp^2)", ns["_boukamp_weight"](Zexp, Zf), (Zexp.real ** 2 + Zexp.imag ** 2) ** -1)

        # proportional: rows of a 2 x N table are assigned
        class Table:
            def __init__(self):
                self.rows = {0: T.var("row0"), 1: T.var("row1")}

            def __getitem__(self, k):
                return self.rows[k]

            def __setitem__(self, k, v):
                self.rows[k] = v
        tbl = Table()
        ns["ones"] = lambda **kw: tbl
        got = ns["_proportional_weight"](Zexp, Zf)
        ok = got is tbl
        sess.check("post", [], z3.BoolVal(ok), 0, label="_proportional_weight returns the 2 x N table it filled")
        if ok:
            DF.eq_check(sess, "_proportional_weight[real part] == 1 / Re Z_fit^2", tbl.rows[0], T.var("row0") / Zf.real ** 2)
            DF.eq_check(sess, "_proportional_weight[imaginary part] == 1 / Im Z_fit^2", tbl.rows[1], T.var("row1") / Zf.imag ** 2)
        # the table of names
        tree = core.module_ast(FIT)
        table = None
        import ast as _ast
        for n in tree.body:
            tgt = n.target if isinstance(n, _ast.AnnAssign) else (n.targets[0] if isinstance(n, _ast.Assign) else None)
            if isinstance(tgt, _ast.Name) and tgt.id == "_WEIGHT_FUNCTIONS" and isinstance(n.value, _ast.Dict):
                table = {k.value: _ast.unparse(v) for k, v in zip(n.value.keys, n.value.values) if isinstance(k, _ast.Constant)}
        sess.check("post", [], z3.BoolVal(table == {"unity": "_unity_weight", "modulus": "_modulus_weight", "proportional": "_proportional_weight", "boukamp": "_boukamp_weight"}), 0,
                   label="_WEIGHT_FUNCTIONS maps each documented weight name to the function of that name")
    return (f"{FIT}:_residual and weights", FIT, "_residual", run)


def targets():      # noqa: F811
    return _targets_before_residual() + [target_residual_and_weights()]


_targets_before_table = targets


def target_parameters_table():
    """`FitResult.to_parameters_dataframe`: one row per (element, fitted parameter), elements in the order of the circuit's
    identifier map, parameters sorted by label; every cell of a row comes from THAT element's THAT parameter -- value, unit, fixed
    flag ("Yes"/"No") and the relative standard error |stderr / value * 100| (NaN when there is no error estimate, when the
    parameter is fixed or when the value is 0) -- and the element name is the circuit's name for the element under the identifier
    map asked for (`running`).  Real method on recording stand-ins with uninterpreted values (E3); two elements with one and two
    parameters stand for any circuit (the loop bodies keep no state between rows but the appends)."""
    from pyvc import overload as O
    from . import dataflow as DF
    from .dataflow import T

    def run(sess: Session):
        class P:
            def __init__(self, tag, fixed, has_err=True):
                self.value, self.unit, self.fixed = T.var(f"value[{tag}]"), f"unit[{tag}]", fixed
                self.stderr = T.var(f"stderr[{tag}]") if has_err else None
        for running in (False, True):
            def once():
                class El:
                    def __init__(self, name, values):
                        self.name, self.values = name, values

                    def __repr__(self):
                        return self.name

                    def get_values(self):          # (free parameters first, fixed ones after: not the sorted order)
                        return dict(self.values)

                    def get_symbol(self):
                        return self.name
                e1, e2 = El("elem1", {"R": 1.0}), El("elem2", {"Y": 2.0, "n": 0.5})
                ext, internal = {e1: 1, e2: 1}, {e1: 0, e2: 1}
                asked = []

                class Circuit:
                    def generate_element_identifiers(self, running=False):
                        return dict(internal if running else ext)

                    def get_element_name(self, element, identifiers=None):
                        asked.append((element, dict(identifiers)))
                        return f"name({element},{'running' if identifiers == internal else 'per-type'})"
                params = {"name(elem1,per-type)": {"R": P("e1.R", False)}, "name(elem2,per-type)": {"n": P("e2.n", True), "Y": P("e2.Y", False, has_err=False)}}
                me = type("Fit", (), {"circuit": Circuit(), "parameters": params})()
                ns = {"_is_boolean": lambda x: isinstance(x, bool), "nan": "NaN", "abs": lambda x: abs(x),
                      "DataFrame": type("DataFrame", (), {"from_dict": staticmethod(lambda d: d)})}
                O.load("analysis/fitting", ["FitResult.to_parameters_dataframe"], ns)
                return ns["to_parameters_dataframe"](me, running=running), params
            for log, (out, params), facts in DF.explore(once):
                tag = f"[running={running}, {','.join(f'{w}={v}' for w, v in log)}]"
                ok = isinstance(out, dict) and sorted(out) == sorted(["Element", "Parameter", "Value", "Std. err. (%)", "Unit", "Fixed"])
                sess.check("post", [], z3.BoolVal(ok), 0, label=f"the table has the six documented columns{tag}")
                if not ok:
                    continue
                kind_ = "running" if running else "per-type"
                want_rows = [("elem1", "R", params["name(elem1,per-type)"]["R"]), ("elem2", "Y", params["name(elem2,per-type)"]["Y"]), ("elem2", "n", params["name(elem2,per-type)"]["n"])]
                n_ok = all(len(out[k]) == 3 for k in out)
                sess.check("post", [], z3.BoolVal(n_ok), 0, label=f"one row per (element, parameter){tag}")
                if not n_ok:
                    continue
                for r, (el, lab, p) in enumerate(want_rows):
                    sess.check("post", [], z3.BoolVal(out["Element"][r] == f"name({el},{kind_})" and out["Parameter"][r] == lab), 0, label=f"row {r}: element name under the requested numbering and parameter label, elements in circuit order, labels sorted{tag}")
                    DF.eq_check(sess, f"row {r}: the value is that of this element's parameter{tag}", out["Value"][r], p.value)
                    sess.check("post", [], z3.BoolVal(out["Unit"][r] == p.unit and out["Fixed"][r] == ("Yes" if p.fixed else "No")), 0, label=f"row {r}: unit and fixed flag are those of this parameter{tag}")
                    zero = any("eq" in str(w) and v and str(p.value.e) in str(getattr(w, "key", "")) for w, v in log)
                    if p.stderr is None or p.fixed or zero:
                        sess.check("post", [], z3.BoolVal(out["Std. err. (%)"][r] == "NaN"), 0, label=f"row {r}: no relative error for a fixed parameter, a missing estimate or a zero value{tag}")
                    else:
                        DF.eq_check(sess, f"row {r}: relative error = |stderr / value * 100| of this parameter{tag}", out["Std. err. (%)"][r], abs(p.stderr / p.value * 100))
    return ("analysis/fitting:FitResult.to_parameters_dataframe", "analysis/fitting", "FitResult.to_parameters_dataframe", run)


def targets():      # noqa: F811
    from . import purity
    pick = purity.target_default_pickling(["circuit/circuit", "circuit/base", "circuit/series", "circuit/parallel", "circuit/transmission_line_model", "data/data_set", "analysis/fitting"])
    return _targets_before_table() + [target_parameters_table(), pick]
