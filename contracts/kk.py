"""Shared machinery for the Kramers-Kronig lemmas (C07, C09): the real functions of
analysis/kramers_kronig/{least_squares, matrix_inversion, utility}.py and the real element `_impedance`s are executed
by CPython on symbolic values (pyvc/overload.py); numpy's solvers are stubs that record the linear systems."""
from __future__ import annotations

import ast
from typing import Any, Dict, List, Optional

import z3

from pyvc import core
from pyvc import overload as O
from pyvc.overload import SQ, SymCol, SymMatrix, Vec, sym

LSQ = "analysis/kramers_kronig/least_squares"
INV = "analysis/kramers_kronig/matrix_inversion"
UTIL = "analysis/kramers_kronig/utility"

ELEMENT_SRC = {
    "Resistor": ("circuit/resistor", ["R"]), "Capacitor": ("circuit/capacitor", ["C"]), "Inductor": ("circuit/inductor", ["L"]),
    "KramersKronigRC": ("circuit/kramers_kronig", ["R", "tau"]), "KramersKronigAdmittanceRC": ("circuit/kramers_kronig", ["C", "tau"]),
}


def element_classes(ns: Dict[str, Any]):
    """fake element classes whose impedance is the REAL `_impedance` body of the class of the same name"""
    classes = {}
    for cname, (module, _p) in ELEMENT_SRC.items():
        fn = core.find_def(module, f"{cname}._impedance")
        params = [a.arg for a in fn.args.args if a.arg not in ("self", "f")]
        local: Dict[str, Any] = dict(ns)
        O.load(module, [f"{cname}._impedance"], local)
        impl = local["_impedance"]
        defaults = {"Resistor": {"R": 1000.0}, "Capacitor": {"C": 1e-6}, "Inductor": {"L": 1e-6},
                    "KramersKronigRC": {"R": 1.0, "tau": 1.0}, "KramersKronigAdmittanceRC": {"C": 1.0, "tau": 1.0}}[cname]

        def make(cname=cname, params=params, impl=impl, defaults=defaults):
            class E:
                _params = params

                def __init__(self, **kw):
                    self.values = dict(defaults)
                    self.values.update(kw)

                def set_values(self, **kw):
                    for k in kw:
                        if k not in self.values:
                            raise KeyError(k)
                    self.values.update(kw)
                    return self

                def set_lower_limits(self, **kw):
                    self.__dict__.setdefault("lower", {}).update(kw)
                    return self

                def set_upper_limits(self, **kw):
                    self.__dict__.setdefault("upper", {}).update(kw)
                    return self

                def impedance(self, f):
                    vals = [self.values[p] for p in params]
                    if any(isinstance(v, float) and v in (float("inf"), float("-inf")) for v in vals):
                        return "OPEN"
                    return impl(self, f, *vals)
            E.__name__ = cname
            return E
        classes[cname] = make()
    return classes


class Conn:
    def __init__(self, kind, elements):
        self.kind, self.elements = kind, list(elements)

    def contains(self, e, top_level=False):
        return any(e is x for x in self.elements)

    def append(self, e):
        self.elements.append(e)


class Circ:
    def __init__(self, con):
        self.con = con

    def get_elements(self, recursive=True):
        return list(self.con.elements)

    def get_connections(self, recursive=True):
        return [self.con]

    def get_impedances(self, f):
        """C01's composition law (assumed here, proved in C01): series adds, parallel adds reciprocals, open branches drop out"""
        zs = [e.impedance(f) for e in self.con.elements]
        if self.con.kind == "Series":
            tot = SQ.of(0)
            for z in zs:
                if isinstance(z, str):
                    raise O.Unsupported("open element in series")
                tot = tot + z
            return tot
        tot = SQ.of(0)
        for z in zs:
            if isinstance(z, str):
                continue
            tot = tot + 1 / z
        return 1 / tot


class Solver:
    """stub for numpy.linalg.lstsq / pinv / inv: records (A, b) and returns the next predetermined vector"""

    def __init__(self, returns: List[List[Any]]):
        self.returns = list(returns)
        self.calls: List[Any] = []

    def _next(self, pairs):
        if not self.returns:
            raise O.Unsupported("more solver calls than the lemma specifies")
        r = Vec(self.returns.pop(0))
        self.calls.append((pairs, list(r)))
        return r

    def lstsq(self, A, b, rcond=None):
        return (self._next([(A, b)]),)

    def pinv(self, A):
        solver = self

        class P:
            def dot(self_, b):
                return solver._next([(A, b)])
        return P()

    def inv(self, M):
        solver = self

        class I:
            def dot(self_, y):
                if [a for a, _ in M.pairs] != [a for a, _ in y.pairs] or any(a is not a2 for (a, a2) in M.pairs):
                    raise O.Unsupported("normal equations of unexpected shape")
                return solver._next(list(y.pairs))
        return I()


def namespace(solver: Solver, taus: List[SQ]) -> Dict[str, Any]:
    ns = O.base_namespace()
    ns.update({"Series": lambda els: Conn("Series", els), "Parallel": lambda els: Conn("Parallel", els), "Circuit": Circ,
               "lstsq": solver.lstsq, "pinv": solver.pinv, "inv": solver.inv,
               "_generate_time_constants": lambda w, num_RC, log_F_ext: list(taus)})
    ns.update(element_classes(ns))
    # tolerance-based comparisons are not used by the code under contract.  They are modelled so that introducing one is a refuted
    # obligation (see check_exact) instead of an unknown name: at the generic point a value is non-zero and not "close" to anything
    tests: List[str] = []
    ns["__tolerance_tests__"] = tests
    def _exactly(a, b):
        try:
            return bool(a == b)
        except Exception:       # noqa: BLE001 - symbolic values that cannot be compared: not "close"
            return False
    ns["isclose"] = lambda a, b, *r, **k: tests.append("isclose") or _exactly(a, b)
    ns["allclose"] = lambda a, b, *r, **k: tests.append("allclose") or _exactly(a, b)
    return ns


def check_exact(sess, ns: Dict[str, Any], where: str = ""):
    """the meaning of a fitted variable (zero -> open/short element, otherwise its reciprocal, ...) is decided by exact tests only:
    a tolerance would make the result depend on the units of the data (C09) and lose small but non-zero parameters (C07)"""
    used = ns.get("__tolerance_tests__", [])
    ob = sess.check("post", [], z3.BoolVal(not used), 0, label=f"fitted variables are classified exactly, no tolerance-based test (isclose/allclose) decides what a value means{where}")
    if used:
        ob.detail = f"called: {sorted(set(used))}"


def b_as_col(b) -> SymCol:
    if isinstance(b, SymCol):
        return b
    if isinstance(b, SymMatrix):
        return b.cols[0]
    return SymCol(b, b)


def system_goals(P, calls):
    """for each recorded solver call: A . returned == b on both row halves (pointwise in omega)"""
    goals = []
    for ci, (pairs, ret) in enumerate(calls):
        for pi_, (A, b) in enumerate(pairs):
            bc = b_as_col(b)
            n = A.n
            if len(ret) != n:
                goals.append((f"call{ci}:shape", None, None))
                continue
            for h in O.HALVES:
                lhs = SQ.of(0)
                for j in range(n):
                    lhs = lhs + A.cols[j].v[h] * ret[j]
                goals.append((f"call{ci}.{pi_}:{h}-rows: A.x==b", lhs, bc.v[h]))
    return goals
