"""C02 proof layer: every registered element's real `_impedance` body against its own `_equation` string
(function against spec function), and the general transmission line model `_impedance` against `_sympy`
for all 243 flag configurations.  Everything is read from the source text of /repo on every run."""
from __future__ import annotations

import ast
import glob
import os
from fractions import Fraction
from typing import Any, Dict, List

import z3

from pyvc import core
from pyvc.core import Session
from pyvc.cq import PI, Prover, PyTranslator, Q, tr_sym

PROP = "C02"
CIRCUIT_DIR = "circuit"


def _kw(call: ast.Call, name: str):
    for k in call.keywords:
        if k.arg == name:
            return k.value
    return None


def registry():
    """[(module, class name, symbol, equation, {param: (lo, hi)}, definition kind)] from the register_element(...) ASTs"""
    out = []
    for path in sorted(glob.glob(os.path.join(core.SRC, CIRCUIT_DIR, "*.py"))):
        module = "circuit/" + os.path.basename(path)[:-3]
        tree = core.module_ast(module)
        for n in tree.body:
            if not (isinstance(n, ast.Expr) and isinstance(n.value, ast.Call) and getattr(n.value.func, "id", "") == "register_element"):
                continue
            d = n.value.args[0]
            kind = d.func.id
            cname = _kw(d, "Class").id
            sym = ast.literal_eval(_kw(d, "symbol"))
            try:
                eq = ast.literal_eval(_kw(d, "equation"))
            except Exception:
                eq = None          # computed string (general TLM)
            params = {}
            for p in _kw(d, "parameters").elts:
                lo, hi = ast.unparse(_kw(p, "lower_limit")), ast.unparse(_kw(p, "upper_limit"))
                params[ast.literal_eval(_kw(p, "symbol"))] = (lo, hi, ast.unparse(_kw(p, "value")))
            out.append((module, cname, sym, eq, params, kind))
    return out


def _hyps(params) -> (Dict[str, Q], List):
    env, hyps = {}, []
    for k, (lo, hi, _v) in params.items():
        v = z3.Real(k)
        env[k] = Q.lift(v)
        if lo not in ("-inf",):
            hyps.append(v > z3.RealVal(str(Fraction(lo))))
        if hi not in ("inf",):
            hyps.append(v <= z3.RealVal(str(Fraction(hi))))
    F = z3.Real("f")
    env["f"] = Q.lift(F)
    hyps.append(F > 0)
    return env, hyps


def _repro(sym: str) -> str:
    return f'''
import numpy as np, sympy, warnings
warnings.filterwarnings("ignore")
from pyimpspec.circuit.registry import get_elements
C = get_elements(private=True)[{sym!r}]
lo, hi, dv = C.get_default_lower_limits(), C.get_default_upper_limits(), C.get_default_values()
expr = sympy.sympify(C._equation)
rng = np.random.default_rng(0)
f = np.array([1e-3, 1.0, 37.0, 1e4])
worst = 0.0
for trial in range(40):
    vals = {{}}
    for k in dv:
        a = max(lo[k], dv[k] / 30 if dv[k] > 0 else lo[k]); b = min(hi[k], dv[k] * 30 if dv[k] > 0 else hi[k])
        vals[k] = float(dv[k]) if trial == 0 else float(np.exp(rng.uniform(np.log(max(a, 1e-12)), np.log(max(b, 2e-12)))))
        if hi[k] <= 1.0: vals[k] = min(vals[k], 1.0)
    Z = C(**vals).get_impedances(f)
    fn = sympy.lambdify("f", expr.subs(vals), modules=["mpmath"])
    import mpmath
    Ze = np.array([complex(fn(mpmath.mpf(x))) for x in f])
    rel = np.max(np.abs(Z - Ze) / np.abs(Ze))
    worst = max(worst, rel)
    assert rel < 1e-8, ("numeric impedance != documented equation", {sym!r}, vals, Z, Ze)
print("agree", worst)
'''


def target_element(module, cname, sym, eq, params):
    qual = f"{cname}._impedance"

    def run(sess: Session):
        import sympy
        fn = core.find_def(module, qual)
        env, hyps = _hyps(params)
        P = Prover(hyps)
        # signature check: every declared parameter is an argument of _impedance (and nothing else but f)
        argnames = [a.arg for a in fn.args.args if a.arg not in ("self", "f")]
        sess.check("pre", [], z3.BoolVal(sorted(argnames) == sorted(params.keys())), fn.lineno, label="signature=parameters")
        penv = dict(env)
        ret = None
        for st in core.strip_docstring(fn.body):
            if isinstance(st, (ast.AnnAssign, ast.Assign)):
                if isinstance(st, ast.AnnAssign) and st.value is None:
                    continue
                tgt = st.target if isinstance(st, ast.AnnAssign) else st.targets[0]
                if not isinstance(tgt, ast.Name):
                    sess.unsupported(f"assignment target in {qual}", st.lineno)
                    return
                penv[tgt.id] = PyTranslator(P, penv).tr(st.value)
            elif isinstance(st, ast.Return):
                ret = Q.lift(PyTranslator(P, penv).tr(st.value))
            else:
                sess.unsupported(f"statement {type(st).__name__} in {qual}", st.lineno)
                return
        if ret is None:
            sess.unsupported(f"no return in {qual}", fn.lineno)
            return
        spec_expr = sympy.sympify(eq, evaluate=False)
        free = {s.name for s in spec_expr.free_symbols}
        sess.check("pre", [], z3.BoolVal(free <= set(params) | {"f"}), fn.lineno, label="equation-free-symbols⊆parameters∪{f}")
        spec = tr_sym(P, spec_expr, env)
        ob = sess.check("post", P.hyps, P.eq_goal(ret, spec), fn.lineno, label=f"{sym}:impedance==equation")
        if ob.status != "discharged":
            ob.replay = {"repro": _repro(sym)}
            ob.detail += f" (transcendental atoms={P.n}; a model over the abstracted atoms is only a candidate: the native comparison decides)"
        # canary: the same goal with the equation multiplied by 2 must not be provable
        sess.check("canary", P.hyps, P.eq_goal(ret, spec * 2), fn.lineno, label="2*equation", expect_refuted=True)
        sess.assumptions.append("equalities of rational functions hold wherever no denominator vanishes")
    return (f"{module}:{qual}", module, qual, run)


# ------------------------------------------------------------------------------------------------
# general transmission line model: _impedance vs _sympy, flag by flag

TLM = "circuit/transmission_line_model"


class Escape(Exception):
    def __init__(self, kind, value=None):
        self.kind, self.value = kind, value


def _exec(stmts, tr: PyTranslator, methods: Dict[str, ast.FunctionDef]):
    """tiny statement interpreter with *concrete* booleans (flags) and Q values"""
    for st in stmts:
        if isinstance(st, ast.AnnAssign):
            if st.value is None:
                continue
            tr.env[st.target.id] = tr.tr(st.value)
        elif isinstance(st, ast.Assign):
            tr.env[st.targets[0].id] = tr.tr(st.value)
        elif isinstance(st, ast.If):
            c = tr.tr(st.test)
            if not isinstance(c, bool):
                raise NotImplementedError("symbolic branch")
            _exec(st.body if c else st.orelse, tr, methods)
        elif isinstance(st, ast.Return):
            raise Escape("return", tr.tr(st.value))
        elif isinstance(st, ast.Raise):
            raise Escape("raise", st.exc.func.id if isinstance(st.exc, ast.Call) else st.exc.id)
        elif isinstance(st, ast.Expr):
            continue
        else:
            raise NotImplementedError(type(st).__name__)


def _tail(fn: ast.FunctionDef):
    """statements from the first `if x1.is_open` on"""
    body = core.strip_docstring(fn.body)
    for i, st in enumerate(body):
        if isinstance(st, ast.If) and "x1.is_open" in ast.unparse(st.test):
            return body[i:]
    raise LookupError("flag analysis not found")


def target_tlm():
    qual = "TransmissionLineModel._impedance"

    def run(sess: Session):
        cls = core.find_def(TLM, "TransmissionLineModel")
        methods = {m.name: m for m in cls.body if isinstance(m, ast.FunctionDef)}
        imp, sym = methods["_impedance"], methods["_sympy"]
        names = ["x1", "x2", "za", "zb", "ze"]
        states = ("finite", "short", "open")
        import itertools
        n_cfg = n_eq = n_raise = 0
        # prelude check: both functions obtain the five records from _evaluate_subcircuit in the same order
        pre_i = [ast.unparse(s.value) for s in imp.body if isinstance(s, ast.AnnAssign) and s.value is not None and "_evaluate_subcircuit" in ast.unparse(s.value)]
        pre_s = [ast.unparse(s.value) for s in sym.body if isinstance(s, ast.AnnAssign) and s.value is not None and "_evaluate_subcircuit" in ast.unparse(s.value)]
        sess.check("pre", [], z3.BoolVal(len(pre_i) == 5 and [p.split(",")[0] for p in pre_i] == [p.split(",")[0] for p in pre_s]), imp.lineno, label="same-subcircuit-evaluation-order")
        for cfg in itertools.product(states, repeat=5):
            n_cfg += 1
            hyps = [z3.Real("L") > 0]
            P = Prover(hyps)
            recs = {}
            for nm, stt in zip(names, cfg):
                if stt == "finite":
                    z = Q(z3.Real(nm + "_re"), z3.Real(nm + "_im"))
                elif stt == "short":
                    z = Q.lift(0)
                else:
                    z = "OPEN"
                recs[nm] = {"is_open": stt == "open", "is_short": stt == "short", "impedances": z, "expr": z}
            Lq = Q.lift(z3.Real("L"))

            def mk_funcs(P):
                def call_self(tr, e):
                    m = methods[e.func.attr]
                    params = [a.arg for a in m.args.args[1:]]
                    sub = PyTranslator(tr.P, dict(zip(params, [tr.tr(a) for a in e.args])), tr.funcs)
                    try:
                        _exec(core.strip_docstring(m.body), sub, methods)
                    except Escape as esc:
                        return esc.value
                f = {k: call_self for k in methods if k.startswith("_eq")}
                f["sympy_sqrt"] = lambda tr, e: tr.P.app("pow", [Q.lift(tr.tr(e.args[0])), Q.lift(Fraction(1, 2))])
                f["sympy_cosh"] = lambda tr, e: tr.P.app("cosh", [Q.lift(tr.tr(e.args[0]))])
                f["sympy_sinh"] = lambda tr, e: tr.P.app("sinh", [Q.lift(tr.tr(e.args[0]))])
                f["sympy_coth"] = lambda tr, e: tr.P.app("tanh", [Q.lift(tr.tr(e.args[0]))]).inv()
                return f
            outs = []
            for fn in (imp, sym):
                env = dict(recs)
                env["L"] = Lq
                env["self"] = {}
                tr = PyTranslator(P, env, mk_funcs(P))
                tail = [s for s in _tail(fn) if not (isinstance(s, ast.Expr) and "update_expr" in ast.unparse(s))]
                try:
                    _exec(tail, tr, methods)
                    outs.append(("none", None))
                except Escape as esc:
                    outs.append((esc.kind, esc.value))
                except TypeError:
                    outs.append(("uses-open-impedance", None))
            (k1, v1), (k2, v2) = outs
            label = "/".join(f"{n}={s}" for n, s in zip(names, cfg))
            if k1 == "raise" or k2 == "raise":
                n_raise += 1
                sess.check("post", [], z3.BoolVal(k1 == k2 == "raise" and v1 == v2), imp.lineno, label=f"same-refusal[{label}]")
                continue
            if k1 != "return" or k2 != "return" or not isinstance(v1, Q) or not isinstance(v2, Q):
                sess.check("post", [], z3.BoolVal(False), imp.lineno, label=f"both-return-finite-expression[{label}]")
                continue
            n_eq += 1
            sess.check("post", P.hyps, P.eq_goal(v1, v2), imp.lineno, label=f"_impedance==_sympy[{label}]")
        sess.check("cover", [], z3.BoolVal(n_cfg == 243 and n_eq + n_raise == 243 and n_eq >= 27), 0, label="243-flag-configurations")
        sess.assumptions.append("TLM: a finite sub-circuit's symbolic expression denotes its numeric impedance (C01/C02 composition); open/short flags as computed by _evaluate_subcircuit")
    return (f"{TLM}:{qual}≡_sympy", TLM, qual, run)


def target_registry_complete():
    def run(sess: Session):
        reg = registry()
        elems = [r for r in reg if r[5] == "ElementDefinition"]
        sess.check("cover", [], z3.BoolVal(len(elems) >= 22), 0, label=f"registered-element-definitions={len(elems)}")
        # defaults inside limits and lower < upper for every registered parameter (class_wf of C14, finite check from the ASTs)
        for module, cname, sym, eq, params, kind in reg:
            for k, (lo, hi, v) in params.items():
                f = lambda s: float(s.replace("inf", "1e999"))
                sess.check("pre", [], z3.BoolVal(f(lo) < f(hi) and f(lo) <= f(v) <= f(hi)), 0, label=f"{sym}.{k}:lower<=default<=upper")
    return ("circuit/registry:register_element(definitions)", "circuit/registry", "register_element", run)


def target_functions():
    """circuit/functions.py: the helpers the translator treats as known functions really are what it assumes
    (coth(x) == 1/tanh(x); cosh, sinh, sqrt, tanh are numpy's)"""
    module = "circuit/functions"

    def run(sess: Session):
        tree = core.module_ast(module)
        imported = {}
        for n in tree.body:
            if isinstance(n, ast.ImportFrom):
                for a in n.names:
                    imported[a.asname or a.name] = n.module
        for name in ("cosh", "sinh", "sqrt", "tanh"):
            sess.check("pre", [], z3.BoolVal(imported.get(name) == "numpy"), 0, label=f"{name} is numpy.{name}")
        defs = [n for n in tree.body if isinstance(n, ast.FunctionDef)]
        sess.check("cover", [], z3.BoolVal([d.name for d in defs] == ["coth"]), 0, label=f"functions defined: {[d.name for d in defs]}")
        for fn in defs:
            if fn.name != "coth":
                sess.unsupported(f"function {fn.name} of circuit/functions.py has no specification", fn.lineno)
                continue
            body = core.strip_docstring(fn.body)
            if not (len(body) == 1 and isinstance(body[0], ast.Return)):
                sess.unsupported("coth is no longer a single return expression (control flow in a mathematical helper)", fn.lineno)
                continue
            P = Prover([])
            x = Q(z3.Real("x_re"), z3.Real("x_im"))
            got = Q.lift(PyTranslator(P, {fn.args.args[0].arg: x}).tr(body[0].value))
            want = P.app("tanh", [x]).inv()
            sess.check("post", P.hyps, P.eq_goal(got, want), fn.lineno, label="coth(x) == 1/tanh(x)")
    return (f"{module}:coth", module, "coth", run)


def targets():
    ts = [target_registry_complete(), target_functions()]
    for module, cname, sym, eq, params, kind in registry():
        if kind == "ElementDefinition" and eq is not None:
            ts.append(target_element(module, cname, sym, eq, params))
    ts.append(target_tlm())
    return ts


# ------------------------------------------------------------------------------------------------ Tlm: classification of sub-circuits
def target_evaluate_subcircuit():
    """transmission_line_model._evaluate_subcircuit on two-point arrays whose points are classified {zero, tiny (non-zero, below any
    tolerance), finite, infinite}: a sub-circuit is `short` exactly when EVERY impedance is exactly 0, `open` exactly when every
    impedance is infinite (or the connection is None and an open array was supplied), a mix of infinite and other values is an
    InfiniteImpedance, and the impedances handed on are the connection's own.  (`isclose`/`allclose` are modelled too, so that a
    tolerance-based classification is a refuted obligation rather than an unsupported construct.)"""
    import itertools
    from pyvc import overload as O
    TLM = "circuit/transmission_line_model"
    qual = "_evaluate_subcircuit"

    def run(sess: Session):
        class M(list):
            def any(self):
                return any(self)

            def all(self):
                return all(self)

            def __invert__(self):
                return M(not x for x in self)

        class Z2:
            def __init__(self, classes):
                self.c = tuple(classes)
                self.size = len(self.c)
                self.shape = (len(self.c),)

            def __eq__(self, other):
                if other == 0:
                    return M(c == "zero" for c in self.c)
                raise O.Unsupported("array comparison with something else than 0")
            __hash__ = None

        class InfiniteImpedance(Exception):
            pass
        made = []
        ns = {"isinf": lambda z: M(c == "inf" for c in z.c), "where": lambda m: (type("I", (), {"size": sum(1 for x in m if x)})(),),
              "isclose": lambda z, v, **kw: M(c in ("zero", "tiny") for c in z.c) if v == 0 else O.Unsupported, "allclose": lambda z, v, **kw: all(c in ("zero", "tiny") for c in z.c) if v == 0 else None,
              "Subcircuit": lambda **kw: made.append(kw) or kw, "InfiniteImpedance": InfiniteImpedance, "all": all, "any": any, "len": len}
        O.load(TLM, [qual], ns)
        fn = ns[qual]
        f = type("F", (), {"size": 2, "shape": (2,)})()
        for classes in itertools.product(("zero", "tiny", "finite", "inf"), repeat=2):
            z = Z2(classes)
            con = type("Con", (), {"_impedance": lambda s, ff, _z=z: _z})()
            made.clear()
            err = None
            try:
                out = fn(con, f, None)
            except InfiniteImpedance as ex:
                err = ex
            n_inf = sum(1 for c in classes if c == "inf")
            tag = f"[{classes[0]},{classes[1]}]"
            if 0 < n_inf < 2:
                sess.check("post", [], z3.BoolVal(err is not None), 0, label=f"a mix of infinite and other impedances is refused (InfiniteImpedance){tag}")
                continue
            ok = err is None and len(made) == 1 and made[0].get("impedances") is z
            sess.check("post", [], z3.BoolVal(ok), 0, label=f"the connection's own impedances are handed on{tag}")
            if ok:
                sess.check("post", [], z3.BoolVal(made[0].get("is_open") is (n_inf == 2)), 0, label=f"open  <=>  every impedance is infinite{tag}")
                sess.check("post", [], z3.BoolVal(bool(made[0].get("is_short")) == all(c == "zero" for c in classes)), 0, label=f"short  <=>  every impedance is exactly zero{tag}")
        made.clear()
        marker = object()
        out = fn(None, f, marker)
        sess.check("post", [], z3.BoolVal(len(made) == 1 and made[0] == {"impedances": marker, "is_open": True, "is_short": False}), 0, label="con is None: open, with the supplied open array")
        refused = False
        try:
            fn(None, f, None)
        except TypeError:
            refused = True
        sess.check("post", [], z3.BoolVal(refused), 0, label="con is None without an open array is refused (TypeError)")
    return (f"{TLM}:{qual}", TLM, qual, run)


_targets_c02_core = targets


def targets():      # noqa: F811
    return _targets_c02_core() + [target_evaluate_subcircuit()]


_targets_c02_tlm = targets

ELEMENT_MODULES = ["circuit/base", "circuit/resistor", "circuit/capacitor", "circuit/inductor", "circuit/constant_phase_element", "circuit/de_levie", "circuit/gerischer",
                   "circuit/havriliak_negami", "circuit/kramers_kronig", "circuit/warburg", "circuit/zarc", "circuit/transmission_line_model", "circuit/functions"]


def targets():      # noqa: F811
    """+ the evaluation path keeps no state: the impedance a call returns is a function of the element's class, its parameter values,
    its sub-circuits and the frequencies -- no module-level function of the element modules stores anything a later call could read
    (a memo is accepted only under a key that holds every argument in full), and no observer method stores anything on the element"""
    from . import purity
    return _targets_c02_tlm() + [purity.target_modules(ELEMENT_MODULES, "element modules keep no state between evaluations"),
                                 purity.target_observers(["circuit/base", "circuit/transmission_line_model"], "element observers keep no state")]
