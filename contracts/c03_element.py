"""C03: Parser.element against the Element contracts (limit-ordering call preconditions).

`self.parameters(Class)` is taken by contract: it returns (label, parameters, lower_limits, upper_limits, fixed, subcircuits)
with dom(lower) = dom(upper) = dom(fixed) = dom(parameters) a subset of the class's keys, omitted limits = NaN, and (what
parameters() itself validates) lower <= value <= upper for the limits that are given.  Obligation: for what serialize()
emits -- every limit given, lower < upper -- none of the setter calls can raise and the element ends with exactly those
values / limits / fixed flags."""
from __future__ import annotations

import ast

import z3

from pyvc.core import Session, find_def
from pyvc.symex import Contract, Executor, Raised, State, Unsupported
from pyvc.values import NONE, ClassV, DictV, FuncV, Key, ListV, NEG_INF, Obj, POS_INF, Ref, StrV, TupleV, fresh, INF_AXIOMS
from . import element as E
from . import parser as PR

NAN = z3.Real("NAN")
R, Bo, I = z3.RealSort(), z3.BoolSort(), z3.IntSort()


def target_element():
    qual = "Parser.element"

    def run(sess: Session):
        for mode in ("serialized", "any"):
            ex = E.make_executor(sess, strict_calls=(mode == "serialized"))
            ex.module = PR.MOD
            PR.install_common(ex)
            for n in ("set_values", "set_lower_limits", "set_upper_limits", "set_fixed"):
                ex.contracts[n] = Contract(n, E.setter_apply(n, strict=(mode == "serialized")))
            ex.consts["isnan"] = ("builtin", lambda ex_, s, a, kw, n: [(ex_.lift(a[0]) == NAN, s)])
            ex.consts["nan"] = NAN
            st = State()
            st.pc += INF_AXIOMS + [NAN > POS_INF]
            me, T0, S0 = PR.new_parser(st, tokens_nonempty=True)
            st.pc.append(PR.kind(z3.Select(T0.arr, T0.lo)) == PR.K["Identifier"])
            klass = E.new_class(st, "cls")
            st.ghost["klass"] = klass
            vk = E.View(st, klass)
            st.pc.append(E.class_wf(vk))
            # the symbol is registered (other branch: InvalidElementSymbol)
            P_, LO_, UP_ = (DictV.symbolic(n, Key, R) for n in ("params", "lower", "upper"))
            FX_ = DictV.symbolic("fixed", Key, Bo)
            k = E.k_()
            st.pc += [E.typed(P_),
                      z3.ForAll([k], z3.And(LO_.has(k) == P_.has(k), UP_.has(k) == P_.has(k), FX_.has(k) == P_.has(k))),
                      z3.ForAll([k], z3.Implies(P_.has(k), vk.keys(k))),
                      z3.ForAll([k], z3.Implies(P_.has(k), z3.And(z3.Or(LO_.get(k) == NAN, z3.And(NEG_INF <= LO_.get(k), LO_.get(k) <= P_.get(k))),
                                                                 z3.Or(UP_.get(k) == NAN, z3.And(P_.get(k) <= UP_.get(k), UP_.get(k) <= POS_INF)))))]
            if mode == "serialized":
                # what Element.to_string emits: all three numbers, lower < upper (class invariant of C14)
                st.pc.append(z3.ForAll([k], z3.Implies(P_.has(k), z3.And(LO_.get(k) != NAN, UP_.get(k) != NAN, LO_.get(k) < UP_.get(k)))))
            cells = {n: st.alloc(d) for n, d in (("P", P_), ("LO", LO_), ("UP", UP_), ("FX", FX_))}

            def parameters_contract(ex_, s, recv, args, kwargs, line):
                PR.havoc_tokens(s, recv, strict=False)
                return [(Raised(PR.Exc("ParsingError|ValueError", line)), s.clone()),
                        (TupleV([StrV(note="label"), cells["P"], cells["LO"], cells["UP"], cells["FX"], s.alloc(DictV.empty(Key, I))]), s)]
            ex.contracts["parameters"] = Contract("parameters", parameters_contract)
            made = {}

            def call(f, args, kwargs, starkw, s, node, orig=ex.call):
                if z3.is_expr(f) and f.sort() == I:
                    # Class(**parameters, **subcircuits): Element.__init__ contract (C14) with the parameter map
                    maps = starkw[1:] if isinstance(starkw, tuple) and starkw[0] == "multi" else [starkw]
                    pm = s.deref(maps[0])
                    inst = E.new_instance(s, klass, "elem")
                    v1 = E.View(s, inst)
                    kk = E.k_()
                    ex.oblige("call-pre", s, z3.ForAll([kk], z3.Implies(pm.has(kk), v1.keys(kk))), getattr(node, "lineno", 0), "Class(**parameters):valid-keys")
                    s.pc.append(E.init_post(E.View(s, klass), v1, pm))
                    made["inst"] = inst
                    return [(inst, s)]
                return orig(f, args, kwargs, starkw, s, node)
            ex.call = call
            orig_sub = ex.subscript

            def subscript(base, idx, s, node, orig_sub=orig_sub):
                if isinstance(idx, tuple) and idx and idx[0] == "tokvalue":
                    idx = PR.tstr(idx[1].id)
                return orig_sub(base, idx, s, node)
            ex.subscript = subscript
            orig_contains = ex.contains

            def contains(container, item, s, line, orig_contains=orig_contains):
                if isinstance(item, tuple) and item and item[0] == "tokvalue":
                    item = PR.tstr(item[1].id)
                return orig_contains(container, item, s, line)
            ex.contains = contains
            ex.classes["InvalidElementSymbol"] = ClassV("InvalidElementSymbol")
            fn = find_def(PR.MOD, qual)
            node = ast.parse("f()").body[0].value
            node.lineno = fn.lineno
            outs = ex.call_funcv(FuncV(fn, PR.MOD, qualname=qual, bound_self=me), [], {}, None, st, node)
            n_ok = 0
            for val, s1 in outs:
                if isinstance(val, Raised):
                    ok = all(x in PR.PARSING_ERRORS for x in val.exc.name.split("|"))
                    sess.check("exc-class", s1.pc, z3.BoolVal(ok), val.exc.line, label=f"[{mode}]{val.exc.name}")
                    continue
                n_ok += 1
                S1 = PR.cur(s1, me, "_stack")
                sess.check("post", s1.pc, z3.And(S1.lo == S0.lo - 1, PR.same_below(S1, S0)), 0, label=f"[{mode}]exactly one item pushed")
                inst = made.get("inst")
                if inst is not None and mode == "serialized":
                    v = E.View(s1, inst)
                    kk = E.k_()
                    sess.check("post", s1.pc, z3.ForAll([kk], z3.Implies(P_.has(kk), z3.And(v.value.get(kk) == P_.get(kk), v.lower.get(kk) == LO_.get(kk), v.upper.get(kk) == UP_.get(kk), v.fixed.get(kk) == FX_.get(kk)))), 0,
                               label="[serialized]element carries exactly the printed values, limits and fixed flags")
                    sess.check("post", s1.pc, E.inv(v), 0, label="[serialized]Inv")
            sess.check("cover", [], z3.BoolVal(n_ok >= 1), 0, label=f"[{mode}]normal-exit")
    return (f"{PR.MOD}:{qual}", PR.MOD, qual, run)


def targets():
    return [target_element()]
