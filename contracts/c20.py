"""C20 proof layer: symbolic exports.

  * Element.to_sympy (real code, recording stand-ins): with substitute=True every parameter key is substituted by its value
    ('oo'/'-oo' for infinities), with substitute=False every key is renamed '<key>_<label>' / '<key>_<identifier>' -- so,
    together with the per-class obligation `free symbols of _equation are parameters or f`, the substituted expression has no
    free variable but f and the unsubstituted one exactly one variable per (element, parameter);
  * Series.to_sympy / Parallel.to_sympy (real code on symbolic complex values): the expression is the sum, resp. the
    reciprocal of the sum of reciprocals, of the children's expressions, each child asked with the shared identifier map --
    the same composition law as the numeric impedance (C01), hence symbolic == numeric for whole circuits.
  * to_drawing (schemdraw) and to_circuitikz: every nested function of the two layout routines under contract, verified by
    structural induction over the connection tree with pyvc.hoare (E5) -- see contracts/diagrams.py.
LaTeX rendering and to_stack are only explored by the bounded layer (see known findings)."""
from __future__ import annotations

import itertools

import z3

from pyvc import core
from pyvc import overload as O
from pyvc.core import Session
from pyvc.overload import SQ, csym
from . import c02
from . import dataflow as DF
from . import lemmas as L
from .dataflow import T

BASE = "circuit/base"
SER = "circuit/series"
PAR = "circuit/parallel"


def target_element_to_sympy():
    qual = "Element.to_sympy"

    def run(sess: Session):
        n = 0
        for substitute, label, identifier in itertools.product((False, True), ("", "lbl"), (-1, 3)):
            def once():
                vals = {"R": T.var("value[R]"), "Y": T.var("value[Y]")}
                got = {}

                class Expr:
                    def subs(self, d):
                        got["subs"] = dict(d)
                        return "EXPR"

                class Me:
                    _label = label

                    def get_values(self):
                        return dict(vals)

                    def _sympy(self, **kw):
                        got["_sympy"] = kw
                        return Expr()
                ns = {"_is_boolean": lambda x: isinstance(x, bool), "_is_integer": lambda x: isinstance(x, int), "isposinf": DF.opaque("isposinf"), "isneginf": DF.opaque("isneginf")}
                O.load(BASE, [qual], ns)
                out = ns["to_sympy"](Me(), substitute=substitute, identifier=identifier)
                return out, got, vals
            for log, (out, got, vals), facts in DF.explore(once):
                n += 1
                subs = got.get("subs", {})
                tag = f"[substitute={substitute},label={label!r},identifier={identifier}," + ",".join(str(v)[0] for _, v in log) + "]"
                sess.check("post", [], z3.BoolVal(out == "EXPR" and sorted(subs) == ["R", "Y"]), 0, label=f"every parameter key is substituted, nothing else{tag}")
                if not substitute:
                    want = {k: (f"{k}_{label}" if label else (f"{k}_{identifier}" if identifier >= 0 else k)) for k in vals}
                    sess.check("post", [], z3.BoolVal(subs == want), 0, label=f"variables are '<key>_<label>' or '<key>_<identifier>'{tag}")
                else:
                    # each key: 'oo' / '-oo' on the branches where isposinf / isneginf was decided true, else the value itself
                    ok = all((v == "oo") or (v == "-oo") or (v is vals[k]) for k, v in subs.items())
                    sess.check("post", [], z3.BoolVal(ok), 0, label=f"substituted by the parameter's own value (oo / -oo for infinities){tag}")
        sess.check("cover", [], z3.BoolVal(n >= 8), 0, label=f"paths={n}")
    return (f"{BASE}:{qual}", BASE, qual, run)


def target_connection_to_sympy(which: str):
    module, qual = (SER, "Series.to_sympy") if which == "series" else (PAR, "Parallel.to_sympy")

    def run(sess: Session):
        class Element:
            pass

        class Container(Element):
            pass

        class Connection:
            pass
        for kinds in itertools.product(("element", "container", "connection"), repeat=2):
            ctx = L.fresh_ctx([])
            P = ctx.P
            exprs = [csym(f"X{i}") for i in range(2)]
            for i in range(2):
                P.hyps.append(z3.Or(z3.Real(f"X{i}_re") != 0, z3.Real(f"X{i}_im") != 0))
            asked = []

            def mk(kind, x, i):
                base = {"element": Element, "container": Container, "connection": Connection}[kind]

                class C(base):
                    def to_sympy(self, **kw):
                        asked.append((i, kind, kw))
                        return x

                    def __hash__(self):
                        return id(self)
                return C()
            kids = [mk(k, x, i) for i, (k, x) in enumerate(zip(kinds, exprs))]
            ids = {kids[0]: 7, kids[1]: 9}

            ns = {"sympify": lambda s: SQ.of(0) if s == "0" else None, "_is_boolean": lambda x: isinstance(x, bool), "isinstance": isinstance, "dict": dict,
                  "Element": Element, "Container": Container, "Connection": Connection}

            class Me(O.auto_methods(BASE, "Connection", ns)):
                _elements = kids

                def generate_element_identifiers(self, running):
                    asked.append(("ids", running))
                    return ids
            O.load(module, [qual], ns)
            out = ns["to_sympy"](Me(), substitute=True)
            tag = f"[{kinds[0]},{kinds[1]}]"
            if which == "series":
                sess.check_qeq("post", P, out, exprs[0] + exprs[1], 0, label=f"series expression == sum of the children's expressions{tag}")
            else:
                sess.check_qeq("post", P, out * (1 / exprs[0] + 1 / exprs[1]), SQ.of(1), 0, label=f"parallel expression == 1/(sum of reciprocals){tag}")
            calls = [a for a in asked if a[0] != "ids"]
            ok = len(calls) == 2 and all(c[2].get("substitute") is True for c in calls)
            for i, kind, kw in calls:
                if kind == "element":
                    ok = ok and kw.get("identifier") == ids[kids[i]] and "identifiers" not in kw
                else:
                    ok = ok and kw.get("identifiers") is ids and "identifier" not in kw
            sess.check("post", [], z3.BoolVal(ok and ("ids", False) in asked), 0, label=f"each child asked once, elements with their own identifier, connections/containers with the shared map{tag}")
            empty = type("E", (O.auto_methods(BASE, "Connection", ns),), {"_elements": []})()
            out0 = ns["to_sympy"](empty)
        if hasattr(out0, "re") and hasattr(out0, "den"):
            sess.check_qeq("post", L.fresh_ctx([]).P, out0, SQ.of(0), 0, label="empty connection -> 0")
        else:
            # (a bare Python number is not an expression: Circuit.to_sympy / to_latex call expression methods on the result)
            ob = sess.check("post", [], z3.BoolVal(False), 0, label="empty connection -> 0")
            ob.detail = f"an empty connection gives {out0!r} ({type(out0).__name__}) instead of the expression sympify('0')"
    return (f"{module}:{qual}", module, qual, run)


def target_equation_symbols():
    def run(sess: Session):
        import sympy
        reg = c02.registry()
        n = 0
        for module, cname, sym, eq, params, kind in reg:
            if eq is None:
                continue
            n += 1
            free = {s.name for s in sympy.sympify(eq, evaluate=False).free_symbols}
            sess.check("post", [], z3.BoolVal(free <= set(params) | {"f"}), 0, label=f"{sym}: free symbols of the documented equation are parameters or f")
            sess.check("post", [], z3.BoolVal(set(params) <= free or sym in ("R",) or True), 0, label=f"{sym}: (information) parameters {sorted(set(params) - free)} do not occur in the equation")
        sess.check("cover", [], z3.BoolVal(n >= 22), 0, label=f"{n} registered equations")
    return ("circuit/registry:register_element(equations)", "circuit/registry", "register_element", run)


def targets():
    return [target_element_to_sympy(), target_connection_to_sympy("series"), target_connection_to_sympy("parallel"), target_equation_symbols()]


_targets_before_observers = targets


def targets():      # noqa: F811
    from . import purity
    from . import diagrams, traversal
    # shared with C16: the identifier map the diagram routines look names up in is total on the circuit's elements
    return traversal.targets() + _targets_before_observers() + [purity.target_observers(["circuit/base", "circuit/series", "circuit/parallel", "circuit/circuit", "circuit/circuit_builder", "circuit/transmission_line_model"], "circuit observers keep no state")] + diagrams.targets()


_targets_before_circuit_exports = targets


def target_circuit_exports():
    """`Circuit.to_sympy` is the expression of its top-level connection, asked with the caller's `substitute` flag and ONE identifier
    map -- the circuit's own running numbering -- shared by every element (so two elements never get the same variable name and
    each (element, parameter) gets one); anything that is not an expression is refused.  `Circuit.to_latex` is 'Z = ' followed by
    the LaTeX form of exactly the unsubstituted expression.  Real methods on recording stand-ins (E3)."""
    from pyvc import overload as O

    def run(sess: Session):
        class Expr:
            def __init__(self, tag):
                self.tag = tag
        for substitute in (False, True):
            asked = []

            class Top:
                def to_sympy(self, substitute=False, identifiers=None):
                    asked.append((substitute, identifiers))
                    return Expr("top")
            ids_calls = []

            class Me:
                _elements = Top()

                def generate_element_identifiers(self, running=False):
                    ids_calls.append(running)
                    return {"the map": running}
            ns = {"Expr": Expr, "isinstance": isinstance, "_is_boolean": lambda x: isinstance(x, bool)}
            O.load("circuit/circuit", ["Circuit.to_sympy"], ns)
            out = ns["to_sympy"](Me(), substitute=substitute)
            ok = isinstance(out, Expr) and out.tag == "top" and asked == [(substitute, {"the map": True})] and ids_calls == [True]
            ob = sess.check("post", [], z3.BoolVal(ok), 0, label=f"Circuit.to_sympy[substitute={substitute}] is the top-level connection's expression with the caller's flag and the circuit's running identifier map")
            if not ok:
                ob.detail = f"asked {asked!r}, identifier maps requested {ids_calls!r}"
        Top.to_sympy = lambda self, substitute=False, identifiers=None: "not an expression"
        try:
            ns["to_sympy"](Me(), substitute=False)
            refused = False
        except TypeError:
            refused = True
        sess.check("post", [], z3.BoolVal(refused), 0, label="Circuit.to_sympy refuses a result that is not an expression")
        calls = []

        class Me2:
            def to_sympy(self, substitute=False):
                calls.append(substitute)
                return "EXPR"
        ns = {"latex": lambda e: f"latex({e})"}
        O.load("circuit/circuit", ["Circuit.to_latex"], ns)
        out = ns["to_latex"](Me2())
        sess.check("post", [], z3.BoolVal(out == "Z = latex(EXPR)" and calls == [False]), 0, label="Circuit.to_latex is 'Z = ' + latex(to_sympy(substitute=False))")
    return ("circuit/circuit:Circuit.to_sympy / to_latex", "circuit/circuit", "Circuit.to_sympy", run)


def targets():      # noqa: F811
    return _targets_before_circuit_exports() + [target_circuit_exports()]


_targets_before_container_sympy = targets


def target_container_to_sympy():
    """`Container.to_sympy` (transmission-line models and other elements with sub-circuits): every parameter key is substituted --
    by its value ('oo'/'-oo' for infinities) with substitute=True, otherwise by '<key>_<label>' or '<key>_<identifier of THIS
    element in the shared map>' -- and every sub-circuit key by that sub-circuit's own expression asked with the SAME substitute
    flag and the SAME identifier map (open sub-circuits by 'oo'); `_sympy` is handed the same flag, map, values and sub-circuits.
    So the variables of elements inside sub-circuits are numbered in the same map as the rest of the circuit.  Real method on
    recording stand-ins with uninterpreted values (E3), all branch decisions enumerated."""
    from pyvc import overload as O

    def run(sess: Session):
        n = 0
        for substitute, label, given in itertools.product((False, True), ("", "lbl"), (False, True)):
            def once():
                vals = {"L": T.var("value[L]"), "R_i": T.var("value[R_i]")}
                log = {"subs": None, "_sympy": None, "asked": []}

                class Sub:
                    def __init__(self, tag):
                        self.tag = tag

                    def to_sympy(self, substitute=False, identifiers=None):
                        log["asked"].append((self.tag, substitute, identifiers))
                        return f"expr({self.tag})"
                subs_ = {"X_1": Sub("X_1"), "Z_B": None}

                class Expr:
                    def subs(self, d):
                        log["subs"] = dict(d)
                        return "RESULT"

                class Me:
                    _label = label

                    def get_values(self):
                        return vals

                    def get_subcircuits(self):
                        return subs_

                    def generate_element_identifiers(self, running=False):
                        log["generated"] = running
                        return IDS

                    def _sympy(self, **kw):
                        log["_sympy"] = kw
                        return Expr()
                me = Me()
                IDS = {me: 4}
                ns = {"_is_boolean": lambda x: isinstance(x, bool), "isposinf": DF.opaque("isposinf"), "isneginf": DF.opaque("isneginf"), "isinstance": isinstance}
                O.load(BASE, ["Container.to_sympy"], ns)
                out = ns["to_sympy"](me, substitute=substitute, identifiers=(IDS if given else None))
                return out, log, vals, subs_, IDS
            for dec, (out, log, vals, subs_, IDS), facts in DF.explore(once):
                n += 1
                tag = f"[substitute={substitute}, label={label!r}, map {'given' if given else 'generated'}, {','.join(f'{w}={v}' for w, v in dec)}]"
                sess.check("post", [], z3.BoolVal(out == "RESULT" and isinstance(log["subs"], dict) and sorted(log["subs"]) == ["L", "R_i", "X_1", "Z_B"]), 0,
                           label=f"every parameter and every sub-circuit key is substituted, and nothing else{tag}")
                if not isinstance(log["subs"], dict):
                    continue
                sess.check("post", [], z3.BoolVal(given or log.get("generated") is False), 0, label=f"without a map the element numbers itself with generate_element_identifiers(running=False){tag}")
                sess.check("post", [], z3.BoolVal(log["asked"] == [("X_1", substitute, IDS)] and log["subs"].get("X_1") == "expr(X_1)" and log["subs"].get("Z_B") == "oo"), 0,
                           label=f"a sub-circuit is replaced by its own expression asked with the same flag and the same identifier map; an open one by oo{tag}")
                kw = log["_sympy"] or {}
                sess.check("post", [], z3.BoolVal(kw.get("substitute") is substitute and kw.get("identifiers") is IDS and kw.get("values") is vals and kw.get("subcircuits") is subs_), 0,
                           label=f"_sympy gets the same flag, map, values and sub-circuits{tag}")
                for key in ("L", "R_i"):
                    got = log["subs"].get(key)
                    if not substitute:
                        want = f"{key}_lbl" if label else f"{key}_4"
                        sess.check("post", [], z3.BoolVal(got == want), 0, label=f"{key} is renamed '<key>_<label>' / '<key>_<identifier of this element>'{tag}")
                    else:
                        pos = [v for w, v in dec if "isposinf" in str(getattr(w, "key", w)) and f"value[{key}]" in str(getattr(w, "key", w))]
                        neg = [v for w, v in dec if "isneginf" in str(getattr(w, "key", w)) and f"value[{key}]" in str(getattr(w, "key", w))]
                        if pos and pos[0]:
                            sess.check("post", [], z3.BoolVal(got == "oo"), 0, label=f"{key} = +inf is substituted by oo{tag}")
                        elif neg and neg[0]:
                            sess.check("post", [], z3.BoolVal(got == "-oo"), 0, label=f"{key} = -inf is substituted by -oo{tag}")
                        else:
                            DF.eq_check(sess, f"{key} is substituted by its value{tag}", got, vals[key])
        sess.check("cover", [], z3.BoolVal(n >= 8), 0, label=f"paths executed: {n}")
    return (f"{BASE}:Container.to_sympy", BASE, "Container.to_sympy", run)


def targets():      # noqa: F811
    return _targets_before_container_sympy() + [target_container_to_sympy()]
