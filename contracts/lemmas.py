"""Helpers for pointwise lemmas on real function bodies executed through pyvc/overload.py."""
from __future__ import annotations

import z3

from pyvc import overload as O
from pyvc.overload import SQ, csym, sym

UTIL = "analysis/utility"
KKUTIL = "analysis/kramers_kronig/utility"


def fresh_ctx(hyps=()):
    O.CTX = O.Ctx(list(hyps))
    return O.CTX


def load(module, names, extra=None):
    ns = O.base_namespace()
    if extra:
        ns.update(extra)
    O.load(module, names, ns)
    return ns


def abs2(z: SQ) -> SQ:
    return z.real * z.real + z.imag * z.imag
