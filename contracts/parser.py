"""Sidecar model + contracts of pyimpspec/circuit/parser.py:Parser (C04 totality, C03 stack frame) -- DESIGN Appendix D.

Tokens and stack items are integer ids with an uninterpreted `kind(id)`; `_tokens` is consumed from the front, `_stack`
has its top at index 0 (array windows).  The mutual recursion main_loop -> connection/element -> ... -> main_loop is cut
by contracts: each function is verified against its own contract assuming the contracts of the functions it calls.
"""
from __future__ import annotations

import ast

import z3

from pyvc import builtins as B
from pyvc.core import Session, find_def
from pyvc.symex import Contract, Executor, LoopSpec, Raised, State, Unsupported
from pyvc.values import NONE, ClassV, DictV, Exc, FuncV, Key, ListV, NoneV, Obj, Opt, PyList, Ref, StrV, TupleV, fresh, POS_INF, NEG_INF
from . import tokenizer as TK

MOD = "circuit/parser"
I = z3.IntSort()
kind = z3.Function("kind", I, I)            # of token ids and of stack items
tnum = z3.Function("tnum", I, z3.RealSort())
tstr = z3.Function("tstr", I, Key)           # text of identifier/label tokens (an opaque string id)
children = z3.Function("children_ok", I, z3.BoolSort())

K = dict(TK.KIND)
K.update({"Element": 100, "Series": 101, "Parallel": 102})
NODE_KINDS = (K["Element"], K["Series"], K["Parallel"])
OPENERS = (K["LBracket"], K["LParen"])

PARSING_ERRORS = {"InsufficientTokens", "UnexpectedToken", "UnexpectedIdentifier", "ExpectedParameterIdentifier", "ExpectedNumericValue",
                  "InvalidNumericValue", "ConnectionWithoutElements", "InsufficientElementsInParallelConnection", "InvalidElementSymbol",
                  "DuplicateParameterDefinition", "InvalidParameterDefinition", "TooManyParameterDefinitions", "InvalidParameterLowerLimit",
                  "InvalidParameterUpperLimit", "ParsingError", "UnexpectedCharacter", "TokenizingError", "ValueError"}

STR_CONST = {}


def strc(s: str):
    if s not in STR_CONST:
        STR_CONST[s] = z3.Const(f"str:{s}", Key)
    return STR_CONST[s]


class Tok:
    """a token / stack item value: integer id"""

    def __init__(self, i):
        self.id = i


def is_node(i):
    return z3.Or(*[kind(i) == k for k in NODE_KINDS])


def is_opener(i):
    return z3.Or(*[kind(i) == k for k in OPENERS])


def stack_inv(S: ListV):
    j = fresh("j", I)
    return z3.ForAll([j], z3.Implies(z3.And(S.lo <= j, j < S.hi), z3.Or(is_node(z3.Select(S.arr, j)), is_opener(z3.Select(S.arr, j)))))


def nodes_only(L: ListV, lo=None, hi=None):
    j = fresh("j", I)
    lo = L.lo if lo is None else lo
    hi = L.hi if hi is None else hi
    return z3.ForAll([j], z3.Implies(z3.And(lo <= j, j < hi), is_node(z3.Select(L.arr, j))))


def same_below(S1: ListV, S0: ListV, frm=None):
    """S1 agrees with S0 on [frm, S0.hi) and has the same end"""
    j = fresh("j", I)
    frm = S0.lo if frm is None else frm
    return z3.And(S1.hi == S0.hi, z3.ForAll([j], z3.Implies(z3.And(frm <= j, j < S0.hi), z3.Select(S1.arr, j) == z3.Select(S0.arr, j))))


def new_parser(st: State, tokens_nonempty=False):
    T = ListV(fresh("T", z3.ArraySort(I, I)), fresh("tlo", I), fresh("thi", I), wrap=Tok)
    S = ListV(fresh("S", z3.ArraySort(I, I)), fresh("slo", I), fresh("shi", I), wrap=Tok)
    me = st.alloc(Obj("Parser", {"_tokens": st.alloc(T), "_stack": st.alloc(S),
                                 "_valid_elements": st.alloc(DictV.symbolic("valid", Key, I))}))
    st.pc += [T.lo <= T.hi, S.lo <= S.hi, stack_inv(S)]
    j = fresh("j", I)
    # tokens are tokens (kinds of token classes), never nodes
    st.pc.append(z3.ForAll([j], z3.And(kind(z3.Select(T.arr, j)) >= 1, kind(z3.Select(T.arr, j)) <= len(TK.TOKEN_CLASSES))))
    if tokens_nonempty:
        st.pc.append(T.lo < T.hi)
    return me, T, S


def cur(st: State, me, name) -> ListV:
    return st.deref(st.deref(me).fields[name])


def progress_post(T1: ListV, T0: ListV, strict=True):
    return z3.And(z3.BoolVal(T1.arr.eq(T0.arr)), T1.hi == T0.hi, (T1.lo > T0.lo) if strict else (T1.lo >= T0.lo), T1.lo <= T1.hi)


def pushes_one_node(S1: ListV, S0: ListV):
    return z3.And(S1.lo == S0.lo - 1, same_below(S1, S0), is_node(z3.Select(S1.arr, S1.lo)))


# ----------------------------------------------------------------------------- contracts used at call sites

def havoc_tokens(st: State, me, strict=True):
    T0 = cur(st, me, "_tokens")
    nlo = fresh("tlo", I)
    st.heap[st.deref(me).fields["_tokens"].addr] = ListV(T0.arr, nlo, T0.hi, T0.wrap)
    st.pc += [(nlo > T0.lo) if strict else (nlo >= T0.lo), nlo <= T0.hi]


def push_node_contract(name: str, strict_tokens=True):
    """main_loop / connection / element: on normal return consumed >= 1 token and pushed exactly one node; may raise parsing errors"""
    def apply(ex: Executor, st: State, recv, args, kwargs, line):
        S0 = cur(st, recv, "_stack")
        ex.oblige("call-pre", st, stack_inv(S0), line, f"{name}:StackInv")
        if name == "connection":
            T0 = cur(st, recv, "_tokens")
            opening = args[0]
            ex.oblige("call-pre", st, z3.And(T0.length() > 0, kind(z3.Select(T0.arr, T0.lo)) == opening.kind), line, "connection:first-token-is-the-opening-bracket")
        if name == "element":
            T0 = cur(st, recv, "_tokens")
            ex.oblige("call-pre", st, z3.And(T0.length() > 0, kind(z3.Select(T0.arr, T0.lo)) == K["Identifier"]), line, "element:first-token-is-an-identifier")
        outs = [(Raised(Exc("ParsingError|ValueError", line)), st.clone())]
        havoc_tokens(st, recv, strict=True)
        node = fresh("node", I)
        S1 = ListV(z3.Store(S0.arr, S0.lo - 1, node), S0.lo - 1, S0.hi, S0.wrap)
        st.heap[st.deref(recv).fields["_stack"].addr] = S1
        st.pc.append(is_node(node))
        outs.append((NONE, st))
        return outs
    return apply


def subcircuit_contract(ex: Executor, st: State, recv, args, kwargs, line):
    """subcircuit(key): FRAME -- the stack is exactly what it was; returns None or a connection node"""
    T0 = cur(st, recv, "_tokens")
    S0 = cur(st, recv, "_stack")
    ex.oblige("call-pre", st, stack_inv(S0), line, "subcircuit:StackInv")
    ex.oblige("call-pre", st, z3.And(T0.length() > 0, z3.Or(*[kind(z3.Select(T0.arr, T0.lo)) == K[k] for k in ("Identifier", "LBracket", "LParen")])), line, "subcircuit:starts-with-identifier-or-bracket")
    outs = [(Raised(Exc("ParsingError|ValueError", line)), st.clone())]
    havoc_tokens(st, recv, strict=True)
    s_none = st.clone()
    outs.append((NONE, s_none))
    node = fresh("sub", I)
    st.pc.append(z3.Or(kind(node) == K["Series"], kind(node) == K["Parallel"]))
    outs.append((Tok(node), st))
    return outs


def install_common(ex: Executor):
    B.install(ex)
    ex.empty_list_sort = I
    for n in TK.TOKEN_CLASSES:
        ex.consts[n] = TK.TokClass(K[n])
    for n in ("Element", "Connection", "Token", "Series", "Parallel", "Container", "Circuit"):
        ex.classes[n] = ClassV(n)
    for n in PARSING_ERRORS:
        ex.classes[n] = ClassV(n)
    for m in ("pop_token", "pop_stack", "push_stack", "is_stack_empty", "get_stack_length", "peek", "accept", "expect", "expect_number"):
        ex.inline[m] = (MOD, f"Parser.{m}")

    def b_type(ex_, st, args, kwargs, node):
        v = args[0]
        if isinstance(v, NoneV):
            return [(ClassV("NoneType"), st)]
        if isinstance(v, Tok):
            return [(TK.TokClass(kind(v.id)), st)]
        raise Unsupported("type() of this value")
    ex.consts["type"] = ("builtin", b_type)

    def isinstance_model(ex_, st, v, c):
        names = [x.name for x in (c.items if isinstance(c, TupleV) else [c]) if isinstance(x, ClassV)]
        if isinstance(v, Tok):
            conds = []
            for n in names:
                if n == "Element":
                    conds.append(kind(v.id) == K["Element"])
                elif n == "Connection":
                    conds.append(z3.Or(kind(v.id) == K["Series"], kind(v.id) == K["Parallel"]))
                elif n == "Token":
                    conds.append(z3.And(kind(v.id) >= 1, kind(v.id) <= len(TK.TOKEN_CLASSES)))
                elif n in K:
                    conds.append(kind(v.id) == K[n])
            tokc = [x for x in (c.items if isinstance(c, TupleV) else [c]) if isinstance(x, TK.TokClass)]
            for t in tokc:
                conds.append(kind(v.id) == t.kind)
            return z3.Or(*conds) if conds else z3.BoolVal(False)
        if isinstance(v, NoneV):
            return z3.BoolVal(False)
        return None
    ex.isinstance_model = isinstance_model
    orig_identical = ex.identical

    def identical(l, r, st):
        if isinstance(l, TK.TokClass) or isinstance(r, TK.TokClass):
            if isinstance(l, TK.TokClass) and isinstance(r, TK.TokClass):
                return l.kind == r.kind
            if isinstance(l, ClassV) or isinstance(r, ClassV):
                c = l if isinstance(l, ClassV) else r
                t = r if isinstance(l, ClassV) else l
                return (t.kind == K[c.name]) if c.name in K else z3.BoolVal(False)
            return z3.BoolVal(False)
        return orig_identical(l, r, st)
    ex.identical = identical
    orig_equal = ex.equal

    def equal(l, r, st):
        if isinstance(l, TK.TokClass) or isinstance(r, TK.TokClass):
            return identical(l, r, st)
        for a, b in ((l, r), (r, l)):
            if isinstance(a, tuple) and a and a[0] == "tokvalue":
                if isinstance(b, str):
                    return tstr(a[1].id) == strc(b)
                if isinstance(b, tuple) and b and b[0] == "tokvalue":
                    return tstr(a[1].id) == tstr(b[1].id)
        return orig_equal(l, r, st)
    ex.equal = equal
    # list values holding Tok: store the id
    orig_cvm = ex.call_value_method

    def cvm(recv, o, name, args, kwargs, st, node):
        conv = []
        for a in args:
            if isinstance(a, Tok):
                a = a.id
            elif isinstance(a, Ref) and isinstance(st.deref(a), Obj) and st.deref(a).cls == "Element":
                nid = z3.IntVal(1000000 + a.addr)            # an element instance as a stack item
                st.pc.append(kind(nid) == K["Element"])
                a = nid
            conv.append(a)
        args = conv
        if isinstance(o, ListV) and name == "extend":
            other = st.deref(args[0])
            if isinstance(other, ListV):
                i = fresh("xi", I)
                n0 = o.hi
                arr = z3.Lambda([i], z3.If(i < n0, z3.Select(o.arr, i), z3.Select(other.arr, i - n0 + other.lo)))
                st.heap[recv.addr] = ListV(arr, o.lo, o.hi + other.length(), o.wrap)
                return [(NONE, st)]
        if isinstance(o, ListV) and name == "reverse":
            i = fresh("ri", I)
            st.heap[recv.addr] = ListV(z3.Lambda([i], z3.Select(o.arr, o.lo + o.hi - 1 - i)), o.lo, o.hi, o.wrap)
            return [(NONE, st)]
        return orig_cvm(recv, o, name, args, kwargs, st, node)
    ex.call_value_method = cvm

    def b_reversed(ex_, st, args, kwargs, node):
        v = st.deref(args[0])
        if isinstance(v, ListV):
            i = fresh("ri", I)
            return [(st.alloc(ListV(z3.Lambda([i], z3.Select(v.arr, v.lo + v.hi - 1 - i)), v.lo, v.hi, v.wrap)), st)]
        raise Unsupported("reversed of non-list")
    ex.consts["reversed"] = ("builtin", b_reversed)
    # all(map(lambda _: ..., <list>))
    orig_all = ex.consts["all"][1]

    def b_all(ex_, st, args, kwargs, node):
        v = args[0]
        if isinstance(v, tuple) and v[0] == "map" and isinstance(st.deref(v[2]), ListV):
            lst: ListV = st.deref(v[2])
            j = fresh("aj", I)
            r = ex_.call(v[1], [lst.at(j)], {}, None, st.clone(), node)
            if len(r) != 1 or isinstance(r[0][0], Raised):
                # a short-circuit `or` inside the lambda forks; evaluate both disjuncts purely instead
                body = _pure_lambda(ex_, v[1], lst.at(j), st)
            else:
                body = ex_.truthy(r[0][0], st)
            return [(z3.ForAll([j], z3.Implies(z3.And(lst.lo <= j, j < lst.hi), body)), st)]
        return orig_all(ex_, st, args, kwargs, node)
    ex.consts["all"] = ("builtin", b_all)
    # attribute access on tokens / nodes
    orig_getattr = ex.getattr

    def ga(base, attr, st, node=None):
        if isinstance(base, Tok):
            if attr == "value":
                return ("tokvalue", base)
            if attr == "_elements":
                lst = ListV(fresh("kids", z3.ArraySort(I, I)), z3.IntVal(0), fresh("nkids", I), wrap=Tok)
                st.pc += [lst.hi >= 0, nodes_only(lst)]          # WF(node): children of a connection are nodes
                return st.alloc(lst)
        return orig_getattr(base, attr, st, node)
    ex.getattr = ga
    orig_store = ex.store

    def store(t, v, st, node):
        return orig_store(t, v.id if isinstance(v, Tok) and isinstance(t, ast.Subscript) else v, st, node)
    ex.store = store
    # a token's text looked up in a dict with literal string keys (keyword tables)
    from pyvc.values import PyDict
    orig_contains = ex.contains

    def contains(container, item, st, line):
        c = st.deref(container)
        if isinstance(item, tuple) and item and item[0] == "tokvalue" and isinstance(c, PyDict):
            ks = [k for k in c.items if isinstance(k, str)]
            return z3.Or(*[tstr(item[1].id) == strc(k) for k in ks]) if ks else z3.BoolVal(False)
        return orig_contains(container, item, st, line)
    ex.contains = contains
    orig_subscript = ex.subscript

    def subscript(base, idx, st, node):
        c = st.deref(base)
        if isinstance(idx, tuple) and idx and idx[0] == "tokvalue" and isinstance(c, PyDict):
            ks = [k for k in c.items if isinstance(k, str)]
            # one entry per literal key: the path condition decides which one it is (values may be of different kinds)
            for k in ks:
                s2 = st.clone()
                s2.pc.append(tstr(idx[1].id) == strc(k))
                if ex.feasible(s2):
                    st.pc.append(tstr(idx[1].id) == strc(k))
                    return (c.items[k], st)
            ex.oblige("exc-free", st, z3.BoolVal(False), getattr(node, "lineno", 0), "KeyError")
            return (Raised(Exc("KeyError", getattr(node, "lineno", 0))), st)
        return orig_subscript(base, idx, st, node)
    ex.subscript = subscript


def install_token_values(ex: Executor):
    """numeric / textual use of `token.value` (tnum for arithmetic and float results, tstr for comparisons with text)"""
    from pyvc.values import NEG_INF, POS_INF
    upper = z3.Function("str_upper", Key, Key)

    def num(v):
        if isinstance(v, tuple) and v and v[0] == "tokvalue":
            return tnum(v[1].id)
        return v
    orig_binop = ex.binop

    def binop(op, l, r, st, node):
        return orig_binop(op, num(l), num(r), st, node)
    ex.binop = binop
    orig_compare = ex.compare

    def compare(op, l, r, st, node):
        if isinstance(op, (ast.Lt, ast.LtE, ast.Gt, ast.GtE)):
            l, r = num(l), num(r)
        return orig_compare(op, l, r, st, node)
    ex.compare = compare
    orig_equal = ex.equal

    def equal(l, r, st):
        for a, b in ((l, r), (r, l)):
            if isinstance(a, tuple) and a and a[0] == "tokvalue_upper" and isinstance(b, str):
                return upper(tstr(a[1].id)) == strc(b)
        return orig_equal(l, r, st)
    ex.equal = equal
    orig_cvm = ex.call_value_method

    def cvm(recv, o, name, args, kwargs, st, node):
        if isinstance(recv, tuple) and recv and recv[0] == "tokvalue" and name == "upper":
            return [(("tokvalue_upper", recv[1]), st)]
        return orig_cvm(recv, o, name, args, kwargs, st, node)
    ex.call_value_method = cvm
    orig_ga = ex.getattr

    def ga(base, attr, st, node=None):
        if isinstance(base, tuple) and base and base[0] == "tokvalue":
            return ("boundmethod", base, attr)
        return orig_ga(base, attr, st, node)
    ex.getattr = ga

    def b_int(ex_, st, args, kwargs, node):
        v = num(args[0])
        if z3.is_expr(v) and z3.is_real(v):
            # int(float): OverflowError for +-inf, ValueError for nan, else truncation (an Int within 1 of v)
            line = getattr(node, "lineno", 0)
            outs = []
            s_inf = st.clone()
            s_inf.pc.append(z3.Or(v == POS_INF, v == NEG_INF))
            if ex_.feasible(s_inf):
                outs.append((Raised(Exc("OverflowError", line)), s_inf))
            s_nan = st.clone()
            s_nan.pc.append(v > POS_INF)
            if ex_.feasible(s_nan):
                outs.append((Raised(Exc("ValueError", line)), s_nan))
            n = fresh("int", I)
            st.pc += [v > NEG_INF, v < POS_INF, z3.ToReal(n) <= z3.If(v >= 0, v, v + 1), z3.ToReal(n) >= z3.If(v >= 0, v - 1, v)]
            outs.append((n, st))
            return outs
        raise Unsupported("int() of this value")
    ex.consts["int"] = ("builtin", b_int)
    ex.consts["nan"] = POS_INF + 1
    ex.consts["inf"] = POS_INF
    ex.consts["isnan"] = ("builtin", lambda ex_, s, a, kw, n: [(ex_.lift(num(a[0])) > POS_INF, s)])
    return num


def _pure_lambda(ex, f, x, st):
    """evaluate `lambda _: A or B` without forking: Or(A, B)"""
    body = f.node.body
    sub = st.clone()
    sub.frames.append({"__closure__": f.closure, f.node.args.args[0].arg: x})
    if isinstance(body, ast.BoolOp):
        parts = [ex.truthy(ex._pure(v, sub), sub) for v in body.values]
        return z3.Or(*parts) if isinstance(body.op, ast.Or) else z3.And(*parts)
    return ex.truthy(ex._pure(body, sub), sub)


def node_ctor(kindname: str):
    def apply(ex: Executor, st: State, cls, args, kwargs, line):
        node = fresh(kindname.lower(), I)
        st.pc.append(kind(node) == K[kindname])
        if getattr(ex, "module_init", False):
            st.ghost.setdefault("static_nodes", []).append(node)       # created at import time: shared between all parses
        items = st.deref(args[0]) if args else None
        if isinstance(items, ListV):
            ex.oblige("call-pre", st, nodes_only(items), line, f"{kindname}(children):children-are-nodes")
        elif isinstance(items, PyList):
            for it in items.items:
                if isinstance(it, Tok):
                    ex.oblige("call-pre", st, is_node(it.id), line, f"{kindname}(children):children-are-nodes")
        return [(Tok(node), st)]
    return apply
