"""C01 proof layer: series/parallel composition laws on the real Series._impedance / Parallel._impedance, executed by
CPython on classified array stand-ins (each branch's impedance array is all-open, all-short or finite non-zero everywhere;
generic point values are symbolic complex numbers), for every classification of up to 3 branches, every branch kind
(element, container, connection).  Circuit.__init__ wrapping and the builder/parse glue are structural obligations.
Not covered here (bounded layer): branches that are zero at *some* frequencies only; element impedances themselves (C02)."""
from __future__ import annotations

import ast
import itertools

import z3

from pyvc import core
from pyvc import overload as O
from pyvc.core import Session
from pyvc.overload import SQ, csym, sym
from . import lemmas as L

SER = "circuit/series"
PAR = "circuit/parallel"
CIR = "circuit/circuit"
INF = float("inf")


class Mask:
    def __init__(self, all_true: bool):
        self.v = all_true

    def all(self):
        return self.v

    def any(self):
        return self.v

    def __invert__(self):
        return Mask(not self.v)


class Idx:
    def __init__(self, size):
        self.size = size


class Arr:
    """an impedance array of one classification; `val` is its value at a generic index"""
    N = 1000

    def __init__(self, cls: str, val=None):
        # "tiny": finite and non-zero like any other finite value, but below every tolerance -- only a tolerance-based test
        # (isclose / allclose, which the real code does not use) can tell it from "finite"
        self.tiny = cls == "tiny"
        self.cls, self.val = ("finite" if cls == "tiny" else cls), val
        self.shape, self.size = (Arr.N,), Arr.N

    def __eq__(self, other):                 # Z == 0.0
        if other == 0:
            return Mask(self.cls == "short")
        raise O.Unsupported("array comparison")
    __hash__ = None

    def __rtruediv__(self, one):             # 1 / Z
        if self.cls != "finite":
            raise O.Unsupported(f"reciprocal of a {self.cls} branch is taken")
        return one / self.val

    def __radd__(self, other):               # result += Z  (series)
        if self.cls == "short":
            return other
        if self.cls == "open":
            return OpenSum()
        return other + self.val


class OpenSum:
    def __add__(self, o):
        return self
    __radd__ = __add__


def where(mask):
    return (Idx(Arr.N if mask.v else 0),)


def isinf(z):
    if isinstance(z, Arr):
        return Mask(z.cls == "open")
    raise O.Unsupported("isinf of a non-array")


def isclose(z, v, *a, **kw):
    if isinstance(z, Arr) and v == 0:
        return Mask(z.cls == "short" or z.tiny)
    raise O.Unsupported("isclose of this value")


def allclose(z, v, *a, **kw):
    return isclose(z, v).all()


class InfiniteImpedance(Exception):
    pass


class Element:
    pass


class Container(Element):
    pass


class Connection:
    pass


def make_child(kind: str, arr: Arr):
    base = {"element": Element, "container": Container, "connection": Connection}[kind]

    class C(base):
        def get_values(self):
            return {}

        def get_subcircuits(self):
            return {}

        def _impedance(self, f, **kw):
            return arr
    return C()


def full(shape, value, dtype=None):
    if value is False:
        return Mask(False)
    if isinstance(value, complex) and value.real == INF:
        return Arr("open")
    raise O.Unsupported(f"full(..., {value!r})")


def namespace():
    ns = O.base_namespace()
    ns.update({"where": where, "isinf": isinf, "isclose": isclose, "allclose": allclose, "full": full, "InfiniteImpedance": InfiniteImpedance, "Element": Element, "Container": Container,
               "Connection": Connection, "zeros": lambda shape, dtype=None: SQ.of(0), "bool_": bool, "ComplexImpedance": complex,
               "isinstance": isinstance, "len": len, "complex": complex, "float": float})
    return ns


CLASSES = ("finite", "tiny", "short", "open")


def run_connection(which: str, sess: Session):
    module, qual = (SER, "Series._impedance") if which == "series" else (PAR, "Parallel._impedance")
    n_cases = 0
    for n in (0, 1, 2, 3):
        for classes in itertools.product(CLASSES, repeat=n):
            kinds_list = [("element",) * n] if n != 2 else list(itertools.product(("element", "container", "connection"), repeat=2))
            for kinds in kinds_list:
                ctx = L.fresh_ctx([])
                P = ctx.P
                vals = [csym(f"Z{i}") for i in range(n)]
                for i in range(n):
                    P.hyps.append(z3.Or(z3.Real(f"Z{i}_re") != 0, z3.Real(f"Z{i}_im") != 0))
                kids = [make_child(k, Arr(c, v)) for k, c, v in zip(kinds, classes, vals)]
                ns = namespace()
                O.load(module, [qual], ns)

                class Self(O.auto_methods("circuit/base", "Connection", ns)):
                    _elements = kids
                f = Arr("finite", sym("f"))
                f.__class__ = type("F", (Arr,), {"__rmul__": lambda s, o: SQ.of(0) if o == 0 else (_ for _ in ()).throw(O.Unsupported("f scaled"))})
                tag = f"[{','.join(c + ':' + k[:4] for c, k in zip(classes, kinds)) or 'empty'}]"
                n_cases += 1
                try:
                    got = ns["_impedance"](Self(), f)
                    raised = None
                except InfiniteImpedance:
                    got, raised = None, "InfiniteImpedance"
                if which == "series":
                    if "open" in classes:
                        ok = isinstance(got, OpenSum)
                        sess.check("post", [], z3.BoolVal(ok), 0, label=f"series{tag}: an open part makes the sum open")
                    else:
                        want = SQ.of(0)
                        for c, v in zip(classes, vals):
                            if c in ("finite", "tiny"):
                                want = want + v
                        sess.check_qeq("post", P, SQ.of(got), want, 0, label=f"series{tag}: Z == sum of the parts")
                else:
                    if n == 0 or "short" in classes:
                        ok = raised is None and isinstance(got, SQ)
                        if ok:
                            sess.check_qeq("post", P, got, SQ.of(0), 0, label=f"parallel{tag}: a shorted branch shorts the connection (empty -> 0)")
                        else:
                            sess.check("post", [], z3.BoolVal(False), 0, label=f"parallel{tag}: a shorted branch shorts the connection (empty -> 0)")
                    elif all(c == "open" for c in classes):
                        # every branch open: the connection is itself open.  Either it raises (only acceptable at the top level) or it
                        # returns an all-infinite array, which an enclosing connection then treats as an open branch.
                        ok = isinstance(got, Arr) and got.cls == "open"
                        sess.check("post", [], z3.BoolVal(ok), 0, label=f"parallel{tag}: all branches open => the connection is an open branch (infinite array), not an exception")
                    else:
                        want = SQ.of(0)
                        for c, v in zip(classes, vals):
                            if c in ("finite", "tiny"):
                                want = want + 1 / v
                        ok = raised is None and isinstance(got, SQ)
                        if ok:
                            sess.check_qeq("post", P, got * want, SQ.of(1), 0, label=f"parallel{tag}: 1/Z == sum over non-open branches of 1/Z_k")
                        else:
                            sess.check("post", [], z3.BoolVal(False), 0, label=f"parallel{tag}: 1/Z == sum over non-open branches of 1/Z_k")
    sess.check("cover", [], z3.BoolVal(n_cases >= 1 + 4 + 144 + 64), 0, label=f"{n_cases} classifications")
    sess.assumptions.append("each branch is open at all frequencies, short at all frequencies, or finite and non-zero at all frequencies (partial zeros: bounded layer)")


def target_series():
    return (f"{SER}:Series._impedance", SER, "Series._impedance", lambda sess: run_connection("series", sess))


def target_parallel():
    return (f"{PAR}:Parallel._impedance", PAR, "Parallel._impedance", lambda sess: run_connection("parallel", sess))


def target_circuit_init():
    """Circuit.__init__: Series kept, Parallel / Element wrapped in a Series, a list of elements becomes a Series OF those elements"""
    qual = "Circuit.__init__"

    def run(sess: Session):
        class Series(Connection):
            def __init__(self, els):
                self.els = els

        class Parallel(Connection):
            def __init__(self, els):
                self.els = els
        ns = {"Series": Series, "Parallel": Parallel, "Element": Element, "isinstance": isinstance, "all": all, "map": map, "list": list, "TypeError": TypeError}
        O.load(CIR, [qual], ns)

        class Me:
            pass
        e1, e2 = Element(), Element()
        cases = {"series": Series([e1]), "parallel": Parallel([e1, e2]), "element": e1, "list": [e1, e2]}
        for name, arg in cases.items():
            me = Me()
            ns["__init__"](me, arg)
            top = me._elements
            ok = isinstance(top, Series)
            if name == "series":
                ok = ok and top is arg
            elif name in ("parallel", "element"):
                ok = ok and top.els == [arg]
            else:
                # WellFormed: the children of a Series are nodes (elements / connections), never a list
                ok = ok and all(isinstance(x, (Element, Connection)) for x in top.els) and top.els == [e1, e2]
            sess.check("post", [], z3.BoolVal(bool(ok)), 0, label=f"Circuit({name}): top-level Series whose children are the given nodes")
    return (f"{CIR}:{qual}", CIR, qual, run)


def target_glue():
    """structural obligations: Circuit.get_impedances is _calculate_impedances(self._elements, f); a builder-made circuit is the parse of its own CDC"""
    def run(sess: Session):
        fn = core.find_def(CIR, "Circuit.get_impedances")
        ret = [n for n in ast.walk(fn) if isinstance(n, ast.Return)]
        sess.check("post", [], z3.BoolVal(len(ret) == 1 and ast.unparse(ret[0].value) == "_calculate_impedances(self._elements, frequencies)"), fn.lineno, label="Circuit.get_impedances == _calculate_impedances(self._elements, frequencies)")
        fn2 = core.find_def("circuit/circuit_builder", "CircuitBuilder.to_circuit")
        # the returned value is `<a Parser>.process(self._to_string())`, computed by THIS call (possibly through one local name);
        # nothing is stored on the builder (no cached circuit that a later add() could leave stale)
        ret2 = [n for n in ast.walk(fn2) if isinstance(n, ast.Return)]
        val = ret2[0].value if len(ret2) == 1 else None
        if isinstance(val, ast.Name):
            defs = [n for n in ast.walk(fn2) if isinstance(n, (ast.Assign, ast.AnnAssign)) and any(isinstance(t, ast.Name) and t.id == val.id for t in (n.targets if isinstance(n, ast.Assign) else [n.target]))]
            val = defs[0].value if len(defs) == 1 else None
        ok = isinstance(val, ast.Call) and isinstance(val.func, ast.Attribute) and val.func.attr == "process" and len(val.args) == 1 and ast.unparse(val.args[0]) == "self._to_string()"
        sess.check("post", [], z3.BoolVal(bool(ok)), fn2.lineno, label="CircuitBuilder.to_circuit == Parser().process(self._to_string())")
        stores = [n for n in ast.walk(fn2) if isinstance(n, ast.Attribute) and isinstance(n.ctx, (ast.Store, ast.Del)) and isinstance(n.value, ast.Name) and n.value.id == "self"]
        sess.check("frame", [], z3.BoolVal(not stores), fn2.lineno, label="CircuitBuilder.to_circuit stores nothing on the builder")
    return (f"{CIR}:Circuit.get_impedances", CIR, "Circuit.get_impedances", run)


def targets():
    # shared with C03/C04: every connection a parse returns is a new object of that parse (a sub-circuit keyword such as `short`
    # must not hand out one shared Series), otherwise a parsed circuit's impedance depends on what was done to earlier parses
    from . import c04
    shared = [t for t in c04.targets() if "Parser.subcircuit" in t[0]]
    return [target_series(), target_parallel(), target_circuit_init(), target_glue()] + shared


_targets_before_observers = targets


def targets():      # noqa: F811
    from . import purity
    return _targets_before_observers() + [purity.target_observers(["circuit/base", "circuit/series", "circuit/parallel", "circuit/circuit", "circuit/circuit_builder", "circuit/transmission_line_model"], "circuit observers keep no state"), purity.target_modules(["circuit/__init__", "circuit/parser", "circuit/tokenizer", "circuit/circuit_builder", "circuit/base", "circuit/series", "circuit/parallel", "circuit/circuit"], "circuit modules keep no state between calls")]


_targets_before_folds = targets


def targets():      # noqa: F811
    """+ the parallel law for ANY number of branches and frequencies (contracts/parallel_law.py); shared with C20: the series law for ANY number of children (pyvc.hoare: the loop over the children cut at the invariant
    `result == partial sum`), with containers evaluated with their values and sub-circuits"""
    from . import diagrams, parallel_law, c03
    # shared with C03: a circuit built with the builder, or re-created from its description code, goes through the emitters --
    # every child of a connection is printed (also a nested connection without children, which is a short inside a parallel one)
    emitters = [t for t in c03.targets() if "to_string" in t[0]]
    # shared with C14: a container built by setting its sub-circuits afterwards is the same circuit as one built with them
    from . import c14
    return _targets_before_folds() + [diagrams.target_child_folds()] + parallel_law.targets() + emitters + [c14.target_set_subcircuits(), c14.target_container_init()]



_GLUE_REPRO = '''import numpy as np
from pyimpspec import Series, Parallel
from pyimpspec.circuit.registry import get_elements
for sym, cls in sorted(get_elements(private=True).items()):
    e = cls()
    try:
        ref = complex(e.get_impedances(np.array([10.0]))[0])
    except Exception:
        continue
    for obj in (e, Series([e]), Parallel([e, cls()])):
        want = complex(obj.get_impedances(np.array([10.0]))[0])
        for fq in (10.0, 10, [10.0], np.float64(10.0)):
            got = complex(np.asarray(obj.get_impedances(fq)).ravel()[0])
            assert abs(got - want) <= 1e-12 * max(1.0, abs(want)), (sym, type(obj).__name__, fq, got, want)
'''


def target_get_impedances_glue():
    """Element.get_impedances / Connection.get_impedances, whatever shape the frequencies come in (an array, a list, a plain float or
    int): the impedance is computed by `_impedance` with ALL of the object's data -- the parameter values and, for a container
    element, its sub-circuits -- and what comes back is that result.  `_calculate_impedances` is replaced by a stand-in that does
    what its own contract says (it hands the object's values and sub-circuits to `_impedance`); a route around it must do the same."""
    from pyvc import overload as O
    BASE = "circuit/base"

    def run(sess: Session):
        class Z:
            def __init__(self, tag):
                self.tag = tag

            def astype(self, *a, **k):
                return self

        class Fr:
            """an array of frequencies: only handed on"""
            def __init__(self, of):
                self.of = of
        CON, RV = object(), object()
        for kind, freq_kind in ((k, f) for k in ("container", "element", "connection") for f in ("array", "float", "int", "list")):
            calls, via = [], []

            class Me:
                def get_values(self):
                    return {"R": RV}

                def get_subcircuits(self):
                    return {"X_1": CON}

                def _impedance(self, f, **kw):
                    calls.append((f, kw))
                    return Z(len(calls))
            me = Me()
            want_kw = {"container": {"R": RV, "X_1": CON}, "element": {"R": RV}, "connection": {}}[kind]

            def calc(obj, f):
                via.append((obj, f))
                return obj._impedance(Fr(f), **want_kw)
            f = {"array": Fr("input"), "float": 10.0, "int": 3, "list": [1.0, 2.0]}[freq_kind]
            ns = {"_calculate_impedances": calc, "_is_floating": lambda x: isinstance(x, float), "_is_integer": lambda x: isinstance(x, int) and not isinstance(x, bool),
                  "_is_floating_array": lambda x: isinstance(x, Fr), "_cast_to_floating_array": lambda x: Fr(x), "inf": float("inf"), "ComplexImpedance": complex,
                  "isinstance": lambda o, c: (c == "Container" and kind == "container") or (c == "Element" and kind in ("container", "element")) or (c == "Connection" and kind == "connection") if isinstance(c, str) else isinstance(o, c),
                  "Container": "Container", "Element": "Element", "Connection": "Connection"}
            qual = "Connection.get_impedances" if kind == "connection" else "Element.get_impedances"
            O.load(BASE, [qual], ns)
            try:
                out = ns["get_impedances"](me, f)
            except TypeError as ex:
                out = ex
            tag = f"[{kind}, frequencies given as {freq_kind}]"
            sess.check("post", [], z3.BoolVal(len(calls) == 1 and calls[0][1] == want_kw), 0, label=f"{tag}one _impedance evaluation with the object's values{' and sub-circuits' if kind == 'container' else ''}")
            sess.check("post", [], z3.BoolVal(isinstance(out, Z) and len(calls) == 1 and out.tag == 1), 0, label=f"{tag}what _impedance computed is what is returned")
        for ob in sess.obligations:
            if ob.status == "refuted" and not ob.expect_refuted and not ob.replay:
                ob.replay = {"input": "every registered element class x frequency given as float / int / list / array", "repro": _GLUE_REPRO}
    return (f"{BASE}:Element.get_impedances / Connection.get_impedances", BASE, "Element.get_impedances", run)


_targets_before_glue2 = targets


def targets():      # noqa: F811
    return _targets_before_glue2() + [target_get_impedances_glue()]



def target_builder_add():
    """CircuitBuilder.add / `+=`: the element object that is handed over is itself appended to the builder's current connection
    (once, at the end) -- not a copy: a circuit assembled with the builder from element objects describes those objects' current
    values when it is built, whichever of the two spellings was used; `+=` returns the builder; anything but an element is refused."""
    import copy as _copy
    from pyvc import overload as O
    CB = "circuit/circuit_builder"

    def run(sess: Session):
        class El:
            def __init__(self):
                self.value = 1.0

            def __copy__(self):
                return El()

            def __deepcopy__(self, memo):
                return El()
        for how in ("add", "__iadd__"):
            ns = {"Element": El, "isinstance": isinstance, "copy": _copy.copy, "deepcopy": _copy.deepcopy, "TypeError": TypeError}
            first, e = El(), El()
            me = type("B", (O.auto_methods(CB, "CircuitBuilder", ns),), {})()
            me._elements = [first]
            O.load(CB, [f"CircuitBuilder.{how}"], ns)
            out = ns[how](me, e)
            sess.check("post", [], z3.BoolVal(len(me._elements) == 2 and me._elements[0] is first and me._elements[1] is e), 0, label=f"[{how}]the element object itself is appended, once, after what was there")
            if how == "__iadd__":
                sess.check("post", [], z3.BoolVal(out is me), 0, label="[__iadd__]returns the builder")
            refused = False
            try:
                ns[how](me, "R")
            except TypeError:
                refused = True
            sess.check("post", [], z3.BoolVal(refused and len(me._elements) == 2), 0, label=f"[{how}]something that is not an element is refused (TypeError), nothing is added")
    return (f"{CB}:CircuitBuilder.add / __iadd__", CB, "CircuitBuilder.add", run)


_targets_before_builder = targets


def targets():      # noqa: F811
    return _targets_before_builder() + [target_builder_add()]
